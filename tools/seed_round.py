#!/usr/bin/env python3
"""Write the prompts of one seeding round: seed_round.py <tag> [minutes] -> /tmp/seedprompts/Cxx_<tag>.txt
(base prompt from seed_prompt.py + the summaries of every seed already kept for that property as an avoid-list)."""
import glob, json, os, subprocess, sys
tag = sys.argv[1]; minutes = sys.argv[2] if len(sys.argv) > 2 else '20'
os.makedirs('/tmp/seedprompts', exist_ok=True)
for n in range(1, 21):
    pid = f'C{n:02d}'
    base = subprocess.run([sys.executable, '/verif/tools/seed_prompt.py', pid, tag], capture_output=True, text=True, check=True).stdout
    used = []
    for m in sorted(glob.glob(f'/verif/seeded/{pid}-*/meta.json')):
        try: used.append(json.load(open(m)).get('summary', '')[:150].replace('\n', ' '))
        except Exception: pass
    extra = ("\n\nIMPORTANT - ideas already used by earlier participants (do NOT repeat them or close variants; pick different mechanisms and different source locations). "
             "Many obvious sites are used up: read the relevant source files completely and look for code paths no idea below touches - rarely used functions / operators / overloads / table kinds / options, "
             "statement kinds other than plain SELECT, interactions between two clauses or two options, the second and later use of an object, empty / single-row / all-NULL / duplicate / tie inputs, "
             "boundary values (zero, negative, very large, empty string, equal values of different representation), inputs given as text vs AST vs parameters, the shell / run_query / renderer entry points where the property covers them. "
             f"Prefer purely local logic slips. You have about {minutes} minutes: be efficient.\n" + ''.join(f'  - {u}\n' for u in used) +
             "\nPractical notes: never use `git stash` (it is shared between worktrees); other people work in sibling worktrees of the same repository at the same time; never kill processes you did not start (no pkill by pattern).\n")
    open(f'/tmp/seedprompts/{pid}_{tag}.txt', 'w').write(base + extra)
print('ok')
