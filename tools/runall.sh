#!/bin/bash
# runall.sh [tier] [seed]  -- run every check registered in MANIFEST.json, print one line each
cd /verif
tier=${1:-quick}; seed=${2:-0}
for c in $(python3 -c "import json; print(' '.join(c['property_id'] for c in json.load(open('MANIFEST.json'))['checks']))"); do
  out=$(VERIF_SEED=$seed ./check $c --tier $tier $EXTRA 2>&1); rc=$?
  echo "rc=$rc $(echo "$out" | grep -c '^VIOLATION') violations $(echo "$out" | grep -c '^KNOWN-FINDING') known | $(echo "$out" | tail -1 | cut -c1-160)"
  echo "$out" | grep -A2 '^VIOLATION' | cut -c1-300
done
