#!/venv/bin/python
"""Evaluate a seeded property-breaking change delivered by a sub-agent and (optionally) keep it.

usage: evalseed.py SRC_DIR SEED_ID [--checks C03,C02] [--tier quick] [--keep]

SRC_DIR holds patch.diff, demo.py, meta.json.  Steps (all in a scratch worktree of /repo HEAD, removed afterwards):
  1. the patch applies to a clean tree;
  2. the pinned test-suite still passes with it (tools/baseline.py);
  3. demo.py exits 0 without the patch and non-zero with it;
  4. the listed checks (default: the property's own) are run against the patched tree: CAUGHT / MISSED.
With --keep the three files are copied to /verif/seeded/SEED_ID/ and meta.json is extended with what was run.
"""
import argparse, json, os, shutil, subprocess, sys, tempfile, time

ap = argparse.ArgumentParser()
ap.add_argument('src')
ap.add_argument('seed_id')
ap.add_argument('--checks')
ap.add_argument('--tier', default='quick')
ap.add_argument('--keep', action='store_true')
ap.add_argument('--note', default=None, help='history note kept in meta.json (e.g. initially missed, check strengthened)')
a = ap.parse_args()

src = os.path.abspath(a.src)
meta = json.load(open(os.path.join(src, 'meta.json')))
prop = meta.get('property')
checks = (a.checks or prop).split(',')
patch = os.path.join(src, 'patch.diff')
demo = os.path.join(src, 'demo.py')

wt = tempfile.mkdtemp(prefix='seedwt_', dir='/tmp')
os.rmdir(wt)
subprocess.run(['git', '-C', '/repo', 'worktree', 'add', '-q', '--detach', wt, 'HEAD'], check=True)
report = {'repo_head': subprocess.run(['git', '-C', '/repo', 'rev-parse', '--short', 'HEAD'], capture_output=True, text=True).stdout.strip(),
          'evaluated_at': time.strftime('%Y-%m-%d %H:%M')}


def run_demo():
    env = dict(os.environ, PYTHONPATH=wt, PYTHONDONTWRITEBYTECODE='1', PYTHONHASHSEED='0')
    r = subprocess.run(['/venv/bin/python', demo], cwd=wt, env=env, capture_output=True, text=True, timeout=600)
    return r.returncode, (r.stdout + r.stderr)[-400:]


ok = True
try:
    rc0, out0 = run_demo()
    report['demo_without_patch'] = rc0
    r = subprocess.run(['git', '-C', wt, 'apply', patch], capture_output=True, text=True)
    report['patch_applies'] = r.returncode == 0
    if r.returncode != 0:
        print('PATCH DOES NOT APPLY:', r.stderr[:500])
        ok = False
    else:
        rc1, out1 = run_demo()
        report['demo_with_patch'] = rc1
        report['demo_output_with_patch'] = out1[-300:]
        t = subprocess.run(['/verif/tools/baseline.py', wt], capture_output=True, text=True)
        report['tests_pass_with_patch'] = t.returncode == 0
        report['tests'] = t.stdout.strip().splitlines()[0] if t.stdout else ''
        if t.returncode != 0:
            print(t.stdout[-800:])
        verdicts = {}
        for c in checks:
            env = dict(os.environ, VERIF_REPO=wt)
            t0 = time.time()
            r = subprocess.run(['/verif/check', c, '--tier', a.tier, '--no-evidence'], capture_output=True, text=True, env=env)
            viol = [l for l in r.stdout.splitlines() if l.startswith('VIOLATION')]
            fps = [l.strip() for l in r.stdout.splitlines() if l.startswith('  fingerprint=')]
            v = 'CAUGHT' if r.returncode == 1 and viol else ('MISSED' if r.returncode == 0 else f'ERROR rc={r.returncode}')
            verdicts[c] = {'verdict': v, 'tier': a.tier, 'fingerprints': fps[:6], 'wall_s': round(time.time() - t0, 1)}
            if v.startswith('ERROR'):
                print(r.stderr[-1500:])
        report['checks'] = verdicts
finally:
    subprocess.run(['git', '-C', '/repo', 'worktree', 'remove', '--force', wt])
    shutil.rmtree(wt, ignore_errors=True)

valid = ok and report.get('demo_without_patch') == 0 and report.get('demo_with_patch', 0) != 0 and report.get('tests_pass_with_patch')
report['valid_seed'] = bool(valid)
print(json.dumps(report, indent=1))
if a.keep and valid:
    dst = os.path.join('/verif/seeded', a.seed_id)
    os.makedirs(dst, exist_ok=True)
    shutil.copy(patch, os.path.join(dst, 'patch.diff'))
    shutil.copy(demo, os.path.join(dst, 'demo.py'))
    meta['evaluation'] = report
    if a.note:
        meta['history'] = a.note
    meta['what_was_run'] = ['git apply patch.diff in a scratch worktree of /repo HEAD', 'tools/baseline.py (241 pinned tests)', 'demo.py with and without the patch',
                            'VERIF_REPO=<worktree> ./check <id> --tier ' + a.tier]
    json.dump(meta, open(os.path.join(dst, 'meta.json'), 'w'), indent=1)
    print('kept in', dst)
elif a.keep:
    print('NOT KEPT: the seed is not valid (see report)')
