#!/venv/bin/python
"""Apply a textual mutation to a scratch worktree of /repo and run checks against it.

usage: trymut.py [--tests] [--tier quick] --checks C01,C02 FILE 'OLD' 'NEW' [FILE 'OLD' 'NEW' ...]
   or: trymut.py [--tests] --checks C01 --patch some.diff
Prints per check: CAUGHT (exit 1 with VIOLATION) / MISSED (exit 0) / ERROR.  The worktree is removed.
"""
import argparse, os, shutil, subprocess, sys, tempfile

ap = argparse.ArgumentParser()
ap.add_argument('--tests', action='store_true')
ap.add_argument('--tier', default='quick')
ap.add_argument('--checks', required=True)
ap.add_argument('--patch')
ap.add_argument('--keep', action='store_true')
ap.add_argument('edits', nargs='*')
a = ap.parse_args()
wt = tempfile.mkdtemp(prefix='mutwt_', dir='/tmp')
os.rmdir(wt)
subprocess.run(['git', '-C', '/repo', 'worktree', 'add', '-q', '--detach', wt, 'HEAD'], check=True)
rc = 0
try:
    if a.patch:
        subprocess.run(['git', '-C', wt, 'apply', os.path.abspath(a.patch)], check=True)
    for i in range(0, len(a.edits), 3):
        f, old, new = a.edits[i:i + 3]
        p = os.path.join(wt, f)
        s = open(p).read()
        if s.count(old) != 1:
            print(f'EDIT-ERROR: {old!r} occurs {s.count(old)} times in {f}')
            sys.exit(3)
        open(p, 'w').write(s.replace(old, new))
    if a.tests:
        r = subprocess.run(['/verif/tools/baseline.py', wt], capture_output=True, text=True)
        print('TESTS:', 'pass' if r.returncode == 0 else 'FAIL', r.stdout.strip().splitlines()[0] if r.stdout else '')
        for l in r.stdout.strip().splitlines()[1:6]:
            print('   ', l)
    for c in a.checks.split(','):
        env = dict(os.environ, VERIF_REPO=wt)
        r = subprocess.run(['/verif/check', c, '--tier', a.tier, '--no-evidence'], capture_output=True, text=True, env=env)
        viol = [l for l in r.stdout.splitlines() if l.startswith('VIOLATION')]
        verdict = 'CAUGHT' if r.returncode == 1 and viol else ('MISSED' if r.returncode == 0 else f'ERROR(rc={r.returncode})')
        print(f'{c}: {verdict}  ({len(viol)} fingerprints)')
        for l in r.stdout.splitlines():
            if l.startswith('  fingerprint') or l.startswith('  ') and 'fingerprint' not in l:
                print('   ', l[:220])
                if l.startswith('  ') and not l.startswith('  fingerprint'):
                    pass
        if verdict.startswith('ERROR'):
            print(r.stderr[-1500:])
finally:
    if not a.keep:
        subprocess.run(['git', '-C', '/repo', 'worktree', 'remove', '--force', wt])
        shutil.rmtree(wt, ignore_errors=True)
