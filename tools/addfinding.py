#!/venv/bin/python
"""addfinding.py PROP STATUS(fixed|open) FINGERPRINT COMMIT|- 'what' 'witness'  -- append to known_findings.json"""
import json, sys
prop, status, fp, commit, what, witness = sys.argv[1:7]
p = '/verif/known_findings.json'
d = json.load(open(p))
entry = {'property': prop, 'status': status, 'fingerprint': fp, 'what': what, 'witness': witness}
if status == 'fixed':
    entry['commit'] = commit
    d['log'].append(f'fixed: property={prop} {commit} {what}')
else:
    d['log'].append(f'open: property={prop} {what}')
d['findings'].append(entry)
json.dump(d, open(p, 'w'), indent=1)
print('recorded', entry)
