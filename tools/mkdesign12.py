#!/venv/bin/python
"""Regenerate section 12 of DESIGN.md from tools/design12.md + generated tables."""
import json, subprocess
tpl = open('/verif/tools/design12.md').read()
status = subprocess.run(['/verif/tools/statustable.py'], capture_output=True, text=True).stdout
seeds = subprocess.run(['/verif/tools/seedtable.py'], capture_output=True, text=True).stdout
kf = json.load(open('/verif/known_findings.json'))
fixed, opened = [], {}
for f in kf['findings']:
    if f['status'] == 'fixed':
        fixed.append(f"* `{f['commit']}` ({f['property']}) {f['what']} - witness: `{f['witness'] if isinstance(f['witness'], str) else json.dumps(f['witness'])}`")
    else:
        opened.setdefault((f['property'], f['what']), []).append(f['fingerprint'])
olist = [f"* ({p}) {w} - fingerprints: " + ', '.join(f'`{x}`' for x in fps) for (p, w), fps in opened.items()]
out = tpl.replace('@@STATUS_TABLE@@', status.strip()).replace('@@SEED_TABLE@@', seeds.strip()).replace('@@FIXED_LIST@@', '\n'.join(fixed)).replace('@@OPEN_LIST@@', '\n'.join(olist))
d = open('/verif/DESIGN.md').read()
marker = '\n## 12. What was built'
if marker in d:
    d = d[:d.index(marker)]
d = d.rstrip('\n') + '\n\n---------------------------------------------------------------------------\n\n' + out
open('/verif/DESIGN.md', 'w').write(d)
print('DESIGN.md section 12 regenerated:', len(fixed), 'fixed,', len(olist), 'open root causes')
