#!/venv/bin/python
"""Markdown table of the committed evidence files (DESIGN.md section 12.1)."""
import glob, json, os
man = json.load(open('/verif/MANIFEST.json'))
tech = {c['property_id']: c for c in man['checks']}
print('| id | engine | states | transitions (steps compared) | exhaustive | distinct non-trivial | quick wall on this run |')
print('|---|---|---|---|---|---|---|')
for f in sorted(glob.glob('/verif/evidence/C*.json')):
    e = json.load(open(f))
    pid = e['property_id']
    if pid not in tech:
        continue
    c = e['coverage']
    print(f"| {pid} | {tech[pid]['engine']} | {c.get('states'):,} | {c.get('transitions'):,} | {c.get('exhaustive')} | {c.get('distinct_nontrivial'):,} | {e['wall_s']} s ({e['tier']}, seed {e['seed']}) |")
