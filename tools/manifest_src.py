NOT_YET = 'check not built yet in this tree (planned in DESIGN.md, bounded-exhaustive exploration applies); not claimed until its check is silent on the unchanged tree'
NOT_APPLICABLE = {}
NOTES = ('All checks explore the real implementation in /repo (working tree) exhaustively within stated bounds against small reference '
         'models (vt/ref). VERIF_SEED only rotates non-boundary members of value alphabets; structures are enumerated completely for every seed. '
         'Genuine defects found are fixed in /repo by "fix:" commits or listed in known_findings.json.')
ENGINES = [
    {'name': 'E-bfs', 'path': 'vt/explore/bfs.py', 'serves_properties': ['C10'],
     'kind_free_text': 'explicit-state breadth-first search over operation histories on the product (real object, reference model) with canonical-state deduplication and closure detection'},
]
CHECKS = {
    'C10': {
        'engine': 'E-bfs',
        'technique': 'explicit-state BFS over cursor call histories on the product (real Cursor, reference model) to closure',
        'design_ref': 'DESIGN.md section 4, C10',
        'text': 'Every history of any length over the alphabet execute(q_n, n in {0,1,2,3,5}) / fetchone / fetchmany() / fetchmany(k) / fetchall / '
                'list(iter) / next(iter) / arraysize:=k is covered, because the canonical product state space (real cursor attributes by value x model) '
                'closes; after every transition rowcount, rownumber and the complete description protocol (len, every index, 224 slices, iteration, equality, '
                'name, type code) are compared with the reference; a two-cursor product (second cursor created before/after) checks isolation to closure.',
        'note': 'Trusted: the reference cursor model (list + position set + arraysize; cross-checked against sqlite3 fetch results), CPython. '
                'Iteration consuming or not is left open (weakest reading). Result sizes above 5 and fetchmany(k<=0) are outside the bound.',
    },
}
