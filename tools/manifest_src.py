NOT_YET = 'check not built yet in this tree (planned in DESIGN.md, bounded-exhaustive exploration applies); not claimed until its check is silent on the unchanged tree'
NOT_APPLICABLE = {}
NOTES = ('All checks explore the real implementation in /repo (working tree) exhaustively within stated bounds against small reference '
         'models (vt/ref). VERIF_SEED only rotates non-boundary members of value alphabets; structures are enumerated completely for every seed. '
         'Genuine defects found are fixed in /repo by "fix:" commits or listed in known_findings.json.')
ENGINES = [
    {'name': 'E-enum', 'path': 'vt/astgen.py, vt/par.py, vt/ref/', 'serves_properties': ['C01', 'C02', 'C03', 'C08', 'C11', 'C15', 'C18'],
     'kind_free_text': 'bounded-exhaustive program x data enumerator: all well-typed statements of bounded shape over the live registries x all tables/ledgers of bounded size over a value alphabet, executed on the real implementation and compared with a reference interpreter'},
    {'name': 'E-bfs', 'path': 'vt/explore/bfs.py', 'serves_properties': ['C10', 'C19'],
     'kind_free_text': 'explicit-state breadth-first search over operation histories on the product (real object, reference model) with canonical-state deduplication and closure detection'},
]
CHECKS = {
    'C08': {
        'engine': 'E-enum',
        'technique': 'bounded-exhaustive enumeration of inner x outer query menus (nesting depth 2-3) x all small data variants, differential against the materialised form and a reference interpreter',
        'design_ref': 'DESIGN.md section 4, C08',
        'text': '28 inner queries (filtered, aggregated, hidden-key ordered, DISTINCT, LIMIT, aliased, other/empty tables, containing IN-subqueries) x an outer menu generated from the inner output '
                'columns (*, projections, expressions, WHERE, aggregation, ORDER BY, DISTINCT, LIMIT; 10-25 per inner), at depth 2 and, through wrappers, depth 3, x data variants of the base table '
                '(a fixed table + ALL row sequences of length <= 1 (quick) / <= 2 (thorough) over 9 letters): rows AND description must equal the outer query run over a table materialising the real '
                'inner result, and the rows must equal the reference interpreter; 140 IN / NOT IN (subquery) statements (targets first/middle/last, WHERE, two subqueries, nested, empty, NULLs) '
                'against reference membership; text statements with expression-named and duplicate-named inner outputs.',
        'note': 'Trusted: vt/ref/select.py. One open known finding (duplicate inner output names collapse in SELECT * FROM (q)).',
    },
    'C15': {
        'engine': 'E-enum',
        'technique': 'bounded-exhaustive enumeration of all small tables x all pivot layouts against a reference reshaping, with un-pivot round trip',
        'design_ref': 'DESIGN.md section 4, C15',
        'text': 'ALL tables of <= 3 rows over a 12-letter and <= 2 rows over a 27-letter (r, k, v) alphabet (thorough: <= 4 / <= 3) x ALL 240 layouts: every permutation of [r, k, agg] and '
                '[r, k, agg1, agg2] target lists for four aggregate sets, PIVOT BY by names and by positions, in both pivot orders. Names, datatypes and every cell are compared with the reshaping '
                'of the reference un-pivoted result, the real result is un-pivoted back and compared with it, and eight kinds of invalid PIVOT BY references must be rejected at compile time.',
        'note': 'Trusted: vt/ref/select.py for the un-pivoted result. NULL pivot keys are excluded (ordering unspecified).',
    },
    'C18': {
        'engine': 'E-enum',
        'technique': 'exhaustive enumeration of argument domains (every date 1900-2100, bounded strings/decimals/accounts/cast inputs) evaluated through real queries against stdlib-calendar reference laws',
        'design_ref': 'DESIGN.md section 4, C18',
        'text': 'All 73,414 dates 1900-2100 x 7 truncation units and 13 part fields and day-stride date_bin; month/year-stride date_bin within +-5 (quick) / +-30 years of 3 origins; date_add/date_diff/'
                'date+-int with n in -400..400 on month/leap boundaries; interval arithmetic with day clipping; all account names of 1..5 components over 5 roots; all strings of length <= 3 over 4 '
                'letters x all index/width arguments in -4..4; decimals m*10^e; casts x inputs of every type (NaN, Infinity, invalid dates); every cell compared with vt/ref/dates.py and slice/regex/decimal definitions.',
        'note': 'Trusted: stdlib calendar/datetime/decimal/re; vt/ref/dates.py (self-tested against other stdlib code on every run). Zero/negative strides, out-of-range indexes, maxwidth < 5, today() are outside.',
    },
    'C19': {
        'engine': 'E-bfs',
        'technique': 'explicit-state BFS over the shell settings store on the product (real BQLShell, reference settings model) to closure, plus exhaustive CLI option product',
        'design_ref': 'DESIGN.md section 4, C19',
        'text': 'The product (real batch-mode BQLShell settings by value, model) closes at 768 states (2^7 booleans x 2 formats x 3 nullvalues); in EVERY state 101 events (all assignment spellings, invalid '
                'values, unknown names incl. attributes of the settings object, wrong arity, legacy commands, unknown commands, .tables/.describe/.run) are executed on the real shell and compared with the '
                'model (output, state unchanged on error, successors inside the closed set); statements / .run / .explain are compared with the renderers called directly in the 55 states near the default '
                '(quick) or all 768 (thorough); the CLI entry point is run for all 128 combinations of -f x -m x -o x -q x ledger {clean, with errors} x spellings.',
        'note': 'Trusted: renderers, numberify and Connection.execute are the yardstick (the property compares the shell with them). Interactive mode, pager, readline are outside. Default CLOSE date is only claimed for SELECT with a FROM clause.',
    },
    'C01': {
        'engine': 'E-enum',
        'technique': 'bounded-exhaustive enumeration of typed expression trees x full operand-value product tables against a reference three-valued evaluator',
        'design_ref': 'DESIGN.md section 4, C01',
        'text': 'Every overload of every operator in the live registry, BETWEEN, IN/NOT IN, AND/OR (2-3 args), NOT, IS [NOT] NULL, COALESCE per type and 45 total scalar '
                'function signatures, at depth 1 and at depth 2 with every depth-1 expression as child of every slot of its type (thorough: all slots at once and depth 3 over '
                'representatives of each NULL-behaviour class), each evaluated as target and as WHERE on the table holding the FULL cartesian product of the alphabets of the columns '
                'it reads (every NULL position, zero divisors, ties), plus empty / one-row / reversed tables and FROM conditions on the postings table; every cell compared by (type, value).',
        'note': 'Trusted: vt/ref/expr.py (written from the property text), CPython decimal/datetime/re, dateutil for interval values. Rows where the reference itself is undefined because of '
                'a data error (date out of range, Decimal overflow) are dropped from the table. Depth > 3 and values outside the alphabets are not covered.',
    },
    'C02': {
        'engine': 'E-enum',
        'technique': 'bounded-exhaustive enumeration of all small tables x grouping/aggregate statement shapes against a reference SELECT interpreter',
        'design_ref': 'DESIGN.md section 4, C02',
        'text': 'ALL row sequences of length <= 3 (quick) / <= 4 (thorough) over a 9-letter (k, v) row alphabet with NULLs, for value types int, Decimal, str, date, bool, and over an 18-letter '
                '(k, m, v) alphabet for two-key statements, x 14 one-key and 9 two-key grouping forms (by column, alias, index, hidden, implicit, none, key expressions, repeated keys, key '
                'order) x aggregate lists (all 18 at once and each alone, arithmetic over aggregates) x WHERE x HAVING menus; group-wise count/sum vs ungrouped totals differential; and every '
                'ordered pair of hashable columns of every Beancount-backed table kind (hidden keys, alias + hidden key, uncovered target rejected).',
        'note': 'Trusted: vt/ref/select.py + vt/ref/expr.py. sum(bool) compared by numeric value. The table-kind sweep partitions the rows returned by the non-aggregate SELECT c1, c2.',
    },
    'C03': {
        'engine': 'E-enum',
        'technique': 'bounded-exhaustive enumeration of all small tables x all ORDER BY key lists/direction vectors/forms x DISTINCT x LIMIT against a comparator-sort reference',
        'design_ref': 'DESIGN.md section 4, C03',
        'text': 'ALL tables of <= 3 (quick) / <= 4 (thorough) rows over a 9-letter alphabet with NULLs and ties (row id makes stability observable) x ALL lists of 1..3 distinct keys out of 4 '
                'candidates with every ASC/DESC vector (thorough adds all 4-key lists) x key forms (position, alias, repeated expression, hidden expression, mixed) x DISTINCT x LIMIT '
                '{none,0,1,2,>size}; aggregate queries ordered by group keys / aggregates / hidden aggregates; every ordered pair of orderable columns of every Beancount table kind with a hidden '
                'ORDER BY key; IN-subquery targets combined with a different IN-subquery ordering key.',
        'note': 'Trusted: vt/ref/select.py (functools.cmp_to_key comparator, sorted() stability). Unorderable keys and unhashable rows are outside the property.',
    },
    'C11': {
        'engine': 'E-enum',
        'technique': 'bounded-exhaustive enumeration of all ledgers of <= n directives from a 27-snippet alphabet x every table x every column against a direct traversal of the loaded entries',
        'design_ref': 'DESIGN.md section 4, C11',
        'text': 'Every ledger with <= 3 (quick: 3,304 ledgers) / <= 4 (thorough: 20,854) body directives over an alphabet covering every directive type, costs, prices, tags, links, metadata of '
                'all nine value types on entries and postings, pads (also in the legacy meta-less shape) and plugin-generated meta-less postings, x 10 tables x every column alone, all together and '
                '`*`, x the metadata / open / close functions for present and absent keys, x structured attribute paths; every cell compared with a reference traversal (vt/ref/ledger.py).',
        'note': 'Trusted: beancount loader and data model, vt/ref/ledger.py. Weakest readings: any_meta with explicit NULL, cost_label without cost (NULL or empty string), posting vs transaction '
                'line numbers, accounts/commodities rows matched by key.',
    },
    'C10': {
        'engine': 'E-bfs',
        'technique': 'explicit-state BFS over cursor call histories on the product (real Cursor, reference model) to closure',
        'design_ref': 'DESIGN.md section 4, C10',
        'text': 'Every history of any length over the alphabet execute(q_n, n in {0,1,2,3,5}) / fetchone / fetchmany() / fetchmany(k) / fetchall / '
                'list(iter) / next(iter) / arraysize:=k is covered, because the canonical product state space (real cursor attributes by value x model) '
                'closes; after every transition rowcount, rownumber and the complete description protocol (len, every index, 224 slices, iteration, equality, '
                'name, type code) are compared with the reference; a two-cursor product (second cursor created before/after) checks isolation to closure.',
        'note': 'Trusted: the reference cursor model (list + position set + arraysize; cross-checked against sqlite3 fetch results), CPython. '
                'Iteration consuming or not is left open (weakest reading). Result sizes above 5 and fetchmany(k<=0) are outside the bound.',
    },
}
