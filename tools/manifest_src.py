NOT_YET = 'check not built yet in this tree (planned in DESIGN.md, bounded-exhaustive exploration applies); not claimed until its check is silent on the unchanged tree'
NOT_APPLICABLE = {}
NOTES = ('All checks explore the real implementation in /repo (working tree) exhaustively within stated bounds against small reference '
         'models (vt/ref). VERIF_SEED only rotates non-boundary members of value alphabets; structures are enumerated completely for every seed. '
         'Genuine defects found are fixed in /repo by "fix:" commits or listed in known_findings.json.')
ENGINES = [
    {'name': 'E-sched', 'path': 'vt/explore/sched.py', 'serves_properties': ['C20'],
     'kind_free_text': 'stateless schedule explorer: real threads under a baton scheduler, DFS over choice prefixes with a preemption bound, every execution run to completion, deadlock/horizon detection, double replay of failing schedules'},
    {'name': 'E-enum', 'path': 'vt/astgen.py, vt/par.py, vt/ref/', 'serves_properties': ['C01', 'C02', 'C03', 'C04', 'C05', 'C06', 'C07', 'C08', 'C09', 'C11', 'C12', 'C13', 'C14', 'C15', 'C16', 'C17', 'C18'],
     'kind_free_text': 'bounded-exhaustive program x data enumerator: all well-typed statements of bounded shape over the live registries x all tables/ledgers of bounded size over a value alphabet, executed on the real implementation and compared with a reference interpreter'},
    {'name': 'E-bfs', 'path': 'vt/explore/bfs.py', 'serves_properties': ['C10', 'C19'],
     'kind_free_text': 'explicit-state breadth-first search over operation histories on the product (real object, reference model) with canonical-state deduplication and closure detection'},
]
CHECKS = {
    'C06': {
        'engine': 'E-enum',
        'technique': 'bounded-exhaustive enumeration of ASTs (complete parent x operand-slot x child matrix, all clause subsets and FROM forms, all literal forms) printed by an independent precedence-ladder printer and re-parsed; differential of the shipped parser against a parser regenerated from the grammar on accepted and rejected texts',
        'design_ref': 'DESIGN.md section 4, C06',
        'text': 'The complete depth-2 matrix (30 parent kinds x 54 operand slots x 42 children = 2,268 cells; thorough: depth 3 over 54x54 slot pairs), n-ary AND/OR shapes, every literal spelling (incl. strings holding TAB / CR / form feed / either quote, decimals beyond 28 digits, tight integer subtraction chains and runs of minus signs) in 4-6 '
                'contexts and all lists of 1..3 literals, 705 identifier cases incl. every reserved word followed by a digit or underscore, all 192 clause subsets, 46 FROM forms, BALANCES/JOURNAL/PRINT forms, '
                'each printed with minimal and full parentheses in rotating spellings (case, whitespace, comments): parse(print(ast)) == ast. The parser is regenerated from bql.ebnf with '
                'tatsu.to_python_sourcecode on every run and both parsers must give the same AST or the same rejection (position included) on the printed texts and on 6.6k rejected texts (all token '
                'sequences of length <= 2 over 50 tokens, single-token edits of 40 statements).',
        'note': 'Trusted: TatSu code generator, vt/unparse.py (ladder written from the property text). Only ASTs expressible in BQL. In quick, when the regenerated source is byte-identical to parser.py the second parser runs on 74% of the texts (all rejected/literal/identifier texts); thorough parses everything twice.',
    },
    'C07': {
        'engine': 'E-enum',
        'technique': 'bounded-exhaustive enumeration of text statements (all alias/column/expression target-kind sequences of length 1..4 x hidden-target configurations x spellings x table kinds) against the naming and shape rules of the property',
        'design_ref': 'DESIGN.md section 4, C07',
        'text': 'All 120 target-kind sequences of length 1..4 over {alias, bare column, expression} x hidden GROUP BY / HAVING / ORDER BY configurations (0-3 hidden targets, before/after in clause order) with '
                'expressions printed in 8 parenthesisation x spelling modes; duplicate names; `*` and named targets on 13 table kinds (postings, entries, typed directive tables, accounts, commodities, null '
                'table, harness tables, sub-queries): description length = number of SELECT targets, every row has that length, name = alias / column name / a slice of the statement text that parses back '
                'to the target expression, hidden expressions appear nowhere, `*` = the published wildcard columns in declaration order. Round j: respelled sequences (the same AST in another spelling on the same connection must be named from its own text); value alignment: the k-th value of each row is the value of the k-th described column, for 1-4 columns under every name partition, directly and through FROM sub-queries.',
        'note': 'Trusted: vt/unparse.py. BALANCES/JOURNAL/PIVOT names not generated; duplicate names never combined with positional references.',
    },
    'C05': {
        'engine': 'E-enum',
        'technique': 'exhaustive enumeration of the operator/function x operand-type matrix, of the product of clause-rule dimensions and of short token sequences / single-token edits, against an independently written reference type checker and an exception-class invariant',
        'design_ref': 'DESIGN.md section 4, C05',
        'text': '(a) 56k compile-only cases: every operator node x every ordered operand-type tuple over 14 types (binary 14x14, BETWEEN 14^3), every function name in the live registry x every argument tuple of '
                'length 0..2 (3 over 8 types), attributes and subscripts on every type, and the operator / function cases of <= 3 operands again over CONSTANT operands (compile-time folding path), IN over a wildcard sub-query: accept/reject must equal vt/ref/typing.py (overload resolution re-implemented from the declared signatures; a committed '
                'snapshot of 237 signatures is the lower bound). (b) 508k statements: 21 target kinds x 5 WHERE x 16 GROUP BY x 4 HAVING x 12 ORDER BY core product, every other dimension (15 FROM forms incl. '
                'OPEN/CLOSE orders, 9 PIVOT BY, COALESCE, IN arity, parameters, duplicate names, DISTINCT, LIMIT) crossed with a reduced core: accepted iff all rules of the property hold; accepted '
                'statements are executed. (c) 15k texts: all token sequences of length <= 2 over 52 tokens, all single-token edits of a 42-statement corpus, literal edge cases. Every rejection must be '
                'ParseError / CompilationError / ProgrammingError and every error location a valid span rendered by the shell (thorough: 8.2M cases). Round j: integer literals at the text-length boundary of the conversion (4300 / 4301 digits, zero-padded).',
        'note': 'Trusted: vt/ref/typing.py. Operand tuples where exact-type and MRO overload resolution differ (bool, amount-like, NULL literal) are checked for the exception class only. Parameter container kind and invalid regular expressions are outside.',
    },
    'C14': {
        'engine': 'E-enum',
        'technique': 'bounded-exhaustive enumeration of ledgers x BALANCES/JOURNAL/PRINT statement forms against the SELECT expansions written from the property, direct beancount folds, and a print/reload round trip',
        'design_ref': 'DESIGN.md section 4, C14',
        'text': 'All 79 ledgers with <= 2 posting-producing snippets (+ 4 extra ledgers: feature-rich, long text, zero-cost lots) x 348 BALANCES and 783 JOURNAL statements (summary function none/units/cost x 29 FROM forms incl. 15 '
                'OPEN/CLOSE/CLEAR subsets x WHERE conditions / 9 account patterns incl. quotes, case variation, no match): rows and datatypes equal the SELECT expansion, the account order equals '
                'beancount account-type order, sums and running balances equal direct Inventory folds; all 379 ledgers with <= 2 of 27 snippets x 57 PRINT FROM forms over every directive type: the emitted '
                'text equals beancount\'s printer on the entries selected by an independent predicate, and reloading it yields equal directives (thorough: n <= 4 / n <= 3, 3.3M statements). Round j: BALANCES / JOURNAL / PRINT with positional and named query parameters in FROM and WHERE, equal to the literal statement and to the parameterised SELECT expansion.',
        'note': 'Trusted: beancount printer/loader/account_types. Column names of BALANCES/JOURNAL not compared; PRINT round trip only for ledgers without pad/plugin and filters keeping lot reductions with their augmentations.',
    },
    'C20': {
        'engine': 'E-sched',
        'technique': 'stateless model checking of real threads under a controlled baton scheduler: all interleavings of row/sub-expression yield points for pairs, preemption-bounded for triples, line granularity in thorough',
        'design_ref': 'DESIGN.md section 4, C20',
        'text': '17 statements (balance twice per row, multi-argument function calls with a scheduling point between their arguments, statements given as text, scheduling points inside parsing and compilation, aggregates, IN- and FROM-subqueries, shared parsed statements with named/positional parameters, #entries, OPEN/CLOSE, harness table) x 3 '
                'configurations (one shared connection, separate connections over the same entries, different ledgers): ALL interleavings of the yield points (a harness BQL function between '
                'sub-expressions, between the arguments of one call and in WHERE, a harness table iterator, parser and compiler actions) for all 55 pairs of the 10 core statements, the text-statement pairs and 28 FROM-qualified / BALANCES / JOURNAL / same-overload pairs; <= 2 preemptions for 28 (quick) / all 220 (thorough) triples; thorough adds sys.settrace line granularity '
                '(1 preemption for all pairs, 2 for the pairs touching shared state). Oracle: every thread obtains exactly its serial rows and description; no deadlock; failing schedules replay identically. Round j: the harness runs as an application with its own SIGINT handler; a statement failing alone in a worker thread but not in the main thread is a violation.',
        'note': 'Trusted: CPython threading primitives used by the baton. Preemption inside one source line and CPython-internal races are not modelled; a racy canary table proves the explorer is not vacuous on every run.',
    },
    'C04': {
        'engine': 'E-enum',
        'technique': 'exhaustive enumeration of every overload in the live operator/function registries x every argument type instantiation, composed to depth 2, with a datatype invariant on every result cell',
        'design_ref': 'DESIGN.md section 4, C04',
        'text': 'Every overload of every operator, function and aggregate in the live registries x every concrete instantiation of `Any` slots (13 column types incl. Amount, Position, Inventory, interval, '
                'set, list, dict, object) and bool for int slots, on tables holding the full product of the column alphabets; depth 2: every column slot of every such program replaced by every depth-1 '
                'producer whose ANNOUNCED datatype is the slot type (35k programs); every attribute path of every structured type, dict subscripts, implicit casts of object operands, FROM/IN subquery '
                'columns, COALESCE with a NULL literal at every position, the row-context functions over nullable arguments; `*` and all columns of every table over the ledger family (n <= 1 quick, <= 2 thorough), for the postings table also under 5 OPEN / CLOSE / CLEAR qualifiers (synthesised rows). Invariants: every cell is NULL or an instance of the announced datatype, no '
                'non-data exception escapes execute, render_text / render_csv / numberify accept the result. Crash fingerprints carry the argument types of the failing function so that an open finding on one overload cannot hide a failure on another.',
        'note': 'Trusted: beancount data model. Data errors (ValueError, ArithmeticError, re.error, KeyError, IndexError) are not type errors: failing rows are isolated and dropped. Open known findings: '
                'min/max over unorderable values, truth value of Inventory. Membership of amount-like values in collections of foreign element types is outside (beancount equality raises).',
    },
    'C12': {
        'engine': 'E-enum',
        'technique': 'bounded-exhaustive enumeration of all transaction sequences of <= n templates x selections x functions against beancount Inventory folds computed by direct traversal',
        'design_ref': 'DESIGN.md section 4, C12',
        'text': 'ALL ledgers of <= 3 (quick: 713 bookable) / <= 4 (thorough: 5,864) transactions over 9 templates (two currencies, lots at cost with dates, a lot at zero cost, partial sales, conversions, expenses) with '
                'terminating exchange rates x WHERE/FROM selections x groupings x {units, cost, value, value@date, convert USD/EUR with/without date, convert with lower-/mixed-case currency}: sum() equals the beancount Inventory fold, f(sum(x)) '
                '== sum(f(x)), partition sums add up to the total, and the running balance equals the prefix sum however many times (0-3) and wherever the targets reference it, with an intervening '
                'nested scan consulting balance, and with balance in WHERE. Round j: every ledger also with a price map whose latest rate of every pair is exactly zero.',
        'note': 'Trusted: beancount Inventory/convert/prices. Balance-in-WHERE cases only where the balance term is evaluated on every scanned row.',
    },
    'C13': {
        'engine': 'E-enum',
        'technique': 'bounded-exhaustive enumeration of ledgers x all boundary dates x all OPEN/CLOSE/CLEAR clause subsets x statement kinds against period-report invariants computed from the full ledger',
        'design_ref': 'DESIGN.md section 4, C13',
        'text': '20 (quick) / 300 (thorough) ledgers of the C12 family, most feature-rich first, x every pair of dates d <= e out of {before the span, each entry date, each entry date + 1, after the span} '
                'x all 12 clause shapes (CLOSE with and without date) x FROM filters x SELECT / BALANCES / JOURNAL / PRINT, plus d > e: originals inside [d, e) returned unchanged and in order, '
                'balance-sheet totals equal balances as of e in the full ledger, income statement carries only activity since d and clears to zero, every returned transaction balances (also on the returned weight column, which equals get_weight of beancount for every returned row), filter '
                'independence of the clause order, d > e rejected at compile time. Round j: the clauses of a FROM apply to that FROM only: IN sub-queries with their own FROM (filter, OPEN, CLOSE, CLEAR) inside SELECT and BALANCES under every clause configuration, against the sub-query run on its own.',
        'note': 'Trusted: beancount data model and interpolate; the oracle never calls beancount.ops.summarize. beanquery.parser.parse is memoised by text inside the check (BALANCES/JOURNAL re-parse a template on every compile).',
    },
    'C09': {
        'engine': 'E-enum',
        'technique': 'exhaustive enumeration of parameter assignments, constant assignments and ALL execution histories up to a depth on one connection, each compared with literal / per-row / fresh-connection executions',
        'design_ref': 'DESIGN.md section 4, C09',
        'text': '(1) 22 statement templates (placeholders in targets, WHERE, ORDER BY expressions, function arguments, FROM- and IN-subqueries, non-commutative contexts, repeated names, list values) x ALL '
                'assignments from per-slot literal alphabets: the parsed named and positional statements are re-executed for every assignment and must equal the statement with the values written as '
                'literals (textual order for positional) and the reference interpreter. (2) Every depth<=2 expression of the C01 enumerator x ALL non-NULL constant assignments: folded value and announced '
                'datatype equal per-row evaluation from a one-row table and the reference. (3) ALL 24^d histories (d <= 3 quick, <= 4 thorough) of executions on one connection (shared parsed statements with '
                'other parameters, executemany, aggregate, PIVOT, IN/FROM subqueries, balance twice, OPEN/CLOSE, failing statement, second cursor, regex functions sharing a pattern, PRINT, #entries, a shell session running a named query, the same text through the API, sum/first/last over a user table of persistent Inventory objects, three FROM-subquery statements of different shapes): every step equals the fresh-connection outcome and the source '
                'data is unchanged. Round j: every result of a history is held and read again after all later executions; the regex events share pattern texts between case-sensitive functions and case-insensitive matches on data where case matters.',
        'note': 'Trusted: vt/ref/select.py, vt/ref/expr.py. Histories are not merged by state (no abstraction argument needed); pristine statements per history are deep copies of freshly parsed ASTs.',
    },
    'C16': {
        'engine': 'E-enum',
        'technique': 'bounded-exhaustive enumeration of result tables (all columns of <= 3 cells per datatype, all datatype pairs) x all 128 renderer option combinations against layout invariants and a read-back parser',
        'design_ref': 'DESIGN.md section 4, C16',
        'text': 'Every column of <= 3 cells for each of 12 datatypes over alphabets with NULL, negatives, differing precision, several currencies, empty and multi-lot inventories x all 128 combinations of '
                'boxed/unicode/spaced/expand/narrow/nullvalue/list separator; all 144 ordered datatype pairs (quick: a strength-3 orthogonal array of 16 option runs; thorough: all 128); the empty result. '
                'Invariants on the emitted text: equal line widths, cells inside the column spans read off the rule line, header centred / cut only in narrow mode, NULL placeholder, extra lines only with '
                'expand and never fewer than one, decimal-point alignment, read-back of every cell to its value; CSV: header + one record per expanded row, field == text cell, output independent of the text-only options. Round j: every table also through the registered text format entry point (beanquery.render.text.render) with the options handed over as the shell does.',
        'note': 'Trusted: vt/ref/render.py (cell reader). Weakest readings listed in the evidence assumptions (centring within 1 blank, scientific notation exempt from alignment, unknown currencies outside).',
    },
    'C17': {
        'engine': 'E-enum',
        'technique': 'bounded-exhaustive enumeration of result tables mixing plain and amount-like columns against an oracle derived from the property text',
        'design_ref': 'DESIGN.md section 4, C17',
        'text': 'Every Amount/Position/Inventory column of <= 3 (quick) / <= 4 (thorough) cells over {NULL, 1-2 of 3 currencies, zero amounts, multi-lot and empty inventories} in three layouts with plain columns, '
                'and all two- (thorough: three-) column combinations of <= 2 rows, without a formatter, with the default one and with Precision.MAXIMUM over a display context of mixed digit counts: other columns/rows/order untouched, one `name (CUR)` decimal column per currency in '
                'non-increasing frequency, each cell = sum of units over lots (quantised with a formatter) or NULL/0 when absent, no non-zero currency dropped; run_query(numberify=True) equals numberify_results of the API result on the sample ledger. Round j: one currency with and without cost in one inventory, numbers >= 1000, a formatter from a ledger with render_commas.',
        'note': 'Trusted: beancount Inventory/Amount. Tie order among equally frequent currencies is free; frequency read as rows or lots.',
    },
    'C08': {
        'engine': 'E-enum',
        'technique': 'bounded-exhaustive enumeration of inner x outer query menus (nesting depth 2-3) x all small data variants, differential against the materialised form and a reference interpreter',
        'design_ref': 'DESIGN.md section 4, C08',
        'text': '28 inner queries (filtered, aggregated, hidden-key ordered, DISTINCT, LIMIT, aliased, other/empty tables, containing IN-subqueries) x an outer menu generated from the inner output '
                'columns (*, projections, expressions, WHERE, aggregation, ORDER BY, DISTINCT, LIMIT; 10-25 per inner), at depth 2 and, through wrappers, depth 3, x data variants of the base table '
                '(a fixed table + ALL row sequences of length <= 1 (quick) / <= 2 (thorough) over 9 letters): rows AND description must equal the outer query run over a table materialising the real '
                'inner result, and the rows must equal the reference interpreter; 140 IN / NOT IN (subquery) statements (targets first/middle/last, WHERE, two subqueries, nested, empty, NULLs, left operands that themselves contain IN / NOT IN over a list or a sub-query) '
                'against reference membership; text statements with expression-named and duplicate-named inner outputs.',
        'note': 'Trusted: vt/ref/select.py. One open known finding (duplicate inner output names collapse in SELECT * FROM (q)).',
    },
    'C15': {
        'engine': 'E-enum',
        'technique': 'bounded-exhaustive enumeration of all small tables x all pivot layouts against a reference reshaping, with un-pivot round trip',
        'design_ref': 'DESIGN.md section 4, C15',
        'text': 'ALL tables of <= 3 rows over a 12-letter and <= 2 rows over a 45-letter (r, k, v) alphabet (first-column values 2, 10, 3, 0, -1: numeric order differs from text order, zero is falsy) (thorough: <= 4 / <= 3) x ALL 240 layouts: every permutation of [r, k, agg] and '
                '[r, k, agg1, agg2] target lists for four aggregate sets, PIVOT BY by names and by positions, in both pivot orders. Names, datatypes and every cell are compared with the reshaping '
                'of the reference un-pivoted result, the real result is un-pivoted back and compared with it, the same statement object is executed a second time on tables of <= 2 rows, and eight kinds of invalid PIVOT BY references must be rejected at compile time.',
        'note': 'Trusted: vt/ref/select.py for the un-pivoted result. NULL pivot keys are excluded (ordering unspecified).',
    },
    'C18': {
        'engine': 'E-enum',
        'technique': 'exhaustive enumeration of argument domains (every date 1900-2100, bounded strings/decimals/accounts/cast inputs) evaluated through real queries against stdlib-calendar reference laws',
        'design_ref': 'DESIGN.md section 4, C18',
        'text': 'All 73,414 dates 1900-2100 x 7 truncation units and 13 part fields and day-stride date_bin; month/year-stride date_bin within +-5 (quick) / +-30 years of 3 origins; date_add/date_diff/'
                'date+-int with n in -400..400 on month/leap boundaries; interval arithmetic with day clipping; all account names of 1..5 components over 5 roots (columns, literals, nested calls; a == parent(a) + ":" + leaf(a), parent of a one-component name NULL or empty); all strings of length <= 3 over 4 '
                'letters x all index/width arguments in -4..4; decimals m*10^e; casts x inputs of every type (NaN, Infinity, invalid dates); every cell compared with vt/ref/dates.py and slice/regex/decimal definitions.',
        'note': 'Trusted: stdlib calendar/datetime/decimal/re; vt/ref/dates.py (self-tested against other stdlib code on every run). Zero/negative strides, out-of-range indexes, maxwidth < 5, today() are outside.',
    },
    'C19': {
        'engine': 'E-bfs',
        'technique': 'explicit-state BFS over the shell settings store on the product (real BQLShell, reference settings model) to closure, plus exhaustive CLI option product',
        'design_ref': 'DESIGN.md section 4, C19',
        'text': 'The product (real batch-mode BQLShell settings by value, model) closes at 768 states (2^7 booleans x 2 formats x 3 nullvalues); in EVERY state 101 events (all assignment spellings, invalid '
                'values, unknown names incl. attributes of the settings object, wrong arity, legacy commands, unknown commands, .tables/.describe/.run) are executed; all sessions of <= 3 steps over two named queries of identical text and different dates and the same text typed on the real shell and compared with the '
                'model (output, state unchanged on error, successors inside the closed set); statements / .run / .explain are compared with the renderers called directly in the 55 states near the default '
                '(quick) or all 768 (thorough); the CLI entry point is run for all 128 combinations of -f x -m x -o x -q x ledger {clean, with errors} x spellings. Round j: numbers off the display precision (numberify quantisation visible); all sessions of 1..2 (thorough 1..3) commands writing to an output file other than stdout.',
        'note': 'Trusted: renderers, numberify and Connection.execute are the yardstick (the property compares the shell with them). Interactive mode, pager, readline are outside. Default CLOSE date is only claimed for SELECT with a FROM clause.',
    },
    'C01': {
        'engine': 'E-enum',
        'technique': 'bounded-exhaustive enumeration of typed expression trees x full operand-value product tables against a reference three-valued evaluator',
        'design_ref': 'DESIGN.md section 4, C01',
        'text': 'Every overload of every operator in the live registry, BETWEEN, IN/NOT IN, AND/OR (2-3 args; boolean operands and int / decimal / str / date operands counted by truth value), NOT, IS [NOT] NULL, COALESCE per type and 45 total scalar '
                'function signatures, at depth 1 and at depth 2 with every depth-1 expression as child of every slot of its type (thorough: all slots at once and depth 3 over '
                'representatives of each NULL-behaviour class), each evaluated as target and as WHERE on the table holding the FULL cartesian product of the alphabets of the columns '
                'it reads (every NULL position, zero divisors, ties), plus empty / one-row / reversed tables and FROM conditions on the postings table; every cell compared by (type, value).',
        'note': 'Trusted: vt/ref/expr.py (written from the property text), CPython decimal/datetime/re, dateutil for interval values. Rows where the reference itself is undefined because of '
                'a data error (date out of range, Decimal overflow) are dropped from the table. Depth > 3 and values outside the alphabets are not covered.',
    },
    'C02': {
        'engine': 'E-enum',
        'technique': 'bounded-exhaustive enumeration of all small tables x grouping/aggregate statement shapes against a reference SELECT interpreter',
        'design_ref': 'DESIGN.md section 4, C02',
        'text': 'ALL row sequences of length <= 3 (quick) / <= 4 (thorough) over a 9-letter (k, v) row alphabet with NULLs, for value types int, Decimal, str, date, bool, and over an 18-letter '
                '(k, m, v) alphabet for two-key statements, x 14 one-key and 9 two-key grouping forms (by column, alias, index, hidden, implicit, none, key expressions, repeated keys, key '
                'order) x aggregate lists (all 18 at once and each alone, arithmetic over aggregates) x WHERE x HAVING menus, HAVING x LIMIT without ORDER BY, every grouping shape without aggregates, aggregates over tables whose row objects are falsy; group-wise count/sum vs ungrouped totals differential; and every '
                'ordered pair of hashable columns of every Beancount-backed table kind (hidden keys, alias + hidden key, uncovered target rejected). Round j: a key expression whose alias coincides with a table column (GROUP BY k = the target named k).',
        'note': 'Trusted: vt/ref/select.py + vt/ref/expr.py. sum(bool) compared by numeric value. The table-kind sweep partitions the rows returned by the non-aggregate SELECT c1, c2.',
    },
    'C03': {
        'engine': 'E-enum',
        'technique': 'bounded-exhaustive enumeration of all small tables x all ORDER BY key lists/direction vectors/forms x DISTINCT x LIMIT against a comparator-sort reference',
        'design_ref': 'DESIGN.md section 4, C03',
        'text': 'ALL tables of <= 3 (quick) / <= 4 (thorough) rows over a 9-letter alphabet with NULLs and ties (row id makes stability observable) x ALL lists of 1..3 distinct keys out of 4 '
                'candidates with every ASC/DESC vector (thorough adds all 4-key lists) x key forms (position, alias, repeated expression, hidden expression, mixed) x DISTINCT x LIMIT '
                '{none,0,1,2,>size}; aggregate queries ordered by group keys / aggregates / hidden aggregates, DISTINCT over grouped queries whose key is not selected, DISTINCT over rows with colliding hashes, ORDER BY an alias shadowing a column, positional keys over duplicated names; every ordered pair of orderable columns of every Beancount table kind with a hidden '
                'ORDER BY key; IN-subquery targets combined with a different IN-subquery ordering key; every fourth table of the statement sweep also as a user table whose columns share one slot-less column class (the style of beanquery/tests/tables.py).',
        'note': 'Trusted: vt/ref/select.py (functools.cmp_to_key comparator, sorted() stability). Unorderable keys and unhashable rows are outside the property.',
    },
    'C11': {
        'engine': 'E-enum',
        'technique': 'bounded-exhaustive enumeration of all ledgers of <= n directives from a 27-snippet alphabet x every table x every column against a direct traversal of the loaded entries',
        'design_ref': 'DESIGN.md section 4, C11',
        'text': 'Every ledger with <= 3 (quick: 3,304 ledgers) / <= 4 (thorough: 20,854) body directives over an alphabet covering every directive type, costs, prices, tags, links, metadata of '
                'all nine value types on entries and postings, pads (also in the legacy meta-less shape) and plugin-generated meta-less postings, x 10 tables x every column alone, all together and '
                '`*`, x the metadata / open / close functions for present and absent keys, x structured attribute paths; every cell compared with a reference traversal (vt/ref/ledger.py). Round j: an extra ledger with falsy metadata values (0, 0.00, FALSE, "", NULL) on every level and mixed-case keys with lower-case twins; subscripts x[k] over every dictionary-valued expression for every key.',
        'note': 'Trusted: beancount loader and data model, vt/ref/ledger.py. Weakest readings: any_meta with explicit NULL, cost_label without cost (NULL or empty string), posting vs transaction '
                'line numbers, accounts/commodities rows matched by key.',
    },
    'C10': {
        'engine': 'E-bfs',
        'technique': 'explicit-state BFS over cursor call histories on the product (real Cursor, reference model) to closure',
        'design_ref': 'DESIGN.md section 4, C10',
        'text': 'Every history of any length over the alphabet execute(q_n, n in {0,1,2,3,5}) / fetchone / fetchmany() / fetchmany(k) / fetchall / '
                'list(iter) / next(iter) / arraysize:=k is covered, because the canonical product state space (real cursor attributes by value x model) '
                'closes; after every transition rowcount, rownumber and the complete description protocol (len, every index, 224 slices, iteration, equality, '
                'name, type code) are compared with the reference; a two-cursor product (second cursor created before/after) checks isolation to closure.',
        'note': 'Trusted: the reference cursor model (list + position set + arraysize; cross-checked against sqlite3 fetch results), CPython. '
                'Iteration consuming or not is left open (weakest reading). Result sizes above 5 and fetchmany(k<=0) are outside the bound.',
    },
}
