#!/bin/bash
# evalbatch_par.sh N  P_tag:CHECKS ...   like evalbatch.sh, N deliveries evaluated at a time; one log line per seed
cd /verif
n=$1; shift
one() {
  spec=$1; v=$2
  IFS=: read pt checks <<< "$spec"
  p=${pt%_*}; tag=${pt#*_}
  src=/tmp/seedout_${p}_${tag}/v$v
  [ -f $src/patch.diff ] || { echo "== $p-$tag$v: no delivery"; return; }
  out=$(timeout 3000 tools/evalseed.py $src ${p}-${tag}$v --checks $checks --keep 2>&1 | grep -v WARNING | grep -E '"verdict"|valid_seed|NOT KEPT|PATCH|demo_with' | tr -d '\n' | tr -s ' ')
  echo "== $p-$tag$v [$checks] $out"
}
export -f one
for spec in "$@"; do for v in 1 2; do echo "$spec $v"; done; done | xargs -P $n -L 1 bash -c 'one $0 $1'
