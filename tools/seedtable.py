#!/venv/bin/python
"""Markdown table of the seeded property-breaking changes kept under /verif/seeded (for DESIGN.md section 12.4)."""
import glob, json, os
rows = []
for d in sorted(glob.glob('/verif/seeded/*')):
    m = json.load(open(os.path.join(d, 'meta.json')))
    ev = m.get('evaluation', {})
    checks = ev.get('checks', {})
    verdict = '; '.join(f"{c}: {v['verdict']}" + (f" ({v['fingerprints'][0].split('=')[1].split(' ')[0]})" if v.get('fingerprints') else '') for c, v in checks.items())
    hist = m.get('history', '')
    rc = m.get('recheck', {})
    if rc.get('checks'):
        now = '; '.join(f"{c}: {v['verdict']}" + (f" ({v['fingerprints'][0].split('=')[1].split(' ')[0]})" if v.get('fingerprints') else '') for c, v in rc['checks'].items())
        verdict = f"first evaluation: {verdict}; current checks (/verif {rc.get('verif_commit')}): {now}"
    rows.append((os.path.basename(d), m.get('property'), (m.get('summary') or '')[:160].replace('|', '/').replace('\n', ' '), (m.get('needs') or '')[:140].replace('|', '/').replace('\n', ' '), verdict, hist))
print('| seed | property | change | needs | result (quick tier) | note |')
print('|---|---|---|---|---|---|')
for r in rows:
    print('| ' + ' | '.join(str(x) for x in r) + ' |')
