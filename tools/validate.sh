#!/bin/bash
# Validate MANIFEST.json and all evidence files against the schemas (uses the tooling venv's jsonschema).
python3-vt - <<'PY'
import json, jsonschema, glob, sys
ok = True
jsonschema.validate(json.load(open('/verif/MANIFEST.json')), json.load(open('/root/.vp/MANIFEST.schema.json')))
es = json.load(open('/root/.vp/EVIDENCE.schema.json'))
for f in sorted(glob.glob('/verif/evidence/*.json')):
    try:
        jsonschema.validate(json.load(open(f)), es)
    except Exception as e:
        ok = False; print('INVALID', f, str(e)[:300])
print('valid' if ok else 'INVALID'); sys.exit(0 if ok else 1)
PY
