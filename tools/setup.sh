#!/bin/bash
# Offline setup: nothing to build (pure Python run by /venv/bin/python against /repo's working tree).
# Sanity: the interpreter imports beanquery from /repo and the framework imports.
set -e
cd "$(dirname "$0")/.."
mkdir -p evidence replays
PYTHONPATH=/verif:/repo PYTHONDONTWRITEBYTECODE=1 /venv/bin/python -c "
import beanquery, vt.runner, os
assert os.path.realpath(beanquery.__file__).startswith('/repo/'), beanquery.__file__
print('setup ok: beanquery from', beanquery.__file__)"
