#!/usr/bin/env python3
"""Print the prompt for a fresh seeded-mutation sub-agent: seed_prompt.py C03 a"""
import json, sys
pid, tag = sys.argv[1], sys.argv[2]
props = {json.loads(l)['id']: json.loads(l) for l in open('/verif/properties.jsonl')}
p = props[pid]
wt = f'/tmp/seed_{pid}_{tag}'
out = f'/tmp/seedout_{pid}_{tag}'
print(f'''You are testing how robust a Python library is against subtle regressions. The library is beancount/beanquery (a SQL-like query language "BQL" over Beancount ledgers: TatSu parser -> AST -> type-checking compiler -> in-memory executor -> cursor/renderers/shell). Its git repository is at /repo. NEVER modify /repo itself and do not look at or use anything under /verif.

Set up your own scratch copy first:  git -C /repo worktree add --detach {wt} HEAD   and work only inside {wt}. /venv/bin/python has beanquery installed in development mode pointing at /repo, so to run anything against your copy you MUST put it first on the path:  cd {wt} && PYTHONPATH={wt} /venv/bin/python -c "import beanquery; print(beanquery.__file__)"  (must print a path under {wt}). The test suite is run with:  cd {wt} && PYTHONPATH={wt} /venv/bin/python -m pytest -q -p no:cacheprovider -x -q   -- run it once BEFORE changing anything and note which tests fail already (some do on this pinned tree; without -x to see them all); those stay out of consideration.

THE PROPERTY (a promise the library makes to its users):
  Title: {p["title"]}
  Statement: {p["statement"]}
  Holds for: {p["quantifier"]["text"]}
  Relevant source files: {", ".join(p["anchors"]["files"])}

YOUR TASK: produce TWO different, independent, realistic changes to the library source (variant 1 and variant 2, each a separate small patch against the unmodified tree) that each BREAK this property while (a) the package still imports and works for ordinary queries and (b) the existing test suite still passes exactly as before (no additional failing test). Each change must look like a plausible mistake a maintainer could make in a refactoring, optimisation or "small cleanup" (an off-by-one, a dropped guard, a cache or scratch variable hoisted to a wider scope, a wrong operand order in one overload, a short-circuit that skips a step, state not reset between calls, a condition that is right except for NULL / empty / duplicate / tie cases ...) and NOT something ordinary use would expose at once: it should need something specific to manifest -- a particular multi-step sequence of operations, an unusual but legal input, a NULL or a tie or an empty group at a particular position, a particular combination of clauses, or two cooperating sites that each look fine alone. The two variants should touch different mechanisms.

For each variant N in (1, 2) deliver, in the directory {out}/vN/ :
  patch.diff   -- `git diff` of the change against the unmodified tree (applies with `git apply` in a clean checkout of the same commit)
  demo.py      -- a small self-contained program, run as `PYTHONPATH=<source dir> /venv/bin/python demo.py`, that uses the public API of the library (beanquery.connect / Connection / Cursor / shell / renderers, user-registered tables as in beanquery/tests/tables.py, ledgers loaded with beancount.loader.load_string) to exercise the property, exits 0 on the UNMODIFIED source and exits non-zero (failed assertion with a clear message) WITH the change. Verify both outcomes yourself.
  meta.json    -- {{"property": "{pid}", "summary": "...what was changed...", "needs": "...what specific input/sequence/combination is needed for it to manifest...", "files_changed": [...], "tests_before": "N passed, M failed", "tests_after": "N passed, M failed"}}
Before finishing: check each patch.diff applies to a clean tree (git -C {wt} checkout -- . ; git -C {wt} apply <patch>), re-run the test suite with it and the demo with and without it; then remove your worktree:  git -C /repo worktree remove --force {wt}.  Your final message: one paragraph per variant (what, where, why tests do not notice, what is needed to see it).''')
