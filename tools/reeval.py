#!/venv/bin/python
"""Re-run the current checks against seeds kept under /verif/seeded and record the verdict in meta.json['recheck'].

usage: reeval.py [-P n] [--all | --missed | SEED_ID ...]
For each seed: scratch worktree of /repo HEAD, git apply patch.diff, VERIF_REPO=<wt> ./check <own property + checks of the
first evaluation> --tier quick --no-evidence (stops at the first check that reports), worktree removed.  'recheck' holds
{verif_commit, repo_head, at, checks: {Cxx: {verdict, fingerprints, wall_s}}}; the first evaluation stays untouched.
"""
import argparse, glob, json, os, shutil, subprocess, sys, tempfile, time
from concurrent.futures import ThreadPoolExecutor

ap = argparse.ArgumentParser()
ap.add_argument('-P', type=int, default=3)
ap.add_argument('--all', action='store_true')
ap.add_argument('--missed', action='store_true')
ap.add_argument('seeds', nargs='*')
a = ap.parse_args()


def git(*args):
    return subprocess.run(['git', *args], capture_output=True, text=True).stdout.strip()


VC = git('-C', '/verif', 'rev-parse', '--short', 'HEAD')
RH = git('-C', '/repo', 'rev-parse', '--short', 'HEAD')


def caught(m):
    for src in (m.get('recheck', {}), m.get('evaluation', {})):
        if any(v.get('verdict') == 'CAUGHT' for v in src.get('checks', {}).values()):
            return True
    return False


def one(sid):
    d = os.path.join('/verif/seeded', sid)
    mp = os.path.join(d, 'meta.json')
    m = json.load(open(mp))
    checks = [m['property']] + [c for c in m.get('evaluation', {}).get('checks', {}) if c != m['property']]
    wt = tempfile.mkdtemp(prefix='reeval_', dir='/tmp'); os.rmdir(wt)
    subprocess.run(['git', '-C', '/repo', 'worktree', 'add', '-q', '--detach', wt, 'HEAD'], check=True)
    res = {}
    try:
        r = subprocess.run(['git', '-C', wt, 'apply', os.path.join(d, 'patch.diff')], capture_output=True, text=True)
        if r.returncode != 0:
            res = {'_': {'verdict': 'PATCH DOES NOT APPLY'}}
        else:
            for c in checks:
                t0 = time.time()
                r = subprocess.run(['/verif/check', c, '--tier', 'quick', '--no-evidence'], capture_output=True, text=True, env=dict(os.environ, VERIF_REPO=wt))
                viol = [l for l in r.stdout.splitlines() if l.startswith('VIOLATION')]
                fps = [l.strip() for l in r.stdout.splitlines() if l.startswith('  fingerprint=')]
                v = 'CAUGHT' if r.returncode == 1 and viol else ('MISSED' if r.returncode == 0 else f'ERROR rc={r.returncode}')
                res[c] = {'verdict': v, 'fingerprints': fps[:4], 'wall_s': round(time.time() - t0, 1)}
                if v == 'CAUGHT':
                    break
    finally:
        subprocess.run(['git', '-C', '/repo', 'worktree', 'remove', '--force', wt], capture_output=True)
        shutil.rmtree(wt, ignore_errors=True)
    m = json.load(open(mp))
    m['recheck'] = {'verif_commit': VC, 'repo_head': RH, 'at': time.strftime('%Y-%m-%d %H:%M'), 'checks': res}
    json.dump(m, open(mp, 'w'), indent=1)
    print(sid, {c: v['verdict'] for c, v in res.items()}, flush=True)


ids = a.seeds or [os.path.basename(os.path.dirname(p)) for p in sorted(glob.glob('/verif/seeded/*/meta.json'))]
if a.missed:
    ids = [s for s in ids if not caught(json.load(open(f'/verif/seeded/{s}/meta.json')))]
print(len(ids), 'seeds', flush=True)
with ThreadPoolExecutor(a.P) as ex:
    list(ex.map(one, ids))
