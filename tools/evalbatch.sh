#!/bin/bash
# evalbatch.sh  P_tag:CHECKS ...   e.g.  C01_c:C01  C08_c:C08,C07   -> evaluates /tmp/seedout_P_tag/v1 and v2, keeps valid seeds as P-tagN
cd /verif
for spec in "$@"; do
  IFS=: read pt checks <<< "$spec"
  p=${pt%_*}; tag=${pt#*_}
  for v in 1 2; do
    src=/tmp/seedout_${p}_${tag}/v$v
    [ -f $src/patch.diff ] || { echo "== $p-$tag$v: no delivery"; continue; }
    echo "== $p-$tag$v"
    timeout 3000 tools/evalseed.py $src ${p}-${tag}$v --checks $checks --keep 2>&1 | grep -v WARNING | grep -E '"verdict"|valid_seed|NOT KEPT|PATCH|demo_with' | cut -c1-160
  done
done
