#!/venv/bin/python
"""Run the repository's pinned test-suite (guard OFF) and compare with /root/.vp/BASELINE.json.

Exit 0 iff every test of BASELINE.stable_pass passes.  Usage: tools/baseline.py [repo_dir]
"""
import json
import os
import subprocess
import sys
import tempfile
import xml.etree.ElementTree as ET

repo = sys.argv[1] if len(sys.argv) > 1 else '/repo'
base = json.load(open('/root/.vp/BASELINE.json'))
want = set(base['stable_pass'])
with tempfile.TemporaryDirectory() as tmp:
    xml = os.path.join(tmp, 'junit.xml')
    env = dict(os.environ)
    env.pop('BEANQUERY_VERIF', None)
    env['PYTHONDONTWRITEBYTECODE'] = '1'
    subprocess.run(['/venv/bin/python', '-m', 'pytest', '-ra', '-q', '-p', 'no:cacheprovider', '--timeout=900',
                    '--continue-on-collection-errors', f'--junitxml={xml}'], cwd=repo, env=env,
                   stdout=subprocess.DEVNULL, stderr=subprocess.DEVNULL)
    passed = set()
    for tc in ET.parse(xml).getroot().iter('testcase'):
        if not any(ch.tag in ('failure', 'error', 'skipped') for ch in tc):
            passed.add(f"{tc.get('classname')}::{tc.get('name')}")
missing = sorted(want - passed)
print(f'baseline: {len(want & passed)}/{len(want)} stable tests pass; {len(passed - want)} additional passes')
for m in missing:
    print('  NOT PASSING:', m)
sys.exit(1 if missing else 0)
