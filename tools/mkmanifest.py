#!/venv/bin/python
"""Regenerate /verif/MANIFEST.json from tools/manifest_src.py (single source of truth)."""
import json, os, sys
sys.path.insert(0, os.path.dirname(os.path.abspath(__file__)))
import manifest_src as S

ids = [json.loads(l)['id'] for l in open('/verif/properties.jsonl')]
checks = []
for pid in ids:
    c = S.CHECKS.get(pid)
    if not c:
        continue
    checks.append({
        'property_id': pid,
        'quick_cmd': f'./check {pid} --tier quick',
        'thorough_cmd': f'./check {pid} --tier thorough',
        'evidence_file': f'/verif/evidence/{pid}.json',
        'replay_cmd_template': f'./check {pid} --replay {{path}}',
        'engine': c['engine'],
        'level_claimed': {'category': 'model_checking', 'text': c['text'], 'design_ref': c['design_ref']},
        'level_note': c['note'],
        'technique': c['technique'],
    })
na = [{'property_id': pid, 'reason': S.NOT_APPLICABLE.get(pid, S.NOT_YET)} for pid in ids if pid not in S.CHECKS]
m = {
    'version': 1,
    'setup_cmd': 'cd /verif && ./tools/setup.sh',
    'hooks': {
        'guard': 'BEANQUERY_VERIF',
        'enable': 'none needed: every observation point is public API (Connection, Cursor, Table registration, function registry); '
                  './check exports BEANQUERY_VERIF=1 but no source in /repo reads it',
        'baseline_off_cmd': '/verif/tools/baseline.py /repo',
        'source_commits': [],
        'add_only': True,
    },
    'engines': S.ENGINES,
    'checks': checks,
    'notes': S.NOTES,
    'not_applicable': na,
}
json.dump(m, open('/verif/MANIFEST.json', 'w'), indent=1)
print('checks:', [c['property_id'] for c in checks], 'not_applicable:', [n['property_id'] for n in na])
