"""AST <-> JSON (for replay files)."""
import dataclasses
import enum

from beanquery.parser import ast

from .runner import jsonable, unjson


def dump(x):
    if isinstance(x, ast.Node):
        d = {'$node': type(x).__name__}
        for f in dataclasses.fields(x):
            if f.name == 'parseinfo':
                continue
            d[f.name] = dump(getattr(x, f.name))
        return d
    if isinstance(x, enum.Enum):
        return {'$enum': x.name}
    if isinstance(x, list):
        return {'$list': [dump(i) for i in x]}
    if isinstance(x, tuple):
        return {'$list': [dump(i) for i in x]}
    return {'$v': jsonable(x)}


def load(d):
    if '$node' in d:
        cls = getattr(ast, d['$node'])
        kw = {k: load(v) for k, v in d.items() if k != '$node'}
        return cls(**kw)
    if '$enum' in d:
        return ast.Ordering[d['$enum']]
    if '$list' in d:
        return [load(i) for i in d['$list']]
    return unjson(d['$v'])
