"""The shared *ledger family*: small Beancount ledgers generated as TEXT and loaded with the real loader.

Used by C11 (and C04, C13, C14, C19).  A ledger of the family is

    PREAMBLE  (fixed: options + ``open`` directives for the five account types, including the Equity
               accounts Beancount's summarisation (OPEN/CLOSE/CLEAR) books to)
  + any subset of ALPHABET, in alphabet order  (the *body*; each member is a named snippet of one or two
               dated directives; the dates never decrease along the alphabet, so every subset, kept in
               alphabet order, is a date-sorted, valid ledger; several neighbours share a date on purpose, so
               that "ledger order" is the loader's order (date, directive kind, line) and not just the date).

``family(n)`` enumerates **all** ledgers with at most ``n`` body snippets, simplest first (by size, then
lexicographically by alphabet index): 1 + C(A,1) + ... + C(A,n) ledgers for an alphabet of A snippets.

Guarantee (asserted when a member is generated): every member of the family loads with
``beancount.loader.load_string`` **without errors**.  Ledgers that deliberately load *with* errors
(a failing balance assertion, which is the only way to obtain a non-NULL ``discrepancy``) are kept apart in
``EXTRAS`` and are not part of the family.

What the alphabet contains (DESIGN.md section 3): close (early and late), commodity with metadata of every
value type, transactions with 1-4 postings (plain, at cost with explicit lot date and label, at cost without,
with a per-unit price ``@`` and a total price ``@@``, a lot reduction, a multi-currency conversion, tags, links,
posting flags, metadata of EVERY value type (string, number, date, account, currency, tag, amount, boolean,
NULL) on the entry and on a posting with keys present on the posting only (``p-*``), on the entry only
(``e-*``), on both with different values (``b-*``) and mixed NULL / non-NULL (``pn-val``, ``en-val``), an
elided amount, a repeated account inside one transaction), pad + balance (a synthesised ``P`` transaction),
a plain balance with tolerance, prices (only rates whose reciprocals terminate: 1.25, 0.5, 2.5 and the inverse
0.8), note, event, document, custom, query, an ``open`` inside the body, and the
``beancount.plugins.currency_accounts`` plugin, which (from text alone) yields postings whose ``meta`` is
None.

Postings without metadata.  With Beancount >= 3.1 the postings of a pad-generated transaction carry the
``filename``/``lineno`` of the balance directive; older versions set their ``meta`` to None (issue #767, and
beanquery guards for it).  ``legacy_pad(entries)`` rebuilds that older shape (the same entries with the
``P`` transactions' postings stripped of their metadata) so that both shapes can be explored;
``load(text, legacy=True)`` / ``connect(text, legacy=True)`` apply it.  The currency-accounts plugin gives
``meta is None`` postings without any such rewriting.

Determinism: pure functions of (alphabet, n, seed); no clock, no randomness, no environment except the
absolute path of this file (the ``document`` directive must name an existing file).  ``seed`` never changes
which structures exist: it only rotates two ordinary amounts (``1000.00 + seed % 50`` USD in ``txn_plain``).

Public API
    PREAMBLE            str
    ALPHABET            list[Snippet]   (Snippet = namedtuple(name, date, text, kinds))
    NAMES               list[str]       names in alphabet order
    META_TYPES          the nine metadata value types and, per level, the literal used in the text
    body(seed)          list[Snippet] with the seed-rotated amounts substituted
    text_of(names, seed=0)            -> ledger text for a tuple of snippet names (any order given; alphabet order used)
    family_size(n, exclude=())        -> number of ledgers with <= n snippets
    family(n, seed=0, exclude=(), verify=True)                  -> iterator of (names, text)
    family_sharded(n, shard, nshards, seed=0, exclude=(), verify=True) -> iterator of (index, names, text), own shard only
    load(text, legacy=False)          -> (entries, errors, options), cached per process by text
    connect(text, legacy=False)       -> beanquery.Connection over the loaded entries
    legacy_pad(entries)               -> entries with pad-generated postings' meta set to None
    EXTRAS                            dict name -> text of ledgers that load WITH errors (not in the family)
"""
import collections
import itertools
import math
import os

from beancount import loader
from beancount.core import data
from beancount.core import flags

Snippet = collections.namedtuple('Snippet', 'name date text kinds')

_HERE = os.path.abspath(__file__)

#: metadata value types: name -> (literal on the entry / first level, literal on the posting / second level)
META_TYPES = collections.OrderedDict([
    ('str', ('"entry text"', '"posting text"')),
    ('num', ('1.5', '-2.50')),
    ('date', ('2020-03-01', '2019-02-28')),
    ('acct', ('Assets:Cash', 'Expenses:Food')),
    ('cur', ('USD', 'EUR')),
    ('tag', ('#etag', '#ptag')),
    ('amt', ('1.00 USD', '-2.00 EUR')),
    ('bool', ('TRUE', 'FALSE')),
    ('null', ('', '')),
])


def _meta(prefix, level, indent):
    """Metadata lines ``<prefix>-<type>: <literal>`` for every value type."""
    pad = ' ' * indent
    return ''.join(f'{pad}{prefix}-{t}: {lits[level]}'.rstrip() + '\n' for t, lits in META_TYPES.items())


PREAMBLE = f'''\
option "title" "vt ledger family"
option "operating_currency" "USD"
option "operating_currency" "EUR"
2019-12-01 open Assets:Cash
2019-12-02 open Assets:Bank EUR,USD
{_meta('o', 0, 2)}  b-str: "open text"
2019-12-03 open Assets:Inv HOOL "FIFO"
2019-12-01 open Assets:Old
2019-12-04 open Liabilities:Card USD
2019-12-01 open Income:Salary
2019-12-01 open Income:Gains
2019-12-01 open Expenses:Food
2019-12-01 open Expenses:Fees
2019-12-01 open Equity:Opening-Balances
2019-12-01 open Equity:Earnings:Current
2019-12-01 open Equity:Earnings:Previous
2019-12-01 open Equity:Conversions:Current
2019-12-01 open Equity:Conversions:Previous
'''


def _alphabet(seed=0):
    amt = f'{1000 + seed % 50}.00'
    S = []

    def add(name, date, text, *kinds):
        S.append(Snippet(name, date, text, frozenset(kinds)))

    add('plugin_curacc', None, 'plugin "beancount.plugins.currency_accounts" "Equity:CurrencyAccounts"\n', 'plugin', 'nullmeta')
    add('bal0', '2020-01-01', '2020-01-01 balance Assets:Cash 0.00 ~ 0.01 USD\n  bal-key: "asserted"\n', 'balance')
    add('close_old', '2020-01-02', '2020-01-02 close Assets:Old\n  c-str: "closed early"\n', 'close')
    add('commodity_hool', '2020-01-02',
        '2020-01-02 commodity HOOL\n  name: "Hooli Inc."\n' + _meta('c', 0, 2) + '  b-str: "commodity text"\n', 'commodity')
    add('commodity_usd', '2020-01-02', '2020-01-02 commodity USD\n  name: "US Dollar"\n  b-num: 840\n', 'commodity')
    add('txn_plain', '2020-01-03',
        f'2020-01-03 * "Opening balance"\n  Assets:Cash  {amt} USD\n  Equity:Opening-Balances  -{amt} USD\n', 'txn')
    add('txn_single', '2020-01-03', '2020-01-03 ! "Nothing" "a single zero posting"\n  Assets:Cash  0.00 USD\n', 'txn')
    add('txn_cost', '2020-01-06',
        '2020-01-06 * "Broker" "Buy two lots" ^trade-1\n'
        '  Assets:Inv  10 HOOL {20.00 USD, 2020-01-02, "lot1"}\n'
        '  Assets:Inv  5 HOOL {25.00 USD} @ 40.00 USD\n'
        '  Assets:Cash  -325.00 USD\n', 'txn', 'cost')
    add('txn_price', '2020-01-07',
        '2020-01-07 * "Exchange at a unit price"\n  Assets:Bank  100.00 EUR @ 1.25 USD\n  Assets:Cash  -125.00 USD\n',
        'txn', 'price', 'conversion')
    add('price_eur', '2020-01-07', '2020-01-07 price EUR 1.25 USD\n  source: "ecb"\n', 'pricedir')
    add('price_usd', '2020-01-08', '2020-01-08 price USD 0.8 EUR\n', 'pricedir')
    add('price_gbp', '2020-01-08', '2020-01-08 price GBP 0.5 EUR\n', 'pricedir')
    add('price_hool', '2020-01-09', '2020-01-09 price HOOL 2.5 USD\n', 'pricedir')
    add('txn_conv', '2020-01-10',
        '2020-01-10 * "Bank" "Conversion with a fee and a total price"\n'
        '  Assets:Bank  80.00 EUR @@ 100.00 USD\n'
        '  Expenses:Fees  5.00 USD\n'
        '  Liabilities:Card  -105.00 USD\n', 'txn', 'price', 'conversion')
    add('txn_tagslinks', '2020-01-11',
        '2020-01-11 ! "Cafe" "Lunch" #food #trip-2020 ^receipt-7 ^trip\n'
        '  ! Expenses:Food  12.50 USD\n'
        '  * Liabilities:Card  -12.50 USD\n', 'txn', 'tags')
    add('txn_meta', '2020-01-12',
        '2020-01-12 * "Employer" "Salary with metadata of every type"\n'
        + _meta('e', 0, 2) + _meta('b', 0, 2) +
        '  pn-val: "entry wins?"\n  en-val:\n'
        '  Assets:Bank  2000.00 USD\n'
        + _meta('p', 1, 4) + _meta('b', 1, 4) +
        '    pn-val:\n    en-val: 7\n'
        '  Income:Salary  -2000.00 USD\n', 'txn', 'meta')
    add('txn_elided', '2020-01-13',
        '2020-01-13 * "Groceries, amount elided"\n  Expenses:Food  30.25 USD\n    p-str: "on elided txn"\n  Assets:Cash\n',
        'txn', 'elided')
    add('txn_four', '2020-01-14',
        '2020-01-14 * "Split" ""\n'
        '  Expenses:Food  10.00 USD\n'
        '  Expenses:Food  5.00 USD\n'
        '  Expenses:Fees  1.00 USD\n'
        '  Assets:Cash  -16.00 USD\n', 'txn')
    add('txn_lots', '2020-02-03',
        '2020-02-01 * "Broker" "Buy lot2"\n'
        '  Assets:Inv  10 HOOL {30.00 USD}\n'
        '  Assets:Cash  -300.00 USD\n'
        '2020-02-03 * "Broker" "Sell part of lot2" ^trade-2\n'
        '  Assets:Inv  -4 HOOL {30.00 USD} @ 40.00 USD\n'
        '  Assets:Cash  160.00 USD\n'
        '  Income:Gains\n', 'txn', 'cost', 'price', 'reduction', 'elided')
    add('pad_balance', '2020-02-12',
        '2020-02-10 pad Assets:Cash Equity:Opening-Balances\n  pad-key: "from the pad"\n  b-str: "pad text"\n'
        '2020-02-12 balance Assets:Cash 1234.56 USD\n', 'pad', 'balance')
    add('open_late', '2020-02-20', '2020-02-20 open Assets:Late:Sub GBP "STRICT"\n  o-str: "late"\n', 'open')
    add('note', '2020-03-01', '2020-03-01 note Assets:Cash "called the bank" #ntag ^nlink\n  n-key: 3\n', 'note')
    add('event', '2020-03-02', '2020-03-02 event "location" "Paris"\n', 'event')
    add('document', '2020-03-03', f'2020-03-03 document Assets:Bank "{_HERE}" #dtag ^dlink\n', 'document')
    add('custom', '2020-03-05', '2020-03-05 custom "budget" "monthly" 12.00 USD TRUE 2020-01-01 Assets:Cash 4.5\n', 'custom')
    add('query', '2020-03-06', '2020-03-06 query "cash" "SELECT account, sum(position) WHERE account ~ \'Cash\' GROUP BY 1"\n', 'query')
    add('close_card', '2020-12-30', '2020-12-30 close Liabilities:Card\n', 'close')
    dates = [s.date for s in S if s.date]
    assert dates == sorted(dates), 'alphabet dates must not decrease'
    assert len({s.name for s in S}) == len(S)
    return S


ALPHABET = _alphabet(0)
NAMES = [s.name for s in ALPHABET]
_INDEX = {n: i for i, n in enumerate(NAMES)}

#: ledgers that load WITH errors (outside the family): name -> text
EXTRAS = {
    'failing_balance': PREAMBLE +
    '2020-01-03 * "Opening balance"\n  Assets:Cash  1000.00 USD\n  Equity:Opening-Balances  -1000.00 USD\n'
    '2020-01-05 balance Assets:Cash 990.00 USD\n',
}


def body(seed=0):
    """The alphabet with the seed-rotated ordinary amounts substituted (same names, dates, structure)."""
    return ALPHABET if seed % 50 == 0 else _alphabet(seed)


def text_of(names, seed=0):
    """Ledger text for the given snippet names (emitted in alphabet order, whatever order is given)."""
    b = body(seed)
    idx = sorted({_INDEX[n] for n in names})
    return PREAMBLE + ''.join(b[i].text for i in idx)


def _indices(exclude):
    ex = set(exclude)
    unknown = ex - set(NAMES)
    assert not unknown, f'unknown snippet names {sorted(unknown)}'
    return [i for i, n in enumerate(NAMES) if n not in ex]


def family_size(n, exclude=()):
    a = len(_indices(exclude))
    return sum(math.comb(a, k) for k in range(0, min(n, a) + 1))


def _combos(n, exclude):
    idx = _indices(exclude)
    for k in range(0, min(n, len(idx)) + 1):
        yield from itertools.combinations(idx, k)


def _verify(names, text):
    entries, errors, _ = load(text)
    assert not errors, f'ledger family member {names} loads with errors: {errors[:3]}'
    assert entries


def family(n, seed=0, exclude=(), verify=True):
    """All ledgers with <= n body snippets, simplest first, as (names, text)."""
    for _, names, text in family_sharded(n, 0, 1, seed=seed, exclude=exclude, verify=verify):
        yield names, text


def family_sharded(n, shard, nshards, seed=0, exclude=(), verify=True):
    """The members ``index % nshards == shard`` of family(n) as (index, names, text); only those are loaded."""
    b = body(seed)
    for index, combo in enumerate(_combos(n, exclude)):
        if index % nshards != shard:
            continue
        names = tuple(NAMES[i] for i in combo)
        text = PREAMBLE + ''.join(b[i].text for i in combo)
        if verify:
            _verify(names, text)
        yield index, names, text


_CACHE = collections.OrderedDict()
_CACHE_MAX = 2048


def load(text, legacy=False):
    """(entries, errors, options) of ``loader.load_string(text)``; cached per process by text.

    legacy=True: pad-generated postings get ``meta = None`` (see ``legacy_pad``)."""
    key = (text, bool(legacy))
    hit = _CACHE.get(key)
    if hit is not None:
        return hit
    if legacy:
        entries, errors, options = load(text)
        res = (legacy_pad(entries), errors, options)
    else:
        res = loader.load_string(text)
    _CACHE[key] = res
    if len(_CACHE) > _CACHE_MAX:
        _CACHE.popitem(last=False)
    return res


def legacy_pad(entries):
    """The same entries, with the postings of pad-generated ('P') transactions carrying ``meta = None`` as
    Beancount < 3.1 produced them (https://github.com/beancount/beancount/issues/767)."""
    out = []
    for e in entries:
        if isinstance(e, data.Transaction) and e.flag == flags.FLAG_PADDING:
            e = e._replace(postings=[p._replace(meta=None) for p in e.postings])
        out.append(e)
    return out


def connect(text, legacy=False):
    """A fresh beanquery connection over the (cached) loaded ledger."""
    import beanquery
    entries, errors, options = load(text, legacy)
    return beanquery.connect('beancount:', entries=entries, errors=errors, options=options)
