"""Reference model of the ledger tables: a DIRECT traversal of the loaded Beancount entries.

Written from the text of property C11; it imports nothing from beanquery.  Beancount's own data model
(``beancount.core``: data, Position, Inventory, convert.get_weight, compare.hash_entry) is the trusted base.

An expected cell is either a plain Python value (NULL is None) or, where the property leaves room, a weaker
expectation:

    OneOf(v1, v2, ...)   any of the listed values is accepted (weakest reading of an ambiguous sentence)
    Pred(fn, text)       ``fn(got)`` must hold (derived columns whose exact format the property does not fix)

``same(got, exp)`` compares by (type, value): ``1``, ``True`` and ``Decimal(1)`` are different, Decimal
representation (exponent) is not compared, collections are compared *by kind*: a set, frozenset or list where
the model holds a set is compared as a set (``other_accounts`` is declared ``set`` but returned as a sorted
list; tags / links are frozensets).

Readings (see vt/checks/c11.py for the list reported in the evidence):
  * postings table: one row per posting of every Transaction, in the order of the entries list and of
    ``entry.postings``;
  * ``filename`` / ``lineno`` / ``location`` of a posting row: the property says "filename/lineno" without
    saying whether the posting's or the transaction's line is meant -> either is accepted; NULL is accepted
    as well when the posting has no metadata;
  * ``description``: some combination of payee and narration: it must contain both (payee first), and equal
    the only one present;
  * entries table: columns that only exist on transactions (flag, payee, narration, tags, links) are NULL for
    other directives; a Note or a Document has tags/links of its own and an Event a description of its own:
    for those NULL or the directive's own attribute is accepted;
  * ``cost_label`` without cost: NULL or ''; ``any_meta`` with a key explicitly NULL on the posting: NULL or
    the transaction's value.
"""
import copy
import datetime
import decimal

from beancount.core import compare
from beancount.core import convert
from beancount.core import data
from beancount.core import inventory
from beancount.core import position

D = decimal.Decimal


class OneOf:
    __slots__ = ('alts',)

    def __init__(self, *alts):
        self.alts = alts

    def __repr__(self):
        return 'OneOf(' + ', '.join(repr(a) for a in self.alts) + ')'


class Pred:
    __slots__ = ('fn', 'text')

    def __init__(self, fn, text):
        self.fn = fn
        self.text = text

    def __repr__(self):
        return f'<{self.text}>'


class AsSet:
    """Model value of a collection column: compared as a set whatever the concrete kind."""
    __slots__ = ('items',)

    def __init__(self, items):
        self.items = frozenset(items)

    def __repr__(self):
        return 'set' + repr(sorted(self.items))


_SCALARS = (str, int, bool, D, datetime.date, type(None))


def norm(v):
    """Canonical (type, value) form; == on the result is the cell equality of the check."""
    t = type(v)
    if v is None or t in (str, int, bool, datetime.date):
        return (t.__name__, v)
    if t is D:
        return ('Decimal', v)
    if isinstance(v, inventory.Inventory):
        return ('Inventory', frozenset(norm(p) for p in v.get_positions()))
    if isinstance(v, dict):
        return ('dict', tuple(sorted((str(k), norm(x)) for k, x in v.items())))
    if isinstance(v, tuple) and hasattr(v, '_fields'):
        return (t.__name__, tuple(norm(x) for x in v))
    if isinstance(v, (list, tuple)):
        return (t.__name__, tuple(norm(x) for x in v))
    if isinstance(v, (set, frozenset)):
        return ('set', frozenset(norm(x) for x in v))
    return (t.__name__, v)


def same(got, exp):
    if isinstance(exp, OneOf):
        return any(same(got, a) for a in exp.alts)
    if isinstance(exp, Pred):
        try:
            return bool(exp.fn(got))
        except Exception:
            return False
    if isinstance(exp, AsSet):
        if not isinstance(got, (set, frozenset, list, tuple)):
            return False
        items = list(got)
        if not all(isinstance(i, str) for i in items):
            return False
        # a list must not repeat an element: it stands for a set
        return len(set(items)) == len(items) and frozenset(items) == exp.items
    if got is exp:
        return True
    tg = type(got)
    if tg is not type(exp):
        # dict subclasses (a Metadata wrapper) are dicts; nothing else crosses types
        if not (isinstance(got, dict) and isinstance(exp, dict)):
            return False
    if tg in (str, int, bool, D, datetime.date):
        return got == exp
    return norm(got) == norm(exp)


def is_null(exp):
    return exp is None


# ---------------------------------------------------------------------------------------------------
# entries / postings

def _fileline(meta):
    return (meta['filename'], meta['lineno'])


def _description(e):
    payee, narration = e.payee, e.narration

    def ok(got):
        if not isinstance(got, str):
            return False
        parts = [x for x in (payee, narration) if x]
        if not parts:
            return got == ''
        if len(parts) == 1:
            return got == parts[0]
        return got.startswith(payee) and got.endswith(narration) and len(got) >= len(payee) + len(narration)
    return Pred(ok, f'payee {payee!r} combined with narration {narration!r}')


def _location(cands, allow_null):
    def ok(got):
        if got is None:
            return allow_null
        return isinstance(got, str) and any(got in (f'{fn}:{ln}', f'{fn}:{ln}:') for fn, ln in cands)
    return Pred(ok, 'filename:lineno[:] of ' + ' or '.join(f'{fn}:{ln}' for fn, ln in cands) + (' or NULL' if allow_null else ''))


def entry_common(e):
    """Columns that every directive has."""
    return {
        'id': compare.hash_entry(e),
        'type': type(e).__name__.lower(),
        'filename': e.meta['filename'],
        'lineno': e.meta['lineno'],
        'date': e.date,
        'year': e.date.year,
        'month': e.date.month,
        'day': e.date.day,
        'meta': e.meta,
    }


def entries_rows(entries):
    """Expected rows (dict column -> expectation) of the ``entries`` table: every directive, in order."""
    rows = []
    for e in entries:
        r = entry_common(e)
        if isinstance(e, data.Transaction):
            r.update(flag=e.flag, payee=e.payee, narration=e.narration, description=_description(e),
                     tags=AsSet(e.tags), links=AsSet(e.links))
        else:
            r.update(flag=None, payee=None, narration=None)
            for name in ('tags', 'links'):
                own = getattr(e, name, None)
                r[name] = None if own is None else OneOf(None, AsSet(own))
            own = getattr(e, 'description', None)
            r['description'] = None if own is None else OneOf(None, own)
        rows.append(r)
    return rows


def postings_rows(entries):
    """Expected rows of the ``postings`` table: one per posting of every transaction, in ledger order.

    ``balance`` is the running Inventory sum of the positions of all postings scanned so far (inclusive)."""
    rows = []
    running = inventory.Inventory()
    for e in entries:
        if not isinstance(e, data.Transaction):
            continue
        common = entry_common(e)
        efl = _fileline(e.meta)
        for p in e.postings:
            r = dict(common)
            pm = p.meta
            cands = [efl] + ([_fileline(pm)] if pm is not None else [])
            r['filename'] = OneOf(*([c[0] for c in cands] + ([None] if pm is None else [])))
            r['lineno'] = OneOf(*([c[1] for c in cands] + ([None] if pm is None else [])))
            r['location'] = _location(cands, pm is None)
            r.update(flag=e.flag, payee=e.payee, narration=e.narration, description=_description(e),
                     tags=AsSet(e.tags), links=AsSet(e.links))
            r['posting_flag'] = p.flag
            r['account'] = p.account
            r['other_accounts'] = AsSet(q.account for q in e.postings if q is not p)
            r['number'] = p.units.number
            r['currency'] = p.units.currency
            c = p.cost
            r['cost_number'] = c.number if c is not None else None
            r['cost_currency'] = c.currency if c is not None else None
            r['cost_date'] = c.date if c is not None else None
            r['cost_label'] = c.label if c is not None else OneOf(None, '')
            pos = position.Position(p.units, p.cost)
            r['position'] = pos
            r['price'] = p.price
            r['weight'] = convert.get_weight(p)
            running.add_position(pos)
            r['balance'] = copy.copy(running)
            r['meta'] = pm
            r['entry'] = e
            r['$posting'] = p
            rows.append(r)
    return rows


# ---------------------------------------------------------------------------------------------------
# typed tables

TYPED = {
    'transactions': data.Transaction,
    'prices': data.Price,
    'balances': data.Balance,
    'notes': data.Note,
    'events': data.Event,
    'documents': data.Document,
}

#: column name -> attribute name, where the table renames a directive attribute
RENAMES = {
    'balances': {'discrepancy': 'diff_amount'},
    'commodities': {'name': 'currency'},
}

#: attributes that are not columns (the postings have a table of their own)
NOT_COLUMNS = {'transactions': {'postings'}}


def directive_value(v):
    if isinstance(v, (set, frozenset)):
        return AsSet(v)
    return v


def typed_rows(entries, table):
    """(directives, rows) of a typed table: the directives of that type in order; a row maps every attribute
    of the directive (under its column name) to its value."""
    cls = TYPED[table]
    ren = {a: c for c, a in RENAMES.get(table, {}).items()}
    skip = NOT_COLUMNS.get(table, set())
    ds = [e for e in entries if isinstance(e, cls)]
    return ds, [{ren.get(f, f): directive_value(getattr(d, f)) for f in cls._fields if f not in skip} for d in ds]


def open_close(entries):
    """account -> [Open or None, Close or None], in order of first appearance."""
    m = {}
    for e in entries:
        if isinstance(e, data.Open):
            m.setdefault(e.account, [None, None])
            if m[e.account][0] is None:
                m[e.account][0] = e
        elif isinstance(e, data.Close):
            m.setdefault(e.account, [None, None])
            if m[e.account][1] is None:
                m[e.account][1] = e
    return m


def accounts_rows(entries):
    return [{'account': a, 'open': oc[0], 'close': oc[1]} for a, oc in open_close(entries).items()]


def commodities(entries):
    """currency -> Commodity directive."""
    m = {}
    for e in entries:
        if isinstance(e, data.Commodity):
            m.setdefault(e.currency, e)
    return m


def commodities_rows(entries):
    ren = {a: c for c, a in RENAMES['commodities'].items()}
    return [{ren.get(f, f): getattr(d, f) for f in data.Commodity._fields} for d in commodities(entries).values()]


# ---------------------------------------------------------------------------------------------------
# metadata lookups

def meta_lookup(p, key):
    """meta(key): the posting's metadata; NULL for a missing key and for a posting without metadata."""
    if p.meta is None:
        return None
    return p.meta.get(key)


def entry_meta_lookup(e, key):
    """entry_meta(key): the transaction's metadata; NULL for a missing key."""
    return e.meta.get(key)


def any_meta_lookup(p, e, key):
    """any_meta(key): the posting's value, else the transaction's."""
    ev = e.meta.get(key)
    if p.meta is None:
        return None                         # the property is explicit: "NULL ... for postings without metadata"
    if key in p.meta:
        pv = p.meta[key]
        if pv is None:
            return OneOf(None, ev)          # key explicitly NULL on the posting: ambiguous
        return pv
    return ev


def directive_meta(d, key=None):
    """open_meta / commodity_meta: the metadata (or one key) of the directive found; NULL when there is none."""
    if d is None:
        return None
    if key is None:
        return d.meta
    return d.meta.get(key)


def all_meta_keys(entries):
    keys = set()
    for e in entries:
        keys.update(e.meta or ())
        if isinstance(e, data.Transaction):
            for p in e.postings:
                keys.update(p.meta or ())
    return sorted(keys)


def all_currencies(entries):
    cur = set()
    for e in entries:
        if isinstance(e, data.Transaction):
            for p in e.postings:
                cur.add(p.units.currency)
                if p.cost is not None:
                    cur.add(p.cost.currency)
                if p.price is not None:
                    cur.add(p.price.currency)
        elif isinstance(e, data.Commodity):
            cur.add(e.currency)
        elif isinstance(e, data.Price):
            cur.add(e.currency)
            cur.add(e.amount.currency)
    return sorted(cur)


def attr_path(value, path):
    """Structured attribute path: NULL propagates."""
    for name in path:
        if value is None:
            return None
        value = getattr(value, name)
    return directive_value(value)
