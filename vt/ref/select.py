"""Reference interpreter for SELECT over in-memory tables (properties C02, C03, C07, C08, C15).

Written from the property texts, independent of beanquery's compiler and executor:

  rows passing WHERE (value is TRUE)                                         [C01]
  -> aggregate query: partition by the tuple of grouping-key values, NULL an ordinary key, groups in
     order of first appearance; fold every aggregate over the group's rows in source order;
     evaluate targets; HAVING keeps a group iff its value is true                       [C02]
  -> ORDER BY: stable sort by the listed keys (output position / output name / any expression),
     each ASC or DESC, NULL before every value (after, under DESC)                      [C03]
  -> projection to the visible targets -> DISTINCT (first occurrence) -> LIMIT          [C03]

``execute(select, columns, rows)`` -> (names, rows).  ``columns``: list of column names of the
table, ``rows``: list of tuples.  A FROM sub-select is evaluated recursively (C08).
"""
import functools
import decimal

from beanquery.parser import ast      # node classes only

from . import expr as refexpr
from .expr import RefError

D = decimal.Decimal
AGGREGATES = {'count', 'sum', 'min', 'max', 'first', 'last'}


def is_agg_call(node):
    return isinstance(node, ast.Function) and node.fname in AGGREGATES


def walk(node):
    """Pre-order walk over expression nodes (not descending into sub-selects)."""
    yield node
    if isinstance(node, ast.Select):
        return
    if isinstance(node, (ast.And, ast.Or)):
        for a in node.args:
            yield from walk(a)
    elif isinstance(node, ast.Function):
        for a in node.operands:
            if isinstance(a, ast.Node):
                yield from walk(a)
    elif isinstance(node, ast.Between):
        for a in (node.operand, node.lower, node.upper):
            yield from walk(a)
    elif isinstance(node, ast.BinaryOp):
        yield from walk(node.left)
        yield from walk(node.right)
    elif isinstance(node, ast.UnaryOp):
        yield from walk(node.operand)
    elif isinstance(node, (ast.Attribute, ast.Subscript)):
        yield from walk(node.operand)


def aggregates_in(node):
    """Outermost aggregate calls below node."""
    out = []

    def rec(n):
        if is_agg_call(n):
            out.append(n)
            return
        if isinstance(n, (ast.And, ast.Or)):
            for a in n.args:
                rec(a)
        elif isinstance(n, ast.Function):
            for a in n.operands:
                if isinstance(a, ast.Node):
                    rec(a)
        elif isinstance(n, ast.Between):
            for a in (n.operand, n.lower, n.upper):
                rec(a)
        elif isinstance(n, ast.BinaryOp):
            rec(n.left)
            rec(n.right)
        elif isinstance(n, ast.UnaryOp):
            rec(n.operand)
    rec(node)
    return out


def has_agg(node):
    return bool(aggregates_in(node))


def zero_like(values, hint=None):
    for v in values:
        if isinstance(v, D):
            return D(0)
    if hint is D:
        return D(0)
    return 0


def fold(call, rows, evalrow, coltypes=None):
    name = call.fname
    arg = call.operands[0] if call.operands else None
    if name == 'count':
        if isinstance(arg, ast.Asterisk):
            return len(rows)
        return sum(1 for r in rows if evalrow(arg, r) is not None)
    vals = [evalrow(arg, r) for r in rows]
    nn = [v for v in vals if v is not None]
    if name == 'sum':
        hint = None
        if coltypes is not None:
            hint = static_type(arg, coltypes)
        total = D(0) if hint is D else 0
        for v in nn:
            total = total + v
        return total
    if name == 'min':
        return min(nn) if nn else None
    if name == 'max':
        return max(nn) if nn else None
    if name == 'first':
        return nn[0] if nn else None
    if name == 'last':
        return vals[-1] if vals else None
    raise RefError(name)


def static_type(node, coltypes):
    """Just enough static typing to pick the zero of sum(): Decimal vs int."""
    if isinstance(node, ast.Column):
        return coltypes.get(node.name)
    if isinstance(node, ast.Constant):
        return type(node.value)
    if isinstance(node, ast.Neg):
        return static_type(node.operand, coltypes)
    if isinstance(node, (ast.Add, ast.Sub, ast.Mul, ast.Mod)):
        a, b = static_type(node.left, coltypes), static_type(node.right, coltypes)
        return D if D in (a, b) else a
    if isinstance(node, ast.Div):
        return D
    if isinstance(node, ast.Function):
        if node.fname in ('decimal', 'safediv', 'abs', 'neg'):
            return D
        if node.fname in ('int', 'length', 'year', 'month', 'day', 'date_diff'):
            return int
        if node.fname == 'coalesce':
            return static_type(node.operands[0], coltypes)
    return None


def target_name(target, text_of=None):
    if target.name is not None:
        return target.name
    if isinstance(target.expression, ast.Column):
        return target.expression.name
    if text_of is not None:
        return text_of(target.expression)
    return None     # expression-named: the reference does not define a name without the source text


def cmp_null(a, b):
    if a is None and b is None:
        return 0
    if a is None:
        return -1
    if b is None:
        return 1
    return (a > b) - (a < b)


def execute(sel, columns, rows, coltypes=None, tables=None, params=None, text_of=None):
    """Returns (names, rows, info).  names[i] is None when the reference does not define the name."""
    # FROM
    if isinstance(sel.from_clause, ast.Select):
        inames, irows, _ = execute(sel.from_clause, columns, rows, coltypes, tables, params, text_of)
        columns, rows = inames, irows
        coltypes = None
    elif isinstance(sel.from_clause, ast.Table) and tables is not None and sel.from_clause.name in tables:
        columns, rows, coltypes = tables[sel.from_clause.name]

    outer_tables = tables

    def subquery(node):
        if not isinstance(node.from_clause, (ast.Table, ast.Select)):
            # a sub-query without FROM (or with a FROM expression) reads the default table
            n2, r2, _ = execute(node, default_table[0], default_table[1], default_table[2], outer_tables, params, text_of)
        else:
            n2, r2, _ = execute(node, [], [], None, outer_tables, params, text_of)
        if len(n2) != 1:
            raise RefError('IN sub-query must have one column')
        return [r[0] for r in r2]

    default_table = (columns, rows, coltypes)
    if tables is not None and 'postings' in tables:
        default_table = tables['postings']

    def env(r):
        d = dict(zip(columns, r))
        d['$subquery'] = subquery
        if params is not None:
            d['$params'] = params
        return d

    def evalrow(node, r, agg=None):
        d = env(r)
        if agg is not None:
            d['$agg'] = agg
        return refexpr.ev(node, d)

    # targets
    if isinstance(sel.targets, ast.Asterisk):
        targets = [ast.Target(ast.Column(c), None) for c in columns]
    else:
        targets = list(sel.targets)
    names = [target_name(t, text_of) for t in targets]
    texprs = [t.expression for t in targets]

    selected = [r for r in rows if sel.where_clause is None or evalrow(sel.where_clause, r) is True]

    def resolve(item, what):
        """GROUP BY / ORDER BY item -> ('target', index) or ('expr', node)."""
        if isinstance(item, int):
            if not 1 <= item <= len(targets):
                raise RefError(f'{what} index out of range')
            return ('target', item - 1)
        if isinstance(item, ast.Column) and item.name in names:
            return ('target', names.index(item.name))
        for i, e in enumerate(texprs):
            if e == item:
                return ('target', i)
        return ('expr', item)

    gb = sel.group_by
    aggregate_query = gb is not None or any(has_agg(e) for e in texprs)
    info = {'aggregate': aggregate_query}

    order_items = []
    if sel.order_by:
        for ob in sel.order_by:
            order_items.append((resolve(ob.column, 'ORDER BY'), ob.ordering))

    # records: list of (target values, order key values)
    records = []
    if not aggregate_query:
        for r in selected:
            vals = [evalrow(e, r) for e in texprs]
            keys = [vals[ref[1]] if ref[0] == 'target' else evalrow(ref[1], r) for ref, _ in order_items]
            records.append((vals, keys))
    else:
        if gb is not None:
            key_refs = [resolve(c, 'GROUP BY') for c in gb.columns]
            having = gb.having
        else:
            key_refs = [('target', i) for i, e in enumerate(texprs) if not has_agg(e)]
            having = None

        def keyvalue(ref, r):
            return evalrow(texprs[ref[1]], r) if ref[0] == 'target' else evalrow(ref[1], r)

        groups = {}
        order = []
        for r in selected:
            k = tuple(_hashable(keyvalue(ref, r)) for ref in key_refs)
            if k not in groups:
                groups[k] = []
                order.append(k)
            groups[k].append(r)
        if not key_refs and not selected:
            order = []       # a selection with no qualifying row yields no output row
        info['groups'] = len(order)
        info['null_key_groups'] = sum(1 for k in order if any(x == ('N',) for x in k))
        info['having_rejected'] = 0
        for k in order:
            grows = groups[k]
            agg = {}
            exprs_with_aggs = list(texprs) + [ref[1] for ref, _ in order_items if ref[0] == 'expr'] + ([having] if having is not None else [])
            for e in exprs_with_aggs:
                for call in aggregates_in(e):
                    agg[id(call)] = fold(call, grows, evalrow, coltypes)
            rep = grows[0]
            if having is not None:
                hv = evalrow(having, rep, agg)
                if not hv:
                    info['having_rejected'] += 1
                    continue
            vals = [evalrow(e, rep, agg) for e in texprs]
            keys = [vals[ref[1]] if ref[0] == 'target' else evalrow(ref[1], rep, agg) for ref, _ in order_items]
            records.append((vals, keys))

    if order_items:
        def cmp(a, b):
            for (x, y, (_, direction)) in zip(a[1], b[1], order_items):
                c = cmp_null(x, y)
                if c:
                    return -c if direction == ast.Ordering.DESC else c
            return 0
        records = sorted(records, key=functools.cmp_to_key(cmp))     # sorted() is stable

    out = [tuple(vals) for vals, _ in records]
    if sel.distinct:
        seen = set()
        uniq = []
        for r in out:
            h = tuple(_hashable(v) for v in r)
            if h not in seen:
                seen.add(h)
                uniq.append(r)
        info['distinct_removed'] = len(out) - len(uniq)
        out = uniq
    if sel.limit is not None:
        info['limit_cut'] = max(0, len(out) - sel.limit)
        out = out[:sel.limit]
    return names, out, info


def _hashable(v):
    """Group / DISTINCT identity: equality of values as BQL sees them (1 = 1.0 as numbers; NULL is
    an ordinary key distinct from every value)."""
    if v is None:
        return ('N',)
    if isinstance(v, bool):
        return ('b', v)
    if isinstance(v, (int, D)):
        return ('n', D(v))
    if isinstance(v, (set, frozenset)):
        return ('s', frozenset(v))
    if isinstance(v, list):
        return ('l', tuple(_hashable(i) for i in v))
    if isinstance(v, dict):
        return ('d', tuple(sorted((k, _hashable(x)) for k, x in v.items())))
    return (type(v).__name__, v)
