"""Reference calendar model for C18 (and any other check that needs date laws).

Everything is derived from two stdlib primitives only:

  * the proleptic Gregorian *ordinal* of a date (``date.toordinal`` / ``date.fromordinal``;
    ordinal 1 = 0001-01-01, a Monday), and
  * ``calendar.isleap`` / ``calendar.monthrange`` for month lengths.

Nothing here imports ``dateutil`` or ``beanquery``.  ``selftest()`` cross-checks the hand-written
ISO-week, weekday and month arithmetic against the *other* stdlib implementations
(``date.isocalendar``, ``calendar.weekday``, ``date.weekday``) so that an error in this file is
reported as a harness error and never as a violation of the implementation under test.

Conventions (stated because the property text does not spell them out):

  * weeks start on Monday (ISO 8601; ``date_part('week')`` is the ISO week number and the
    ISO year is the year of the week's Thursday);
  * decades are ``y // 10`` (2000..2009), centuries and millennia are counted from year 1
    (the 20th century is 1901..2000, the 3rd millennium starts 2001-01-01) -- the PostgreSQL
    convention which beanquery's documentation and tests follow;
  * adding months keeps the day of the month and clips it to the length of the target month.
"""
import calendar
import datetime

DATE = datetime.date

TRUNC_UNITS = ('week', 'month', 'quarter', 'year', 'decade', 'century', 'millennium')
PART_FIELDS = ('weekday', 'dow', 'isoweekday', 'isodow', 'week', 'month', 'quarter', 'year', 'isoyear',
               'decade', 'century', 'millennium', 'epoch')
DAY_ABBR = ('Mon', 'Tue', 'Wed', 'Thu', 'Fri', 'Sat', 'Sun')   # C locale, Monday first

_EPOCH_ORDINAL = DATE(1970, 1, 1).toordinal()


def days_in_month(y, m):
    return calendar.monthrange(y, m)[1]


def weekday(d):
    """0 = Monday ... 6 = Sunday, from the ordinal alone (ordinal 1 is a Monday)."""
    return (d.toordinal() + 6) % 7


def add_days(d, n):
    return DATE.fromordinal(d.toordinal() + n)


def diff_days(a, b):
    return a.toordinal() - b.toordinal()


def month_index(d):
    """Months since year 0, month 1."""
    return d.year * 12 + (d.month - 1)


def add_months(d, n):
    """Calendar month arithmetic: same day of month n months later, clipped to the month length."""
    idx = month_index(d) + n
    y, m = idx // 12, idx % 12 + 1
    return DATE(y, m, min(d.day, days_in_month(y, m)))


def apply_interval(d, months, days):
    """date + (months, days): months first (with clipping), then days -- calendar arithmetic."""
    return add_days(add_months(d, months), days)


def first_of_unit(unit, d):
    """First day of the calendar unit that contains d."""
    if unit == 'week':
        return add_days(d, -weekday(d))
    if unit == 'month':
        return DATE(d.year, d.month, 1)
    if unit == 'quarter':
        return DATE(d.year, (1, 1, 1, 4, 4, 4, 7, 7, 7, 10, 10, 10)[d.month - 1], 1)
    if unit == 'year':
        return DATE(d.year, 1, 1)
    if unit == 'decade':
        return DATE(d.year // 10 * 10, 1, 1)
    if unit == 'century':
        return DATE((d.year - 1) // 100 * 100 + 1, 1, 1)
    if unit == 'millennium':
        return DATE((d.year - 1) // 1000 * 1000 + 1, 1, 1)
    raise KeyError(unit)


def next_unit_start(unit, start):
    """First day of the unit following the unit that starts at ``start``."""
    if unit == 'week':
        return add_days(start, 7)
    months = {'month': 1, 'quarter': 3, 'year': 12, 'decade': 120, 'century': 1200, 'millennium': 12000}[unit]
    idx = month_index(start) + months
    if idx // 12 > 9999:
        return None
    return DATE(idx // 12, idx % 12 + 1, 1)


def iso_year_week(d):
    """ISO 8601 (year, week): the week belongs to the year of its Thursday; week 1 contains Jan 4."""
    thursday = d.toordinal() - weekday(d) + 3
    y = DATE.fromordinal(thursday).year
    jan1 = DATE(y, 1, 1).toordinal()
    return y, (thursday - jan1) // 7 + 1


def part(field, d):
    if field in ('weekday', 'dow'):
        return weekday(d)
    if field in ('isoweekday', 'isodow'):
        return weekday(d) + 1
    if field == 'week':
        return iso_year_week(d)[1]
    if field == 'month':
        return d.month
    if field == 'quarter':
        return (1, 1, 1, 2, 2, 2, 3, 3, 3, 4, 4, 4)[d.month - 1]
    if field == 'year':
        return d.year
    if field == 'isoyear':
        return iso_year_week(d)[0]
    if field == 'decade':
        return d.year // 10
    if field == 'century':
        return (d.year - 1) // 100 + 1
    if field == 'millennium':
        return (d.year - 1) // 1000 + 1
    if field == 'epoch':
        return (d.toordinal() - _EPOCH_ORDINAL) * 86400
    raise KeyError(field)


def quarter_label(d):
    return '%04d-Q%d' % (d.year, part('quarter', d))


def bin_days(d, origin, n):
    """Start of the n-day bin aligned to origin that contains d (closed form)."""
    k = (d.toordinal() - origin.toordinal()) // n      # floor division
    return add_days(origin, k * n)


def bin_months(d, origin, n):
    """Start of the n-month bin aligned to origin (origin.day <= 28) that contains d (closed form)."""
    assert origin.day <= 28
    months = month_index(d) - month_index(origin) - (1 if d.day < origin.day else 0)
    k = months // n                                     # floor division
    return add_months(origin, k * n)


def selftest(lo=DATE(1899, 1, 1), hi=DATE(2102, 12, 31)):
    """Cross-check this module against the other stdlib implementations; returns #comparisons."""
    n = 0
    o = lo.toordinal()
    prev = None
    while o <= hi.toordinal():
        d = DATE.fromordinal(o)
        assert weekday(d) == calendar.weekday(d.year, d.month, d.day) == d.weekday(), d
        iso = d.isocalendar()
        assert iso_year_week(d) == (iso[0], iso[1]) and weekday(d) + 1 == iso[2], d
        for u in TRUNC_UNITS:
            f = first_of_unit(u, d)
            nx = next_unit_start(u, f)
            assert f <= d < nx, (u, d)
            assert first_of_unit(u, f) == f and first_of_unit(u, add_days(nx, -1)) == f and first_of_unit(u, nx) == nx, (u, d)
        assert first_of_unit('week', d).weekday() == 0
        assert part('epoch', d) == int((d - DATE(1970, 1, 1)).total_seconds())
        if prev is not None:
            assert add_days(prev, 1) == d and diff_days(d, prev) == 1
        if d.day == 1:
            # month arithmetic: +1 month from every day of the previous month never skips a month
            for k in (-13, -12, -1, 0, 1, 11, 12, 25):
                e = add_months(d, k)
                assert e.day == 1 and month_index(e) == month_index(d) + k
            last = add_days(d, -1)
            assert last.day == days_in_month(last.year, last.month)
            assert add_months(last, 1).day == min(last.day, days_in_month(d.year, d.month))
        n += 1
        prev = d
        o += 1
    # bins: brute-force definition on a small window
    origin = DATE(2000, 1, 15)
    for n_ in (1, 2, 3, 6, 12, 24):
        starts = [add_months(origin, k * n_) for k in range(-40, 41)]
        for off in range(-800, 800):
            d = add_days(origin, off)
            b = bin_months(d, origin, n_)
            assert b in starts and b <= d < add_months(b, n_), (n_, d, b)
    for n_ in (1, 2, 3, 7, 30):
        for off in range(-100, 100):
            d = add_days(origin, off)
            b = bin_days(d, origin, n_)
            assert b <= d < add_days(b, n_) and diff_days(b, origin) % n_ == 0
    return n
