"""Reference static checker for BQL statements (property C05).

Written from the property text and from the *declared* signatures found in the live registries
(``query_compile.OPERATORS`` / ``FUNCTIONS``: ``__intypes__`` of every overload, the result type an
overload announces when it is instantiated on operands of the declared types, and whether it is an
aggregator; ``types.ALIASES`` / ``Structure.columns`` for attribute access; the declared column types
of the tables of a connection).  Nothing of ``beanquery.compiler`` is imported or called.  Because the
signatures are read from the live registries a legitimately added function is never an alarm; the
committed ``signatures_snapshot.json`` is the lower bound (see ``snapshot_items``).

The rules (C05, ``/verif/properties.jsonl``)
-------------------------------------------
A statement is accepted exactly when

  R-table        the FROM table exists;
  R-column       every column name resolves in the table of the (sub-)select it occurs in;
  R-function     every function call has an overload for its operand types;
  R-operator     every operator has an overload for its operand types (R-operator-in: the right operand of
                 IN / NOT IN is a collection -- set, list, dict -- or a sub-select);
  R-attribute    ``x.name``: x has a structured type that has the attribute;
  R-subscript    ``x['k']``: x is subscriptable (dict or a subclass);
  R-where-agg / R-from-agg / R-groupkey-agg    no aggregate in WHERE, FROM, or a grouping key
                 (a key may neither be nor reference -- by position or name -- an aggregate target);
  R-agg-of-agg   no aggregate call below an aggregate call;
  R-mixed-target / R-mixed-having / R-mixed-orderby   no target, HAVING or ORDER BY expression that
                 contains both an aggregate and a column outside every aggregate;
  R-coverage     in a query with a GROUP BY clause every non-aggregate target, and in every aggregate
                 query (GROUP BY clause or aggregate target) every non-aggregate ORDER BY expression,
                 is one of the grouping keys (without GROUP BY clause the non-aggregate targets of an
                 aggregate query are the -- implicit -- grouping keys);
  R-groupby-index / R-orderby-index / R-pivot-index   positional references lie in 1..n, n = number of
                 targets written in the SELECT list;
  R-having       HAVING contains an aggregate;
  R-pivot-name / R-pivot-distinct / R-pivot-grouped   PIVOT BY names are target names, the two
                 columns differ, the query is an aggregate query and the second is a grouping key;
  R-coalesce     all COALESCE arguments have the same type;
  R-hashable     grouping keys have a hashable type;
  R-in-arity     a sub-select right of IN has exactly one column;
  R-open-close   OPEN date not after CLOSE date;
  R-params       positional placeholders: as many parameters; named: every name supplied; not mixed.

Verdicts: ``ACCEPT`` (no rule violated), ``REJECT`` (at least one rule violated; all violated rules
are listed), ``EITHER`` (no rule violated for certain but the property is silent or ambiguous about
something in the statement -- the implementation may accept or reject, only the exception class is
checked).  Sources of EITHER (weakest readings, each one named in ``Verdict.open``):

  reading        "an overload for the operand types" may mean the exact operand types or any of their
                 supertypes (bool under int, Inventory under dict ...; the NULL literal is untyped:
                 exactly NoneType, or ``object``).  Both readings are evaluated; when they disagree the
                 question is left open.  The implicit cast of an ``object`` operand of a binary
                 operator to the type of the other operand (int -> decimal; only bool, date, decimal,
                 int, str have casts) belongs to both readings; for BETWEEN it belongs only to the
                 second one.
  in-untyped     right operand of IN typed ``object`` or NULL (may hold a collection at run time).
  scalar-subselect   a sub-select used anywhere but as FROM or right of IN.
  subselect-default-table   a sub-select without FROM (which table it reads is not specified).
  coalesce-empty / coalesce-null   COALESCE without arguments / with a NULL literal among typed ones.
  orderby-agg-plain   aggregate in ORDER BY of a query that has neither GROUP BY nor aggregate target.
  duplicate-name  reference by name to a target name that occurs twice.
  shadowed-name   GROUP BY / ORDER BY name that is both a target alias and a column of the table.
  params-extra / params-unused   named parameters nobody asks for / parameters without placeholders.
  limit-huge      LIMIT beyond 2**31.
  outtype        the result type of an overload cannot be read from the registry.
"""
import collections
import collections.abc
import dataclasses
import datetime
import decimal
import importlib
import itertools

from beanquery import query_compile as _qc      # registries only (declared signatures)
from beanquery import types as _bt              # Any, Asterisk, Structure, ALIASES
from beanquery.parser import ast                # node classes only

ACCEPT, REJECT, EITHER = 'accept', 'reject', 'either'
NoneType = type(None)
Decimal = decimal.Decimal

# Types that have a cast function (property text): an ``object`` operand can be cast to these.
CASTS = {bool: 'bool', datetime.date: 'date', Decimal: 'decimal', int: 'int', str: 'str'}


class _Unknown:
    """dtype of an expression whose type could not be established (an error was already recorded
    below it, or the question is open)."""
    __name__ = '?'

    def __repr__(self):
        return '<unknown>'


UNKNOWN = _Unknown()


class Verdict:
    __slots__ = ('verdict', 'rules', 'open', 'names', 'types', 'loci')

    def __init__(self, rules, open_, names=None, types_=None, loci=()):
        self.loci = list(loci)
        self.rules = sorted(set(rules))
        self.open = sorted(set(open_))
        self.verdict = REJECT if self.rules else (EITHER if self.open else ACCEPT)
        self.names = names
        self.types = types_

    def __repr__(self):
        return f'Verdict({self.verdict}, rules={self.rules}, open={self.open})'


class TableInfo:
    """Schema of a table: declared column types and the columns ``*`` stands for."""
    __slots__ = ('columns', 'wildcard')

    def __init__(self, columns, wildcard=None):
        self.columns = dict(columns)
        self.wildcard = list(wildcard) if wildcard is not None else list(self.columns)


class Env:
    """Tables visible to a statement.  ``default`` is the table of a statement without FROM table."""

    def __init__(self, tables, default='postings'):
        self.tables = tables
        self.default = default

    @classmethod
    def from_connection(cls, conn, default='postings'):
        tabs = {}
        for name, t in conn.tables.items():
            cols = getattr(t, 'columns', None)
            if cols is None:
                continue
            tabs[name] = TableInfo({n: c.dtype for n, c in cols.items()}, list(t.wildcard_columns))
        return cls(tabs, default)


# ---------------------------------------------------------------------------------------------------
# declared signatures

class _Operand:
    """Stand-in operand used to read the result type an overload announces."""
    __slots__ = ('dtype',)

    def __init__(self, dtype):
        self.dtype = dtype

    def __call__(self, row):            # never evaluated
        raise NotImplementedError


def function_overloads(name):
    return list(_qc.FUNCTIONS.get(name, ()))        # .get: the registry is a defaultdict, do not add keys


def operator_overloads(op):
    return list(_qc.OPERATORS.get(op, ()))


def function_names():
    return sorted(n for n, v in _qc.FUNCTIONS.items() if v)


_AGG_CACHE = {}


def is_aggregate_name(name):
    r = _AGG_CACHE.get(name)
    if r is None:
        r = _AGG_CACHE[name] = _is_aggregate_name(name)
    return r


def _is_aggregate_name(name):
    return any(isinstance(ov, type) and issubclass(ov, _qc.EvalAggregator) for ov in function_overloads(name))


def intypes(ov):
    return list(ov.__intypes__)


def announced(ov, argtypes, function):
    """Result type announced by overload ``ov`` for operands of types ``argtypes`` (None if unreadable)."""
    try:
        ops = [_Operand(t) for t in argtypes]
        node = ov(None, ops) if function else ov(*ops)
        return node.dtype
    except Exception:
        return None


def _is_value_type(t):
    # `*` is never a value, however the implementation happens to represent it (it must not be read off the
    # implementation's object: a class there would make `*` match every `Any` slot here too)
    return isinstance(t, type) and t is not _bt.Asterisk


def _slot_matches(declared, t):
    if declared is _bt.Any:
        return _is_value_type(t)            # `*` is not a value
    return declared is t


def _sig_matches(sig, ts):
    return len(sig) == len(ts) and all(_slot_matches(d, t) for d, t in zip(sig, ts))


def supertypes(t):
    """Second reading: the operand type and its proper supertypes, ``object`` (= untyped) excluded;
    the NULL literal is untyped."""
    if t is NoneType:
        return (object,)
    if not _is_value_type(t):
        return (t,)
    mro = t.__mro__
    if len(mro) > 1 and mro[-1] is object:
        return mro[:-1]
    return mro


def resolve_exact(overloads, ts):
    for ov in overloads:
        if _sig_matches(intypes(ov), ts):
            return ov, tuple(ts)
    return None


def resolve_super(overloads, ts):
    for view in itertools.product(*(supertypes(t) for t in ts)):
        for ov in overloads:
            if _sig_matches(intypes(ov), view):
                return ov, tuple(ts)
    return None


def _cast_target(other):
    target = Decimal if other is int else other
    return target if target in CASTS else None


def _with_casts(resolver, overloads, lt, rt, untyped):
    """Binary operator resolution with the implicit cast of an untyped operand."""
    for _ in range(3):
        hit = resolver(overloads, [lt, rt])
        if hit:
            return hit
        if lt in untyped and rt not in untyped:
            target = _cast_target(rt)
            if target is None:
                return None
            lt = target
            continue
        if rt in untyped and lt not in untyped:
            target = _cast_target(lt)
            if target is None:
                return None
            rt = target
            continue
        return None
    return None


def resolve_call(overloads, ts):
    """(first reading, second reading) for unary operators and functions."""
    return resolve_exact(overloads, ts), resolve_super(overloads, ts)


def resolve_binary(overloads, lt, rt):
    a = _with_casts(resolve_exact, overloads, lt, rt, (object,))
    b = _with_casts(resolve_super, overloads, lt, rt, (object, NoneType))
    return a, b


def resolve_between(overloads, ts):
    a = resolve_exact(overloads, ts)
    b = resolve_super(overloads, ts)
    if not b and any(t in (object, NoneType) for t in ts):
        typed = [t for t in ts if t not in (object, NoneType)]
        if typed:
            target = _cast_target(typed[0])
            if target is not None:
                b = resolve_super(overloads, [target if t in (object, NoneType) else t for t in ts])
    return a, b


# ---------------------------------------------------------------------------------------------------
# AST helpers (own walkers: dataclass fields, never the `walk` of the implementation)

_FIELDS = {}


def _field_names(cls):
    names = _FIELDS.get(cls)
    if names is None:
        names = _FIELDS[cls] = tuple(f.name for f in dataclasses.fields(cls) if f.name != 'parseinfo')
    return names


def fields(node):
    for name in _field_names(type(node)):
        yield name, getattr(node, name)


def subnodes(node):
    out = []
    for name in _field_names(type(node)):
        v = getattr(node, name)
        if isinstance(v, ast.Node):
            out.append(v)
        elif isinstance(v, list):         # TatSu hands out list subclasses
            for x in v:
                if isinstance(x, ast.Node):
                    out.append(x)
    return out


def walk_all(node):
    """Every node of a statement, sub-selects included."""
    yield node
    for c in subnodes(node):
        yield from walk_all(c)


META_FUNCTIONS = {'meta': ('meta',), 'entry_meta': ('entry',), 'any_meta': ('meta', 'entry')}


def _is_agg(node):
    return isinstance(node, ast.Function) and is_aggregate_name(node.fname)


def aggregates(node):
    """Outermost aggregate calls of an expression (sub-selects are separate statements)."""
    if isinstance(node, ast.Select) or not isinstance(node, ast.Node):
        return []
    if _is_agg(node):
        return [node]
    out = []
    for c in subnodes(node):
        out += aggregates(c)
    return out


def bare_columns(node):
    """Column reads outside every aggregate call (``meta(k)`` & co. read the meta / entry columns)."""
    if isinstance(node, ast.Select) or not isinstance(node, ast.Node) or _is_agg(node):
        return []
    if isinstance(node, ast.Column):
        return [node]
    out = []
    if isinstance(node, ast.Function) and node.fname in META_FUNCTIONS and function_overloads(node.fname):
        out.append(node)
    for c in subnodes(node):
        out += bare_columns(c)
    return out


def has_nested_aggregate(node):
    for a in aggregates(node):
        for c in subnodes(a):
            if aggregates(c):
                return True
    return False


def placeholders(stmt):
    return [n for n in walk_all(stmt) if isinstance(n, ast.Placeholder)]


# ---------------------------------------------------------------------------------------------------
# the checker

class Checker:
    def __init__(self, env, params=None):
        self.env = env
        self.params = params
        self.rules = []          # violated rules (certain)
        self.open = []           # open questions
        self.loci = []           # (rule, detail) for reports

    def bad(self, rule, detail=''):
        self.rules.append(rule)
        self.loci.append((rule, detail))
        return UNKNOWN

    def ask(self, what, detail=''):
        self.open.append(what)
        self.loci.append(('open:' + what, detail))
        return UNKNOWN

    # -- overloads
    def _decide(self, first, second, rule, detail, function):
        if bool(first) != bool(second):
            return self.ask('reading', detail)
        if not second:
            return self.bad(rule, detail)
        ov, ts = second
        out = announced(ov, ts, function)
        if out is None:
            return self.ask('outtype', detail)
        return out

    # -- expressions
    def typeof(self, node, table):
        t = type(node)
        if t is ast.Constant:
            return list if isinstance(node.value, list) else type(node.value)
        if t is ast.Column:
            dt = table.columns.get(node.name)
            if dt is None:
                return self.bad('R-column', node.name)
            return dt
        if t is ast.Placeholder:
            p = self.params
            if node.name == '':
                return self._param_type(p) if isinstance(p, (tuple, list)) and p else UNKNOWN
            if isinstance(p, dict) and node.name in p:
                return type(p[node.name])
            return UNKNOWN
        if t is ast.Asterisk:
            return _bt.Asterisk
        if t is ast.Select:
            self.ask('scalar-subselect')
            return UNKNOWN
        if t in (ast.And, ast.Or):
            for a in node.args:
                self.typeof(a, table)
            return bool
        if t is ast.Function:
            return self._function(node, table)
        if t is ast.Attribute:
            ot = self.typeof(node.operand, table)
            if ot is UNKNOWN:
                return UNKNOWN
            st = _bt.ALIASES.get(ot, ot)
            if not (_is_value_type(st) and issubclass(st, _bt.Structure)):
                return self.bad('R-attribute', f'{_name(ot)}.{node.name}: not structured')
            getter = st.columns.get(node.name)
            if getter is None:
                return self.bad('R-attribute', f'{_name(ot)}.{node.name}')
            return getter.dtype
        if t is ast.Subscript:
            ot = self.typeof(node.operand, table)
            if ot is UNKNOWN:
                return UNKNOWN
            if not (_is_value_type(ot) and issubclass(ot, dict)):
                return self.bad('R-subscript', _name(ot))
            return object
        if t is ast.Between:
            ts = [self.typeof(x, table) for x in (node.operand, node.lower, node.upper)]
            if UNKNOWN in ts:
                return UNKNOWN
            a, b = resolve_between(operator_overloads(ast.Between), ts)
            return self._decide(a, b, 'R-operator', 'Between[%s]' % ','.join(map(_name, ts)), False)
        if t in (ast.In, ast.NotIn):
            return self._in(node, table)
        if isinstance(node, ast.UnaryOp):
            ot = self.typeof(node.operand, table)
            if ot is UNKNOWN:
                return UNKNOWN
            a, b = resolve_call(operator_overloads(t), [ot])
            return self._decide(a, b, 'R-operator', f'{t.__name__}[{_name(ot)}]', False)
        if isinstance(node, ast.BinaryOp):
            lt = self.typeof(node.left, table)
            rt = self.typeof(node.right, table)
            if lt is UNKNOWN or rt is UNKNOWN:
                return UNKNOWN
            a, b = resolve_binary(operator_overloads(t), lt, rt)
            return self._decide(a, b, 'R-operator', f'{t.__name__}[{_name(lt)},{_name(rt)}]', False)
        self.ask('node', t.__name__)
        return UNKNOWN

    def _param_type(self, p):
        ts = {type(v) for v in p}
        return ts.pop() if len(ts) == 1 else UNKNOWN

    def _in(self, node, table):
        lt = self.typeof(node.left, table)
        if isinstance(node.right, ast.Select):
            info = self.select(node.right, nested=True)
            if info is not None and len(info[0]) != 1:
                self.bad('R-in-arity', f'{len(info[0])} columns')
            return bool
        rt = self.typeof(node.right, table)
        if lt is UNKNOWN or rt is UNKNOWN:
            return UNKNOWN
        if rt in (object, NoneType):
            return self.ask('in-untyped')
        a, b = resolve_call(operator_overloads(type(node)), [lt, rt])
        return self._decide(a, b, 'R-operator-in', f'{type(node).__name__}[{_name(lt)},{_name(rt)}]', False)

    def _function(self, node, table):
        name = node.fname
        ts = [self.typeof(a, table) for a in node.operands]
        if name == 'coalesce':
            if not ts:
                return self.ask('coalesce-empty')
            if UNKNOWN in ts:
                return UNKNOWN
            if len(set(ts)) > 1:
                if NoneType in ts:
                    return self.ask('coalesce-null')
                return self.bad('R-coalesce', ','.join(map(_name, ts)))
            return ts[0]
        ovs = function_overloads(name)
        if not ovs:
            return self.bad('R-function', f'{name}: unknown')
        if UNKNOWN in ts:
            return UNKNOWN
        a, b = resolve_call(ovs, ts)
        out = self._decide(a, b, 'R-function', '%s(%s)' % (name, ','.join(map(_name, ts))), True)
        if name in META_FUNCTIONS and out is not UNKNOWN:
            # meta(k) = meta[k], entry_meta(k) = entry.meta[k], any_meta(k) = both: column lookups
            for colname in META_FUNCTIONS[name]:
                ct = table.columns.get(colname)
                if ct is None:
                    out = self.bad('R-column', f'{colname} (read by {name}())')
                    continue
                if colname == 'entry':
                    st = _bt.ALIASES.get(ct, ct)
                    getter = st.columns.get('meta') if _is_value_type(st) and issubclass(st, _bt.Structure) else None
                    if getter is None:
                        out = self.bad('R-attribute', f'entry.meta (read by {name}())')
                        continue
                    ct = getter.dtype
                if not (_is_value_type(ct) and issubclass(ct, dict)):
                    out = self.bad('R-subscript', f'{colname} (read by {name}())')
        return out

    # -- statements
    def statement(self, stmt):
        phs = placeholders(stmt)
        p = self.params
        if phs:
            names = {x.name for x in phs}
            if all(names):
                if isinstance(p, dict):
                    if names - set(p):
                        self.bad('R-params', 'missing name')
                    elif set(p) - names:
                        self.ask('params-extra')
                else:
                    self.ask('params-container')
            elif not any(names):
                if isinstance(p, (tuple, list)):
                    if len(p) != len(phs):
                        self.bad('R-params', f'{len(phs)} placeholders, {len(p)} parameters')
                else:
                    self.ask('params-container')
            else:
                self.bad('R-params', 'mixed')
        elif p:
            self.ask('params-unused')
        if isinstance(stmt, ast.Select):
            return self.select(stmt)
        self.ask('statement-kind', type(stmt).__name__)
        return None

    def _from(self, sel, nested):
        f = sel.from_clause
        env = self.env
        if f is None or isinstance(f, ast.From):
            if nested:
                self.ask('subselect-default-table')
            table = env.tables.get(env.default)
            if table is None:
                self.ask('no-default-table')
                return None
            if isinstance(f, ast.From):
                if f.expression is not None:
                    self.typeof(f.expression, table)
                    if aggregates(f.expression):
                        self.bad('R-from-agg')
                if isinstance(f.open, datetime.date) and isinstance(f.close, datetime.date) and f.open > f.close:
                    self.bad('R-open-close', f'{f.open} > {f.close}')
            return table
        if isinstance(f, ast.Table):
            table = env.tables.get(f.name)
            if table is None:
                self.bad('R-table', f.name)
            return table
        if isinstance(f, ast.Select):
            info = self.select(f)
            if info is None:
                return None
            names, types_ = info
            if len(set(names)) != len(names) or None in names:
                self.ask('duplicate-name', 'sub-select columns')
                return None
            return TableInfo(dict(zip(names, types_)))
        self.ask('node', type(f).__name__)
        return None

    def select(self, sel, nested=False):
        """Returns (names, types) of the visible columns, or None when the table is unknown."""
        table = self._from(sel, nested)
        if table is None:
            # nothing can be resolved without a table; what can be said without one is said below
            table = _NoTable()

        # targets
        if isinstance(sel.targets, ast.Asterisk):
            targets = [ast.Target(ast.Column(n), None) for n in table.wildcard]
        else:
            targets = list(sel.targets)
        n = len(targets)
        ttypes, tnames, tagg = [], [], []
        for tg in targets:
            e = tg.expression
            ttypes.append(self.typeof(e, table))
            tnames.append(tg.name if tg.name is not None else (e.name if isinstance(e, ast.Column) else None))
            ag = aggregates(e)
            tagg.append(bool(ag))
            if ag and bare_columns(e):
                self.bad('R-mixed-target')
            if has_nested_aggregate(e):
                self.bad('R-agg-of-agg')

        def by_name(name):
            """index of the target called ``name``; None; or 'open'"""
            hits = [i for i, x in enumerate(tnames) if x == name]
            if not hits:
                return None
            if len(hits) > 1:
                self.ask('duplicate-name', name)
                return 'open'
            if name in table.columns and not (isinstance(targets[hits[0]].expression, ast.Column)
                                              and targets[hits[0]].expression.name == name):
                self.ask('shadowed-name', name)
                return 'open'
            return hits[0]

        # WHERE
        if sel.where_clause is not None:
            self.typeof(sel.where_clause, table)
            if aggregates(sel.where_clause):
                self.bad('R-where-agg')

        # GROUP BY
        grouped_targets = set()       # indexes of targets that are grouping keys
        key_exprs = []                # expressions of the grouping keys
        open_keys = False
        gb = sel.group_by
        if gb is not None:
            for item in gb.columns:
                idx = None
                if isinstance(item, int) and not isinstance(item, bool):
                    if not 1 <= item <= n:
                        self.bad('R-groupby-index', str(item))
                        continue
                    idx = item - 1
                else:
                    if isinstance(item, ast.Column):
                        idx = by_name(item.name)
                        if idx == 'open':
                            open_keys = True
                            continue
                    if idx is None:
                        kt = self.typeof(item, table)
                        if aggregates(item):
                            self.bad('R-groupkey-agg', 'expression')
                            continue
                        key_exprs.append(item)
                        for i, tg in enumerate(targets):
                            if tg.expression == item:
                                grouped_targets.add(i)
                        self._hashable(kt)
                        continue
                if tagg[idx]:
                    self.bad('R-groupkey-agg', 'reference')
                    continue
                grouped_targets.add(idx)
                key_exprs.append(targets[idx].expression)
                self._hashable(ttypes[idx])
            if gb.having is not None:
                self.typeof(gb.having, table)
                ag = aggregates(gb.having)
                if not ag:
                    self.bad('R-having')
                elif bare_columns(gb.having):
                    self.bad('R-mixed-having')
                if has_nested_aggregate(gb.having):
                    self.bad('R-agg-of-agg')

        aggregate_query = gb is not None or any(tagg)
        if gb is None and any(tagg):
            # implicit grouping keys
            for i in range(n):
                if not tagg[i]:
                    grouped_targets.add(i)
                    key_exprs.append(targets[i].expression)
        if gb is not None and not open_keys:
            for i in range(n):
                if not tagg[i] and i not in grouped_targets and not any(targets[i].expression == k for k in key_exprs):
                    self.bad('R-coverage', f'target {i + 1}')
        # targets whose expression is a grouping key are grouped as well
        for i in range(n):
            if not tagg[i] and any(targets[i].expression == k for k in key_exprs):
                grouped_targets.add(i)

        # ORDER BY
        for ob in (sel.order_by or []):
            item = ob.column
            idx = None
            if isinstance(item, int) and not isinstance(item, bool):
                if not 1 <= item <= n:
                    self.bad('R-orderby-index', str(item))
                continue        # a target: already checked
            if isinstance(item, ast.Column):
                idx = by_name(item.name)
                if idx is not None:
                    continue    # a target (or open)
            self.typeof(item, table)
            ag = aggregates(item)
            if ag:
                if bare_columns(item):
                    self.bad('R-mixed-orderby')
                if has_nested_aggregate(item):
                    self.bad('R-agg-of-agg')
                if not aggregate_query:
                    self.ask('orderby-agg-plain')
            elif aggregate_query and not open_keys:
                if not any(item == k for k in key_exprs) and not any(
                        item == targets[i].expression for i in grouped_targets):
                    self.bad('R-coverage', 'ORDER BY expression')

        # PIVOT BY
        if sel.pivot_by is not None:
            refs = []
            for item in sel.pivot_by.columns:
                if isinstance(item, int) and not isinstance(item, bool):
                    if not 1 <= item <= n:
                        self.bad('R-pivot-index', str(item))
                        refs.append(None)
                    else:
                        refs.append(item - 1)
                elif isinstance(item, ast.Column):
                    idx = by_name_plain(tnames, item.name, self)
                    if idx is None:
                        self.bad('R-pivot-name', item.name)
                    refs.append(None if idx == 'open' else idx)
                else:
                    self.ask('node', 'pivot item')
                    refs.append(None)
            if not aggregate_query:
                self.bad('R-pivot-grouped', 'not an aggregate query')
            elif len(refs) == 2 and all(isinstance(r, int) for r in refs):
                if refs[0] == refs[1]:
                    self.bad('R-pivot-distinct')
                elif refs[1] not in grouped_targets and not open_keys:
                    self.bad('R-pivot-grouped', 'second column is not a grouping key')

        if sel.limit is not None and sel.limit >= 2 ** 31:
            self.ask('limit-huge')
        return tnames, ttypes

    def _hashable(self, t):
        if t is UNKNOWN:
            return
        if not (_is_value_type(t) and issubclass(t, collections.abc.Hashable)):
            self.bad('R-hashable', _name(t))


def by_name_plain(tnames, name, checker):
    hits = [i for i, x in enumerate(tnames) if x == name]
    if not hits:
        return None
    if len(hits) > 1:
        checker.ask('duplicate-name', name)
        return 'open'
    return hits[0]


class _NoTable:
    """Placeholder schema when the FROM table does not resolve: every column is of unknown type and
    no further name error is reported for it (the table error is the finding)."""

    class _Cols(dict):
        def get(self, key, default=None):
            return UNKNOWN

        def __contains__(self, key):
            return False

    columns = _Cols()
    wildcard = []


def _name(t):
    return getattr(t, '__name__', repr(t))


def check(stmt, env, params=None):
    """Verdict of the reference for a statement AST."""
    c = Checker(env, params)
    info = c.statement(stmt)
    names, types_ = info if info else (None, None)
    return Verdict(c.rules, c.open, names, types_, c.loci)


def check_expression(node, table, env=None, params=None):
    """Verdict + type for one expression over a table schema (typing matrix)."""
    c = Checker(env or Env({}), params)
    t = c.typeof(node, table)
    return Verdict(c.rules, c.open, loci=c.loci), t


# ---------------------------------------------------------------------------------------------------
# signature snapshot (lower bound)

_SPECIAL = {'beanquery.types:Any': _bt.Any, 'beanquery.types:Asterisk': _bt.Asterisk, 'builtins:NoneType': NoneType}


def type_key(t):
    for k, v in _SPECIAL.items():
        if t is v:
            return k
    return f'{t.__module__}:{t.__qualname__}'


def type_from_key(key):
    if key in _SPECIAL:
        return _SPECIAL[key]
    mod, _, qual = key.partition(':')
    obj = importlib.import_module(mod)
    for part in qual.split('.'):
        obj = getattr(obj, part)
    return obj


ANY_REPRESENTATIVES = (int, str)


def snapshot_items():
    """The overloads of the live registries as JSON-able records:
    {'kind': 'operator'|'function'|'attribute', 'name', 'in': [type keys], 'out': type key}.
    ``Any`` slots are written once per representative type (the result may depend on the operand)."""
    out = []

    def concretise(sig):
        choices = [ANY_REPRESENTATIVES if t is _bt.Any else (t,) for t in sig]
        return itertools.product(*choices)

    for op, ovs in _qc.OPERATORS.items():
        for ov in ovs:
            for ts in concretise(intypes(ov)):
                r = announced(ov, ts, False)
                out.append({'kind': 'operator', 'name': op.__name__, 'in': [type_key(t) for t in ts],
                            'out': type_key(r) if r is not None else None})
    for name in function_names():
        for ov in function_overloads(name):
            for ts in concretise(intypes(ov)):
                r = announced(ov, ts, True)
                out.append({'kind': 'function', 'name': name, 'in': [type_key(t) for t in ts],
                            'out': type_key(r) if r is not None else None})
    for pytype, st in _bt.ALIASES.items():
        for attr, getter in st.columns.items():
            out.append({'kind': 'attribute', 'name': attr, 'in': [type_key(pytype)], 'out': type_key(getter.dtype)})
    out.sort(key=lambda d: (d['kind'], d['name'], d['in']))
    return out
