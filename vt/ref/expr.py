"""Reference three-valued evaluator over BQL ASTs.

Written from the property text (C01) -- it never imports beanquery's evaluator.  NULL is None.

* arithmetic, comparison, match, membership, BETWEEN and ordinary function calls are NULL-strict;
  division and modulo by zero give NULL; int/Decimal mixes promote to Decimal; int/int division is
  Decimal;
* AND stops at its first NULL-or-false operand (NULL -> NULL, false -> FALSE); OR is TRUE if any
  operand is true, else NULL if any is NULL, else FALSE; NOT NULL is TRUE; IS [NOT] NULL; COALESCE;
* date +/- int is day arithmetic, date - date the number of days.

``ev(node, row)``: row is a dict column-name -> value.  Aggregates are handled by ref.select which
passes their folded values through ``row['$agg'][id(node)]``.
"""
import datetime
import decimal
import re

from beanquery.parser import ast   # AST node classes only (data definitions)

D = decimal.Decimal


class RefError(Exception):
    """The reference cannot evaluate this (outside the modelled language)."""


def _cmp(op, x, y):
    if op is ast.Equal:
        return x == y
    if op is ast.NotEqual:
        return x != y
    if op is ast.Greater:
        return x > y
    if op is ast.GreaterEq:
        return x >= y
    if op is ast.Less:
        return x < y
    if op is ast.LessEq:
        return x <= y
    raise RefError(op)


def _isnum(x):
    return isinstance(x, (int, D)) and not isinstance(x, bool)


def binop(op, x, y):
    if x is None or y is None:
        return None
    if op in (ast.Add, ast.Sub, ast.Mul):
        if isinstance(x, datetime.date) and isinstance(y, int):
            if op is ast.Add:
                return x + datetime.timedelta(days=y)
            if op is ast.Sub:
                return x - datetime.timedelta(days=y)
            raise RefError('date*int')
        if isinstance(x, int) and isinstance(y, datetime.date):
            if op is ast.Add:
                return y + datetime.timedelta(days=x)
            raise RefError('int-date')
        if isinstance(x, datetime.date) and isinstance(y, datetime.date):
            if op is ast.Sub:
                return (x - y).days
            raise RefError('date+date')
        if op is ast.Add:
            return x + y
        if op is ast.Sub:
            return x - y
        return x * y
    if op is ast.Div:
        if y == 0:
            return None
        if isinstance(x, int) and isinstance(y, int):
            return D(x) / D(y)
        return x / y
    if op is ast.Mod:
        if y == 0:
            return None
        return x % y
    if op is ast.Match:
        return re.search(y, x, re.IGNORECASE) is not None
    if op is ast.NotMatch:
        return re.search(y, x, re.IGNORECASE) is None
    if op is ast.In:
        return x in y
    if op is ast.NotIn:
        return x not in y
    return _cmp(op, x, y)


# ---------------------------------------------------------------------------------------------
# total scalar functions used by C01/C02/C03/C09 (their laws are C18's business; here they serve
# to observe NULL-strict calls and composition).  Each entry: name -> python function over
# non-NULL arguments.

def _int(x):
    try:
        return int(x)
    except (ValueError, TypeError, OverflowError):
        return None


def _decimal(x):
    try:
        return D(x)
    except (ValueError, TypeError, decimal.InvalidOperation):
        return None


def _str(x):
    if x is True:
        return 'TRUE'
    if x is False:
        return 'FALSE'
    return str(x)


def _date(*a):
    if len(a) == 3:
        try:
            return datetime.date(*a)
        except ValueError:
            return None
    x, = a
    if isinstance(x, datetime.date):
        return x
    if isinstance(x, str):
        m = re.fullmatch(r'(\d{4})-(\d{1,2})-(\d{1,2})', x)
        if m:
            try:
                return datetime.date(int(m.group(1)), int(m.group(2)), int(m.group(3)))
            except ValueError:
                return None
    return None


def _root(acc, n=1):
    return ':'.join(acc.split(':')[:n])


def _parent(acc):
    parts = acc.split(':')
    return ':'.join(parts[:-1]) if acc else None


def _leaf(acc):
    return acc.split(':')[-1] if acc else None


FUNCS = {
    'bool': lambda x: bool(x),
    'int': _int,
    'decimal': _decimal,
    'str': _str,
    'date': _date,
    'neg': lambda x: -x,
    'abs': lambda x: abs(x),
    'round': lambda x, n=0: round(x, n),
    'safediv': lambda x, y: D(0) if y == 0 else x / y,
    'length': lambda x: len(x),
    'upper': lambda s: s.upper(),
    'lower': lambda s: s.lower(),
    'substr': lambda s, a, b: s[a:b],
    'year': lambda d: d.year,
    'month': lambda d: d.month,
    'day': lambda d: d.day,
    'quarter': lambda d: '%04d-Q%d' % (d.year, (d.month - 1) // 3 + 1),
    'weekday': lambda d: ['Mon', 'Tue', 'Wed', 'Thu', 'Fri', 'Sat', 'Sun'][d.weekday()],
    'yearmonth': lambda d: datetime.date(d.year, d.month, 1),
    'date_add': lambda d, n: d + datetime.timedelta(days=n),
    'date_diff': lambda a, b: (a - b).days,
    'root': _root,
    'parent': _parent,
    'leaf': _leaf,
}


def ev(node, row):
    t = type(node)
    if t is ast.Constant:
        return node.value
    if t is ast.Column:
        return row[node.name]
    if t is ast.And:
        for a in node.args:
            v = ev(a, row)
            if v is None:
                return None
            if v is False:
                return False
            if v is not True:
                # operands of other types count by their truth value (0, 0.00 and '' are false); the result is a boolean
                if not isinstance(v, (int, D, str, datetime.date)):
                    raise RefError('AND over an operand without a defined truth value')
                if not v:
                    return False
        return True
    if t is ast.Or:
        seen_null = False
        for a in node.args:
            v = ev(a, row)
            if v is True:
                return True
            if v is None:
                seen_null = True
            elif v is not False:
                if not isinstance(v, (int, D, str, datetime.date)):
                    raise RefError('OR over an operand without a defined truth value')
                if v:
                    return True
        return None if seen_null else False
    if t is ast.Not:
        v = ev(node.operand, row)
        if v is None:
            return True          # NOT NULL is TRUE (property C01)
        if v is True:
            return False
        if v is False:
            return True
        raise RefError('NOT over non-boolean')
    if t is ast.IsNull:
        return ev(node.operand, row) is None
    if t is ast.IsNotNull:
        return ev(node.operand, row) is not None
    if t is ast.Neg:
        v = ev(node.operand, row)
        return None if v is None else -v
    if t is ast.Between:
        x = ev(node.operand, row)
        lo = ev(node.lower, row)
        hi = ev(node.upper, row)
        if x is None or lo is None or hi is None:
            return None
        return lo <= x <= hi
    if t in (ast.In, ast.NotIn) and isinstance(node.right, ast.Select):
        # membership in the sub-query's single output column; NULL when x is NULL or no row (C08)
        x = ev(node.left, row)
        vals = row['$subquery'](node.right)
        if x is None or not vals:
            return None
        return (x in vals) if t is ast.In else (x not in vals)
    if isinstance(node, ast.BinaryOp):
        return binop(t, ev(node.left, row), ev(node.right, row))
    if t is ast.Function:
        if '$agg' in row and id(node) in row['$agg']:
            return row['$agg'][id(node)]
        if node.fname == 'coalesce':
            for a in node.operands:
                v = ev(a, row)
                if v is not None:
                    return v
            return None
        f = FUNCS.get(node.fname)
        if f is None:
            raise RefError(f'function {node.fname}')
        args = [ev(a, row) for a in node.operands]
        if any(a is None for a in args):
            return None
        return f(*args)
    if t is ast.Placeholder:
        return row['$params'][node.name]
    raise RefError(t.__name__)
