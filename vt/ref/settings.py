"""Reference model of the shell's settings store (property C19).

Deliberately boring and independent of ``beanquery.shell``: a frozen dataclass with nine typed fields,
three value parsers and the rules "a valid value replaces exactly that field, anything else is an
error and changes nothing".  Nothing here imports beanquery.

Weakest-reading decisions encoded here (the property text does not fix the concrete syntax):

* Which spellings are booleans is not specified.  ``true/false/1/0/on/off/yes/no`` in any letter case
  are *certainly* booleans, words that no boolean parser would take (``garbage``, the empty string ...)
  are *certainly not*; the single letters ``t f y n`` are *either*: the implementation may take them
  (then with the obvious meaning) or reject them (then with an error and no change).
* Formats: ``text`` and ``csv`` are certainly valid, a menu of junk words is certainly invalid,
  an upper-case spelling of a valid name is *either*.  Every string is a valid ``nullvalue``.
* A setting name that differs from a real one only in letter case is *either*.
* How a value is echoed is not specified beyond "echoed back": a line that starts with the setting's
  name, a separator (``:``/``=``/blank) and a spelling of the value that this model's own parsers map
  back to the value (booleans: any certain spelling; strings: bare, ``repr`` or double-quoted).
* Default values are not part of the property: the initial model state is read from the real object
  (and type-checked); the model only describes how states evolve.
"""
import dataclasses
import itertools
import json

BOOL, FORMAT, STR = 'bool', 'format', 'str'

#: name -> kind.  The nine settings of the shell (DESIGN.md C19 / property text).
FIELDS = {
    'boxed': BOOL,
    'expand': BOOL,
    'format': FORMAT,
    'narrow': BOOL,
    'nullvalue': STR,
    'numberify': BOOL,
    'pager': BOOL,
    'spaced': BOOL,
    'unicode': BOOL,
}

TRUE_WORDS = frozenset({'true', '1', 'on', 'yes'})
FALSE_WORDS = frozenset({'false', '0', 'off', 'no'})
MAYBE_TRUE = frozenset({'t', 'y'})
MAYBE_FALSE = frozenset({'f', 'n'})
FORMATS = ('text', 'csv')

#: options each renderer is given (all of them are settings; the renderer decides which ones it uses)
RENDER_OPTIONS = ('boxed', 'spaced', 'expand', 'narrow', 'nullvalue', 'unicode')


@dataclasses.dataclass(frozen=True)
class SettingsModel:
    boxed: bool
    expand: bool
    format: str
    narrow: bool
    nullvalue: str
    numberify: bool
    pager: bool
    spaced: bool
    unicode: bool

    @classmethod
    def from_observed(cls, observed):
        """Initial state = what the real object shows, checked against the declared kinds."""
        vals = {}
        for name, kind in FIELDS.items():
            if name not in observed:
                raise ValueError(f'the settings object has no setting {name!r}')
            v = observed[name]
            if kind == BOOL and type(v) is not bool:
                raise ValueError(f'setting {name!r} is {v!r}, expected a bool')
            if kind == FORMAT and v not in FORMATS:
                raise ValueError(f'setting {name!r} is {v!r}, expected one of {FORMATS}')
            if kind == STR and type(v) is not str:
                raise ValueError(f'setting {name!r} is {v!r}, expected a str')
            vals[name] = v
        return cls(**vals)

    def asdict(self):
        return {name: getattr(self, name) for name in FIELDS}

    def key(self):
        return tuple(getattr(self, name) for name in FIELDS)

    def replace(self, name, value):
        return dataclasses.replace(self, **{name: value})

    def distance(self, other):
        return sum(1 for n in FIELDS if getattr(self, n) != getattr(other, n))


VALID, INVALID, EITHER = 'valid', 'invalid', 'either'


def classify_value(kind, text):
    """-> (VALID, value) | (EITHER, value) | (INVALID, None) for a value text of a setting kind."""
    if kind == BOOL:
        norm = text.lower()
        if norm in TRUE_WORDS:
            return VALID, True
        if norm in FALSE_WORDS:
            return VALID, False
        if norm.strip() in MAYBE_TRUE or (norm != norm.strip() and norm.strip() in TRUE_WORDS):
            return EITHER, True
        if norm.strip() in MAYBE_FALSE or (norm != norm.strip() and norm.strip() in FALSE_WORDS):
            return EITHER, False
        return INVALID, None
    if kind == FORMAT:
        if text in FORMATS:
            return VALID, text
        if text.strip().lower() in FORMATS:
            return EITHER, text.strip().lower()
        return INVALID, None
    if kind == STR:
        return VALID, text
    raise AssertionError(kind)


def resolve_name(name):
    """-> (VALID, field) | (EITHER, field) | (INVALID, None)."""
    if name in FIELDS:
        return VALID, name
    for f in FIELDS:
        if f == name.lower():
            return EITHER, f
    return INVALID, None


@dataclasses.dataclass(frozen=True)
class Outcome:
    model: SettingsModel
    error: bool          # an error message is required (and nothing changes)


def assign(model, name, text):
    """Admissible outcomes of ``.set NAME VALUE`` (one, or two where the reading is open)."""
    nverdict, field = resolve_name(name)
    if nverdict == INVALID:
        return [Outcome(model, True)]
    vverdict, value = classify_value(FIELDS[field], text)
    if vverdict == INVALID:
        return [Outcome(model, True)]
    accepted = Outcome(model.replace(field, value), False)
    if nverdict == VALID and vverdict == VALID:
        return [accepted]
    return [accepted, Outcome(model, True)]


def verdict(name, text):
    """Coarse classification used for counters and fingerprints."""
    nverdict, field = resolve_name(name)
    if nverdict == INVALID:
        return 'unknown-name'
    vverdict, _ = classify_value(FIELDS[field], text)
    if nverdict == EITHER and vverdict != INVALID:
        return EITHER
    return vverdict


# -- echo ---------------------------------------------------------------------------------------------

def _names(line, name):
    """Does the line start with NAME followed by a separator?  Returns the remainder or None."""
    if not line.startswith(name):
        return None
    rest = line[len(name):]
    if rest and rest[0] not in ':= \t':
        return None
    return rest.lstrip(' \t').removeprefix(':').removeprefix('=').strip()


def looks_like_echo(name, stdout):
    """A line of the form ``NAME: ...`` / ``NAME = ...`` -- what a successful ``.set NAME`` prints."""
    for line in stdout.splitlines():
        if line.startswith(name) and line[len(name):].lstrip(' \t')[:1] in (':', '='):
            return True
    return False


def value_spellings_match(kind, value, text):
    if kind == BOOL:
        norm = text.lower()
        return norm in (TRUE_WORDS if value else FALSE_WORDS)
    spellings = {value, repr(value), '"' + value + '"', json.dumps(value)}
    return text in spellings


def check_echo_one(model, name, stdout):
    """Problems (strings) with the output of ``.set NAME`` for an existing setting."""
    hits = [(line, _names(line, name)) for line in stdout.splitlines()]
    hits = [(line, rest) for line, rest in hits if rest is not None]
    value = getattr(model, name)
    if len(hits) != 1:
        return [f'expected exactly one line echoing {name} = {value!r}, got {stdout!r}']
    line, rest = hits[0]
    if not value_spellings_match(FIELDS[name], value, rest):
        return [f'setting {name} is {value!r} but is echoed as {line!r}']
    return []


def check_echo_all(model, stdout):
    """Problems with the output of a bare ``.set``: every setting exactly once, with its value."""
    problems = []
    for name in FIELDS:
        problems += check_echo_one(model, name, stdout)
    return problems


# -- rendering plan -------------------------------------------------------------------------------------

def render_plan(model):
    """What the current settings select: renderer, numberify, renderer options, empty-result marker."""
    return {
        'format': model.format,
        'numberify': model.numberify,
        'options': {name: getattr(model, name) for name in RENDER_OPTIONS},
        'empty_marker': '(empty)\n' if model.format == 'text' else None,
    }


def plan_key(model):
    return (model.format, model.numberify) + tuple(getattr(model, n) for n in RENDER_OPTIONS)


def state_space(initial, nullvalues):
    """All model states over the value menus (for the closure claim: 2^7 x 2 x len(nullvalues))."""
    names = list(FIELDS)
    doms = []
    for n in names:
        if FIELDS[n] == BOOL:
            doms.append((False, True))
        elif FIELDS[n] == FORMAT:
            doms.append(FORMATS)
        else:
            doms.append(tuple(dict.fromkeys((getattr(initial, n),) + tuple(nullvalues))))
    return [SettingsModel(**dict(zip(names, combo))) for combo in itertools.product(*doms)]
