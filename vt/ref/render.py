"""Reference *reader* of beanquery's text and CSV renderings (C16) and value helpers shared with C17.

Nothing here calls beanquery's renderers to compute an expectation: the module reads the emitted text
back (frame -> column spans -> cells -> values) and compares with the values that were rendered.
Beancount's data model (Amount, Position, Cost, Inventory, loader, DisplayContext construction) is trusted.

Display context.  The "ledger's display precision" is taken from a real ledger loaded with
``beancount.loader``; every currency of the value alphabets occurs in it with exactly ONE number of
fractional digits, so the precision is unambiguous and is restated independently in ``PRECISION``
(cross-checked at import: a mismatch is a harness error, not a verdict).
"""
import ast as pyast
import csv
import datetime
import io
import json
import re
from decimal import Decimal

from beancount import loader
from beancount.core import amount, inventory, position

D = Decimal
Amount = amount.Amount
Position = position.Position
Cost = position.Cost
Inventory = inventory.Inventory

# -- display context ---------------------------------------------------------------------------------

LEDGER = """
2020-01-01 open Assets:A
2020-01-01 open Assets:B
2020-01-01 open Income:X
2020-01-02 * "usd"
  Assets:A   1.00 USD
  Income:X  -1.00 USD
2020-01-03 * "hool at cost"
  Assets:A   1.123 HOOL {2.50 USD}
  Income:X  -2.81 USD
2020-01-04 * "eur"
  Assets:B   7 EUR
  Income:X  -7 EUR
2020-01-05 * "gbp"
  Assets:B   1.50 GBP
  Income:X  -1.50 GBP
2020-01-06 * "cad"
  Assets:B   2.25 CAD
  Income:X  -2.25 CAD
2020-01-07 * "jpy"
  Assets:B   100 JPY
  Income:X  -100 JPY
"""

# fractional digits every number of that currency has in LEDGER
PRECISION = {'USD': 2, 'HOOL': 3, 'EUR': 0, 'GBP': 2, 'CAD': 2, 'JPY': 0}

_DC = None


def display_context():
    """DisplayContext of the loaded LEDGER (what ``options['dcontext']`` is for a real connection)."""
    global _DC
    if _DC is None:
        entries, errors, options = loader.load_string(LEDGER)
        if errors:
            raise RuntimeError(f'harness ledger does not load: {errors!r}')
        dc = options['dcontext']
        for cur, p in PRECISION.items():
            got = dc.quantize(D('1.23456789'), cur).as_tuple().exponent
            if got != -p:
                raise RuntimeError(f'harness: display precision of {cur} is {-got}, PRECISION says {p}')
        _DC = dc
    return _DC


# A second ledger in which the most common and the maximum number of fractional digits of a currency differ
# (USD: 2 digits five times, 4 digits once; HOOL 3 / 5; EUR 0 / 1), for formatters built with Precision.MAXIMUM.
LEDGER_MIXED = """
2020-01-01 open Assets:A
2020-01-01 open Income:X
2020-01-02 * "usd"
  Assets:A   1.00 USD
  Income:X  -1.00 USD
2020-01-03 * "usd"
  Assets:A   2.50 USD
  Income:X  -2.50 USD
2020-01-04 * "usd, once with four digits"
  Assets:A   0.1234 USD
  Income:X  -0.12 USD
  Income:X  -0.0034 USD
2020-01-05 * "hool"
  Assets:A   1.123 HOOL {2.50 USD}
  Assets:A   2.000 HOOL {2.50 USD}
  Assets:A   0.00005 HOOL {2.50 USD}
  Income:X
2020-01-06 * "eur"
  Assets:A   7 EUR
  Assets:A   3 EUR
  Assets:A   0.5 EUR
  Income:X
"""
PRECISION_MIXED_COMMON = {'USD': 2, 'HOOL': 3, 'EUR': 0}
PRECISION_MIXED_MAXIMUM = {'USD': 4, 'HOOL': 5, 'EUR': 1}

_FORMATTERS = {}


def formatter(kind):
    """-> (DisplayFormatter or None, {currency: fractional digits it must quantise to}).
    kinds: 'none', 'default' (LEDGER, dcontext.build() as run_query does), 'mixed-common' (LEDGER_MIXED, build()),
    'mixed-maximum' (LEDGER_MIXED, build(precision=Precision.MAXIMUM))."""
    if kind == 'none':
        return None, None
    if kind not in _FORMATTERS:
        from beancount.core.display_context import Precision
        if kind == 'default':
            fmt, prec = display_context().build(), PRECISION
        else:
            entries, errors, options = loader.load_string(LEDGER_MIXED)
            if errors:
                raise RuntimeError(f'harness ledger does not load: {errors!r}')
            if kind == 'mixed-common':
                fmt, prec = options['dcontext'].build(), PRECISION_MIXED_COMMON
            elif kind == 'mixed-maximum':
                fmt, prec = options['dcontext'].build(precision=Precision.MAXIMUM), PRECISION_MIXED_MAXIMUM
            else:
                raise ValueError(kind)
        for cur in ('USD', 'HOOL', 'EUR'):
            got = fmt.quantize(D('1.23456789'), cur).as_tuple().exponent
            if got != -prec[cur]:
                raise RuntimeError(f'harness: formatter {kind} quantises {cur} to {-got} digits, the table says {prec[cur]}')
        _FORMATTERS[kind] = (fmt, prec)
    return _FORMATTERS[kind]


FORMATTER_KINDS = ('none', 'default', 'mixed-common', 'mixed-maximum')


# -- value constructors and JSON coding --------------------------------------------------------------

def A(num, cur):
    return Amount(D(num), cur)


def C(num, cur, date=datetime.date(2020, 1, 3), label=None):
    return Cost(D(num), cur, date, label)


def P(num, cur, cost=None):
    return Position(A(num, cur), cost)


def I(*positions):
    return Inventory(list(positions))


DTYPES = {
    'int': int, 'decimal': Decimal, 'str': str, 'date': datetime.date, 'bool': bool, 'set': set, 'dict': dict,
    'object': object, 'amount': Amount, 'position': Position, 'cost': Cost, 'inventory': Inventory,
}
DTNAME = {v: k for k, v in DTYPES.items()}


def enc(v):
    """Value -> JSON (lossless for everything the alphabets contain)."""
    if v is None or isinstance(v, (bool, int, str)):
        return v
    if isinstance(v, Decimal):
        return {'$dec': str(v)}
    if isinstance(v, datetime.date):
        return {'$date': [v.year, v.month, v.day]}
    if isinstance(v, Amount):
        return {'$amt': [str(v.number), v.currency]}
    if isinstance(v, Cost):
        return {'$cost': [str(v.number), v.currency, enc(v.date), v.label]}
    if isinstance(v, Position):
        return {'$pos': [enc(v.units), enc(v.cost)]}
    if isinstance(v, Inventory):
        return {'$inv': [enc(p) for p in v.get_positions()]}
    if isinstance(v, (set, frozenset)):
        return {'$fset': sorted(v)}
    if isinstance(v, dict):
        return {'$dict': [[k, enc(x)] for k, x in v.items()]}
    raise TypeError(f'cannot encode {v!r}')


def dec(x):
    if x is None or isinstance(x, (bool, int, str)):
        return x
    (tag, val), = x.items()
    if tag == '$dec':
        return Decimal(val)
    if tag == '$date':
        return datetime.date(*val)
    if tag == '$amt':
        return Amount(Decimal(val[0]), val[1])
    if tag == '$cost':
        return Cost(Decimal(val[0]), val[1], dec(val[2]), val[3])
    if tag == '$pos':
        return Position(dec(val[0]), dec(val[1]))
    if tag == '$inv':
        return Inventory([dec(p) for p in val])
    if tag == '$fset':
        return frozenset(val)
    if tag == '$dict':
        return {k: dec(v) for k, v in val}
    raise ValueError(x)


def show(v):
    """Short human readable form for messages."""
    if isinstance(v, Inventory):
        return 'Inventory(' + ', '.join(str(p) for p in v.get_positions()) + ')'
    if isinstance(v, (Amount, Position)):
        return str(v)
    return repr(v)


# -- reading numbers back ----------------------------------------------------------------------------

_NUM = r'[-+]?(?:\d+(?:\.\d*)?|\.\d+)'
_CUR = r"[A-Z][A-Z0-9'._-]*"
POS_RE = re.compile(rf'({_NUM})\s+({_CUR})(?:\s*\{{\s*({_NUM})\s+({_CUR})\s*\}})?')
AMT_RE = re.compile(rf'^({_NUM})\s+({_CUR})$')
COST_RE = re.compile(rf'^({_NUM})\s+({_CUR})(?:\s*,\s*(\d+-\d+-\d+))?(?:\s*,\s*"(.*)")?$')


def shown_number_ok(numstr, number, cur):
    """numstr shows ``number`` at the display precision of ``cur``: exactly PRECISION[cur] fractional
    digits and within half a unit of the last place (the rounding rule is not specified)."""
    p = PRECISION[cur]
    frac = len(numstr.split('.', 1)[1]) if '.' in numstr else 0
    if frac != p:
        return False
    try:
        d = Decimal(numstr)
    except ArithmeticError:
        return False
    return abs(d - number) * 2 <= Decimal(1).scaleb(-p)


def read_amount(cell, v):
    m = AMT_RE.match(cell)
    if not m:
        return f'{cell!r} is not "<number> <currency>"'
    if m.group(2) != v.currency or not shown_number_ok(m.group(1), v.number, v.currency):
        return f'{cell!r} does not read back to {v} at {PRECISION[v.currency]} fractional digits'
    return None


def _pos_matches(groups, pos):
    num, cur, cnum, ccur = groups
    if cur != pos.units.currency or not shown_number_ok(num, pos.units.number, cur):
        return False
    if pos.cost is None:
        return cnum is None
    if cnum is None:
        return False
    return ccur == pos.cost.currency and shown_number_ok(cnum, pos.cost.number, ccur)


def read_position(cell, v):
    m = POS_RE.fullmatch(cell)
    if not m:
        return f'{cell!r} is not "<number> <currency> [{{<number> <currency>}}]"'
    if not _pos_matches(m.groups(), v):
        return f'{cell!r} does not read back to {v} (units and per-unit cost at display precision)'
    return None


def read_positions(text, positions, what):
    """All positions shown in ``text`` (tabular or one per line) = the multiset of ``positions``."""
    found = [m.groups() for m in POS_RE.finditer(text)]
    rest = POS_RE.sub('', text)
    if rest.strip(' ,\n'):
        return f'{text!r} contains {rest.strip()!r} besides positions'
    todo = list(positions)
    for g in found:
        for i, pos in enumerate(todo):
            if _pos_matches(g, pos):
                del todo[i]
                break
        else:
            return f'{text!r} shows {g!r} which is not a lot of {show(what)}'
    if todo:
        return f'{text!r} does not show {[str(p) for p in todo]} of {show(what)}'
    return None


def read_cost(cell, v):
    m = COST_RE.match(cell)
    if not m:
        return f'{cell!r} is not "<number> <currency>[, date][, "label"]"'
    num, cur, date, label = m.groups()
    if cur != v.currency or not shown_number_ok(num, v.number, cur):
        return f'{cell!r} does not read back to cost {v.number} {v.currency}'
    if v.date is not None and (date is None or read_date(date) != v.date):
        return f'{cell!r} does not show the cost date {v.date}'
    if v.label is not None and label != v.label:
        return f'{cell!r} does not show the cost label {v.label!r}'
    return None


def read_date(s):
    try:
        y, m, d = s.split('-')
        return datetime.date(int(y), int(m), int(d))
    except ValueError:
        return None


def read_bool(s):
    return {'true': True, 'false': False}.get(s.lower())


def read_scalar(dtype, v, cell, listsep):
    """cell (already stripped) reads back to v.  Returns None or a message."""
    if dtype is bool or (dtype is object and isinstance(v, bool)):
        return None if read_bool(cell) is v else f'{cell!r} does not read back to {v!r}'
    if dtype is int or (dtype is object and isinstance(v, int)):
        try:
            ok = int(cell) == v
        except ValueError:
            ok = False
        return None if ok else f'{cell!r} does not read back to int {v!r}'
    if dtype is Decimal or (dtype is object and isinstance(v, Decimal)):
        try:
            ok = Decimal(cell) == v
        except ArithmeticError:
            ok = False
        return None if ok else f'{cell!r} does not read back to {v!r}'
    if dtype is str or (dtype is object and isinstance(v, str)):
        return None if cell == v else f'{cell!r} does not read back to {v!r}'
    if dtype is datetime.date or (dtype is object and isinstance(v, datetime.date)):
        return None if read_date(cell) == v else f'{cell!r} does not read back to {v!r}'
    if dtype is set:
        items = sorted(str(x) for x in v)
        got = sorted(cell.split(listsep)) if cell else []
        return None if got == items else f'{cell!r} does not list exactly {items!r} separated by {listsep!r}'
    if dtype is dict or (dtype is object and isinstance(v, dict)):
        for parse in (pyast.literal_eval, json.loads):
            try:
                if parse(cell) == v:
                    return None
            except (ValueError, SyntaxError):
                pass
        return f'{cell!r} does not read back to {v!r}'
    if dtype is Amount:
        return read_amount(cell, v)
    if dtype is Position:
        return read_position(cell, v)
    if dtype is Cost:
        return read_cost(cell, v)
    if dtype is Inventory:
        return read_positions(cell, v.get_positions(), v)
    raise AssertionError(dtype)


def dot_offset(dtype, cell):
    """Offset, inside the full-width cell, of the decimal point of the number shown (for a number without
    a point: the offset just after its last digit).  None = exempt (scientific notation)."""
    if dtype is Decimal:
        tok = cell.strip()
        start = len(cell) - len(cell.lstrip())
    else:   # Amount: the number is the first token
        body = cell.lstrip()
        start = len(cell) - len(body)
        tok = body.split(None, 1)[0] if body else ''
    if not tok or 'E' in tok or 'e' in tok:
        return None
    i = tok.find('.')
    return start + (i if i >= 0 else len(tok))


def _dot(m, g):
    tok = m.group(g)
    i = tok.find('.')
    return m.start(g) + (i if i >= 0 else len(tok))


def lot_offsets(cell):
    """For every position shown in the full-width cell, in order of appearance:
    (units currency, j = how many lots of that currency precede it in the cell,
     offsets of (units decimal point, units currency symbol), same for the cost or None)."""
    out, seen = [], {}
    for m in POS_RE.finditer(cell):
        cur = m.group(2)
        j = seen.get(cur, 0)
        seen[cur] = j + 1
        cost = (_dot(m, 3), m.start(4)) if m.group(3) is not None else None
        out.append((cur, j, (_dot(m, 1), m.start(2)), cost))
    return out


# -- reading the text frame --------------------------------------------------------------------------

FILL = '-─'
VBAR = '|│'


class Problem(Exception):
    def __init__(self, locus, message):
        super().__init__(message)
        self.locus = locus
        self.message = message


def read_text(text, ncols, boxed, unicode):
    """-> (spans, header_cells, body) where body is a list of per-line cell lists.  Raises Problem."""
    if not text.endswith('\n'):
        raise Problem('line-width', 'output does not end with a newline')
    lines = text[:-1].split('\n')
    widths = sorted({len(ln) for ln in lines})
    if len(widths) != 1:
        bad = next(i for i, ln in enumerate(lines) if len(ln) != len(lines[0]))
        raise Problem('line-width', f'lines have different widths {widths}: line 0 has {len(lines[0])}, line {bad} has {len(lines[bad])}')
    if len(lines) < (4 if boxed else 2):
        raise Problem('frame', f'only {len(lines)} lines: no header/rule')
    if boxed:
        rules = [lines[0], lines[2], lines[-1]]
        hdr, body = lines[1], lines[3:-1]
    else:
        rules = [lines[1]]
        hdr, body = lines[0], lines[2:]
    if not unicode and not all(r.isascii() for r in rules):
        raise Problem('frame', f'non-ASCII frame without the unicode option: {rules[0]!r}')
    if boxed:
        juncs = None
        for r in rules:
            j = [i for i, ch in enumerate(r) if ch not in FILL]
            if any(r[i] == ' ' or r[i].isalnum() for i in j) or not j or j[0] != 0 or j[-1] != len(r) - 1:
                raise Problem('frame', f'rule line {r!r} is not junction/fill')
            if juncs is not None and j != juncs:
                raise Problem('frame', f'rule lines disagree on the column offsets: {rules!r}')
            juncs = j
        if any(b - a < 4 for a, b in zip(juncs, juncs[1:])):
            raise Problem('frame', f'a column of {rules[0]!r} has no room for a cell')
        spans = [(a + 2, b - 1) for a, b in zip(juncs, juncs[1:])]
    else:
        r = rules[0]
        spans = [(m.start(), m.end()) for m in re.finditer('[' + FILL + ']+', r)]
        if re.sub('[' + FILL + ']', ' ', r).strip():
            raise Problem('frame', f'rule line {r!r} contains something else than rules and blanks')
        juncs = None
    if len(spans) != ncols:
        raise Problem('frame', f'{len(spans)} column spans on the rule line {rules[0]!r} for {ncols} columns')

    def cells(ln, what):
        if boxed:
            for i in juncs:
                if ln[i] not in VBAR:
                    raise Problem('cell-outside-span', f'{what} {ln!r}: offset {i} should hold a column separator')
            for a, b in spans:
                if ln[a - 1] != ' ' or ln[b] != ' ':
                    raise Problem('cell-outside-span', f'{what} {ln!r}: the cell at [{a}:{b}] spills into the separator')
        else:
            pos = 0
            for a, b in spans:
                if ln[pos:a].strip():
                    raise Problem('cell-outside-span', f'{what} {ln!r}: text outside the column spans {spans}')
                pos = b
            if ln[pos:].strip():
                raise Problem('cell-outside-span', f'{what} {ln!r}: text outside the column spans {spans}')
        return [ln[a:b] for a, b in spans]

    header = cells(hdr, 'header line')
    return spans, header, [cells(ln, f'body line {i}') for i, ln in enumerate(body)]


def check_header(name, cell, narrow):
    """-> None or (locus, message)."""
    w = len(cell)
    if len(name) <= w:
        if cell.strip() != name:
            return ('header', f'header cell {cell!r} does not show the column name {name!r} although it fits')
        left = w - len(cell.lstrip())
        right = w - len(cell.rstrip())
        if abs(left - right) > 1:
            return ('header-centre', f'header {cell!r} is not centred ({left} blanks left, {right} right)')
        return None
    if not narrow:
        return ('header-cut', f'header {name!r} is cut to {cell!r} although narrow mode is off')
    if cell not in name:
        return ('header-cut', f'narrow header cell {cell!r} is not {name!r} cut to the column width {w}')
    return None


def read_csv(text):
    return list(csv.reader(io.StringIO(text)))


def tokens(s):
    return [t for t in re.split(r'[\s,]+', s) if t]
