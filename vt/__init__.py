"""Bounded-exhaustive model checking framework for beancount/beanquery (see /verif/DESIGN.md)."""
