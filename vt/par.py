"""Deterministic sharded fork pool + mergeable accumulator."""
import collections
import multiprocessing
import os
import traceback

from .runner import Violation


class Acc:
    """Mergeable statistics of one exploration shard."""

    MAX_VIOL_PER_FP = 3

    def __init__(self):
        self.n = collections.Counter()       # named counters
        self.sets = collections.defaultdict(set)   # named sets of hashables (distinct outcomes, ...)
        self.samples = []
        self.violations = []
        self._fpcount = collections.Counter()

    def count(self, name, k=1):
        self.n[name] += k

    def add(self, name, item):
        self.sets[name].add(item)

    def sample(self, item, limit=6):
        if len(self.samples) < limit:
            self.samples.append(item)

    def violation(self, fingerprint, what, case):
        self._fpcount[fingerprint] += 1
        if self._fpcount[fingerprint] <= self.MAX_VIOL_PER_FP:
            self.violations.append(Violation(fingerprint, what, case))
        self.n['violating_cases'] += 1

    def merge(self, other):
        self.n.update(other.n)
        for k, s in other.sets.items():
            self.sets[k] |= s
        for s in other.samples:
            if len(self.samples) < 12:
                self.samples.append(s)
        for v in other.violations:
            self._fpcount[v.fingerprint] += 1
            if self._fpcount[v.fingerprint] <= self.MAX_VIOL_PER_FP:
                self.violations.append(v)
        return self


def _call(args):
    fn, shard, nshards, extra = args
    try:
        return fn(shard, nshards, *extra)
    except Exception:
        # A crash of the harness itself must not look like a clean run.
        raise RuntimeError(f'shard {shard}/{nshards} of {fn.__module__}.{fn.__name__} crashed:\n{traceback.format_exc()}')


def run_shards(fn, jobs, *extra, nshards=None):
    """Run fn(shard, nshards, *extra) -> Acc for every shard, merge in shard order (deterministic)."""
    jobs = max(1, jobs)
    nshards = nshards or jobs
    if jobs == 1 or os.environ.get('VERIF_NOFORK'):
        accs = [_call((fn, i, nshards, extra)) for i in range(nshards)]
    else:
        ctx = multiprocessing.get_context('fork')
        with ctx.Pool(jobs) as pool:
            accs = pool.map(_call, [(fn, i, nshards, extra) for i in range(nshards)], chunksize=1)
    total = Acc()
    for a in accs:
        total.merge(a)
    return total


def mine(index, shard, nshards):
    return index % nshards == shard
