"""E-sched: stateless model checking of real ``threading`` threads under a controlled scheduler.

CHESS-style systematic exploration, never random: the threads of one *execution* are real Python
threads, but exactly one of them holds the **baton** at any time; every other harness thread is
blocked on its own semaphore.  A thread gives the scheduler a chance to switch only at a
**scheduling point**: a call of :func:`point` (placed by the harness: a registered function, a table
iterator, or -- with ``trace_files`` -- before every source line executed in the given files through
``sys.settrace``), when it blocks on a modelled :class:`Lock`, or when its body returns.

Decisions.  At each decision the *enabled* threads are put in canonical order -- the running thread
first if it is still enabled, then ascending thread ids -- and the schedule gives an index into
that order; index 0 therefore always means "no preemption".  A schedule is a sparse map
``{decision number: index}`` (missing = 0).  Taking an index > 0 at a :func:`point` of a thread
that could have continued costs one **preemption**; switches when the running thread finished or
blocked are free.

Exploration.  Depth-first over choice prefixes: the all-zero schedule is executed to completion,
then for every decision ``k`` at or after the first open position and every alternative index the
prefix ``choices + {k: alt}`` is pushed, provided the preemption budget allows it.  Each
complete interleaving (within the budget) is executed exactly once; every execution runs to
completion.  While a prefix is re-executed the thread chosen and the number of options at each
decision must equal those of the parent execution: a diverging or out-of-range choice is a **hard
error of the harness** (:class:`HarnessError`), never a verdict -- it means the bodies are not
deterministic functions of the schedule.  ``no enabled thread while some are unfinished`` is a
**deadlock** and is reported in the outcome.  Decisions beyond ``horizon`` are still taken (default
0) but not branched on; the outcome says so.

Worker threads are daemons, joined with a timeout after every execution; a thread that neither
reaches a point nor finishes within ``timeout`` seconds is a hard error.  An exception escaping a
thread body is an observation (:class:`Exc`), not an error of the explorer.

Outside an execution (no harness thread) :func:`point` is a no-op and :class:`Lock` is an ordinary
lock, so the same bodies can be run serially to obtain reference results.

The module is generic over thread bodies; ``python -m vt.explore.sched`` runs :func:`selftest`.
"""
import math
import sys
import threading

RUNNABLE, BLOCKED, DONE = 0, 1, 2


class HarnessError(RuntimeError):
    """The harness (not the code under test) misbehaved: nondeterminism, stuck thread, bad prefix."""


class _Abort(BaseException):
    """Unwinds a harness thread when its execution is being torn down."""


_tl = threading.local()


def current():
    """The execution the calling thread belongs to, or None outside an exploration."""
    return getattr(_tl, 'ex', None)


def current_tid():
    return getattr(_tl, 'tid', None)


def point(tag=None):
    """Scheduling point.  No-op unless called from a harness thread of a running execution."""
    ex = getattr(_tl, 'ex', None)
    if ex is not None:
        ex._point(_tl.tid, tag)


class Exc:
    """An exception that escaped a thread body, as an observation."""

    def __init__(self, exc):
        self.exc = exc
        self.type = type(exc).__name__
        self.msg = str(exc)

    def key(self):
        return ('EXC', self.type, self.msg)

    def __eq__(self, other):
        return isinstance(other, Exc) and self.key() == other.key()

    def __hash__(self):
        return hash(self.key())

    def __repr__(self):
        return f'Exc({self.type}: {self.msg})'


class Lock:
    """Mutex visible to the scheduler (a real lock held by a descheduled thread would stall the baton)."""

    def __init__(self):
        self._owner = None
        self._real = threading.Lock()

    def acquire(self):
        ex = current()
        if ex is None:
            return self._real.acquire()
        tid = _tl.tid
        ex._point(tid, 'lock.acquire')
        while self._owner is not None:
            ex._block(tid, self)
        self._owner = tid
        return True

    def release(self):
        ex = current()
        if ex is None:
            return self._real.release()
        self._owner = None
        ex._wake(self)

    def __enter__(self):
        self.acquire()
        return self

    def __exit__(self, *a):
        self.release()


class _Gate:
    """Binary semaphore on a raw lock (much cheaper than threading.Semaphore): starts closed."""
    __slots__ = ('acquire', '_lock')

    def __init__(self):
        self._lock = threading.Lock()
        self._lock.acquire()
        self.acquire = self._lock.acquire

    def release(self):
        try:
            self._lock.release()
        except RuntimeError:       # already open (teardown releases every gate)
            pass


_TRACE_CACHE = {}


def _make_tracer(prefixes, ex, tid):
    """sys.settrace function for harness thread ``tid`` of execution ``ex``: a scheduling point before
    every line executed in files whose path starts with one of ``prefixes``."""
    cache = _TRACE_CACHE.setdefault(prefixes, {})
    point_ = ex._point

    def local_trace(frame, event, arg):
        if event == 'line':
            point_(tid, ('line', cache[frame.f_code], frame.f_lineno) if ex.tags is not None else None)
        return local_trace

    def global_trace(frame, event, arg):
        co = frame.f_code
        name = cache.get(co)
        if name is None:
            fn = co.co_filename
            name = cache[co] = fn.rsplit('/', 1)[-1] if fn.startswith(prefixes) else False
        return local_trace if name else None

    return global_trace


class Outcome:
    """What one execution did: per-thread results and the decisions taken."""

    __slots__ = ('results', 'trace', 'picks', 'branch', 'preemptive', 'deadlock', 'horizon_hit', 'npoints', 'tags')

    def choices(self):
        return {k: c for k, c in enumerate(self.picks) if c}

    @property
    def preemptions(self):
        return sum(1 for p, c in zip(self.preemptive, self.picks) if p and c)

    @property
    def switches(self):
        return sum(1 for a, b in zip(self.trace, self.trace[1:]) if a != b)


class Execution:
    """One run of the thread bodies under one schedule."""

    def __init__(self, bodies, choices=None, *, horizon=None, expect=None, trace_files=None, timeout=60.0,
                 record_tags=False):
        n = len(bodies)
        self.bodies = bodies
        self.n = n
        self.choices = dict(choices or {})
        self.horizon = horizon
        # (trace, branch[, upto]) of an execution sharing this prefix: verified decision by decision
        self.expect = expect
        self.expect_upto = 0 if expect is None else (expect[2] if len(expect) > 2 else len(expect[0]))
        self.timeout = timeout
        self.trace_files = tuple(trace_files) if trace_files else None
        self.nrunnable = n
        self.state = [RUNNABLE] * n
        self.blocked_on = [None] * n
        self.sems = [_Gate() for _ in range(n)]
        self.results = [None] * n
        self.trace, self.picks, self.branch, self.preemptive = [], [], [], []
        self.tags = [] if record_tags else None
        self.npoints = 0
        self.deadlock = None
        self.error = None
        self.aborted = False
        self.done = threading.Event()

    # -- decisions (always executed by the baton holder, or by the driver before the start) -------
    def _decide(self, running):
        nrun = self.nrunnable
        if nrun == 0:
            return None
        pre = running is not None and self.state[running] == RUNNABLE
        k = len(self.trace)
        c = self.choices.get(k, 0)
        if c == 0 and pre:
            t = running                     # no preemption: the running thread is first in canonical order
        else:
            enabled = [t for t in range(self.n) if self.state[t] == RUNNABLE]
            order = [running] + [t for t in enabled if t != running] if pre else enabled
            if c >= nrun:
                raise HarnessError(f'choice {c} at decision {k} is out of range: enabled threads {order} '
                                   f'(the schedule does not belong to this program, or the program is not deterministic)')
            t = order[c]
        if k < self.expect_upto:
            if self.expect[0][k] != t or self.expect[1][k] != nrun:
                raise HarnessError(f'execution diverged at decision {k}: thread {t} of {nrun} enabled, the recorded '
                                   f'execution had thread {self.expect[0][k]} of {self.expect[1][k]} (nondeterminism '
                                   f'not captured by the harness)')
        self.trace.append(t)
        self.picks.append(c)
        self.branch.append(nrun)
        self.preemptive.append(pre)
        return t

    def _fail(self, err):
        if self.error is None:
            self.error = err
        self._abort_all()

    def _abort_all(self):
        self.aborted = True
        for s in self.sems:
            s.release()
        self.done.set()

    def _handoff(self, frm, to):
        self.sems[to].release()
        self.sems[frm].acquire()
        if self.aborted:
            raise _Abort

    def _point(self, t, tag):
        if self.aborted:
            raise _Abort
        self.npoints += 1
        if self.tags is not None:
            self.tags.append((len(self.trace), t, tag))
        try:
            nxt = self._decide(t)
        except HarnessError as e:
            self._fail(e)
            raise _Abort from None
        if nxt != t:
            self._handoff(t, nxt)

    def _block(self, t, obj):
        self.state[t] = BLOCKED
        self.nrunnable -= 1
        self.blocked_on[t] = obj
        try:
            nxt = self._decide(None)
        except HarnessError as e:
            self._fail(e)
            raise _Abort from None
        if nxt is None:
            self._deadlock()
            raise _Abort
        self._handoff(t, nxt)

    def _wake(self, obj):
        for t in range(self.n):
            if self.state[t] == BLOCKED and self.blocked_on[t] is obj:
                self.state[t] = RUNNABLE
                self.nrunnable += 1
                self.blocked_on[t] = None

    def _deadlock(self):
        self.deadlock = [t for t in range(self.n) if self.state[t] == BLOCKED]
        self._abort_all()

    def _finish(self, t):
        self.state[t] = DONE
        self.nrunnable -= 1
        if self.aborted:
            return
        try:
            nxt = self._decide(None)
        except HarnessError as e:
            self._fail(e)
            return
        if nxt is not None:
            self.sems[nxt].release()
        elif all(s == DONE for s in self.state):
            self.done.set()
        else:
            self._deadlock()

    def _thread(self, i):
        _tl.ex, _tl.tid = self, i
        try:
            self.sems[i].acquire()
            if self.aborted:
                return
            try:
                if self.trace_files is not None:
                    sys.settrace(_make_tracer(self.trace_files, self, i))
                try:
                    res = self.bodies[i]()
                finally:
                    if self.trace_files is not None:
                        sys.settrace(None)
            except _Abort:
                return
            except HarnessError as e:
                self._fail(e)
                return
            except BaseException as e:      # an observation about the code under test
                res = Exc(e)
            self.results[i] = res
            self._finish(i)
        finally:
            _tl.ex = _tl.tid = None

    def run(self):
        if current() is not None:
            raise HarnessError('nested executions are not supported')
        threads = [threading.Thread(target=self._thread, args=(i,), daemon=True, name=f'sched-{i}') for i in range(self.n)]
        for th in threads:
            th.start()
        try:
            first = self._decide(None)
        except HarnessError as e:
            self._fail(e)
            first = None
        if first is not None:
            self.sems[first].release()
        elif not self.aborted:
            self.done.set()
        finished = self.done.wait(self.timeout)
        if not finished:
            self._abort_all()
        alive = []
        for th in threads:
            th.join(30.0 if finished else 1.0)
            if th.is_alive():
                alive.append(th.name)
        if not finished:
            raise HarnessError(f'no scheduling point or completion within {self.timeout}s after decisions {self.trace[-12:]} '
                               f'(thread blocked on something the scheduler does not model?); still alive: {alive}')
        if alive:
            raise HarnessError(f'threads left running after the execution: {alive}')
        if self.error is not None:
            raise self.error
        late = [k for k in self.choices if k >= len(self.trace)]
        if late:
            raise HarnessError(f'schedule positions {sorted(late)} were never reached: the execution made only '
                               f'{len(self.trace)} decisions (diverged from the recorded execution)')
        out = Outcome()
        out.results = self.results
        out.trace, out.picks, out.branch, out.preemptive = self.trace, self.picks, self.branch, self.preemptive
        out.deadlock = self.deadlock
        out.horizon_hit = self.horizon is not None and len(self.trace) > self.horizon
        out.npoints = self.npoints
        out.tags = self.tags
        return out


def run_schedule(bodies, choices=None, **kw):
    """Execute the bodies once under the given (sparse dict or dense list) schedule."""
    if isinstance(choices, (list, tuple)):
        choices = {k: c for k, c in enumerate(choices) if c}
    return Execution(bodies, choices, **kw).run()


def confirm(factory, out, key, times=2, **kw):
    """Re-execute the schedule of ``out`` ``times`` times from fresh bodies; decisions and observations
    must be identical, otherwise the harness is nondeterministic (HarnessError).  Returns the replays."""
    want = key(out)
    reps = []
    for i in range(times):
        rep = Execution(factory(), out.choices(), expect=(out.trace, out.branch), **kw).run()
        if rep.trace != out.trace or rep.branch != out.branch:
            raise HarnessError(f'replay {i + 1} took decisions {rep.trace}, the explored execution took {out.trace}')
        if key(rep) != want:
            raise HarnessError(f'replay {i + 1} of schedule {out.trace} gave different observations:\n  first: {want!r}\n'
                               f'  replay: {key(rep)!r}\n(nondeterminism not captured by the harness)')
        reps.append(rep)
    return reps


class Stats:
    def __init__(self):
        self.schedules = 0          # complete executions explored (each a distinct schedule)
        self.decisions = 0
        self.points = 0
        self.max_points = 0
        self.max_decisions = 0
        self.preempting = 0         # schedules with at least one preemption
        self.max_preemptions = 0
        self.pruned = 0             # alternatives not taken because of the preemption budget
        self.deadlocks = 0
        self.capped = False         # max_schedules reached
        self.unexplored = 0         # prefixes left on the stack when capped
        self.horizon_hit = False

    @property
    def complete(self):
        return not self.capped and not self.horizon_hit


def explore(factory, visit, *, preemption_bound=None, horizon=None, max_schedules=None, shard=(0, 1),
            trace_files=None, timeout=60.0):
    """Depth-first exploration of all schedules of ``factory()`` (a fresh list of thread bodies per
    execution) within the preemption budget; ``visit(outcome)`` is called for every execution.

    ``shard=(i, n)`` partitions the schedule tree deterministically.  *Structural* executions -- those
    whose choices are all free switches (who starts, who continues after a completion; there are at
    most (number of threads)! of them) -- are executed by every shard and owned round robin; the
    subtrees hanging off the first preemptive choice are dealt round robin to the shards.  The
    shards are disjoint and their union is the whole tree.  ``max_schedules`` caps the executions
    owned by *this* shard."""
    si, sn = shard
    st = Stats()
    stack = [({}, None, 0, True)]
    structural_seen = dealt = 0
    while stack:
        choices, expect, start, structural = stack.pop()
        if max_schedules is not None and st.schedules >= max_schedules:
            st.capped = True
            st.unexplored = len(stack) + 1
            break
        out = Execution(factory(), choices, horizon=horizon, expect=expect, trace_files=trace_files, timeout=timeout).run()
        mine = True
        if structural:
            mine = structural_seen % sn == si
            structural_seen += 1
        if mine:
            st.schedules += 1
            st.decisions += len(out.trace)
            st.points += out.npoints
            st.max_points = max(st.max_points, out.npoints)
            st.max_decisions = max(st.max_decisions, len(out.trace))
            pre = out.preemptions
            st.preempting += 1 if pre else 0
            st.max_preemptions = max(st.max_preemptions, pre)
            st.deadlocks += 1 if out.deadlock else 0
            st.horizon_hit = st.horizon_hit or out.horizon_hit
            visit(out)
        used = 0
        children = []
        limit = len(out.trace) if horizon is None else min(len(out.trace), horizon)
        for k in range(len(out.trace)):
            if start <= k < limit:
                cost = 1 if out.preemptive[k] else 0
                for alt in range(1, out.branch[k]):
                    if preemption_bound is None or used + cost <= preemption_bound:
                        child_structural = structural and cost == 0
                        if structural and not child_structural:
                            keep = dealt % sn == si
                            dealt += 1
                            if not keep:
                                continue
                        children.append((k, alt, child_structural))
                    elif mine:
                        st.pruned += 1
            if out.preemptive[k] and out.picks[k]:
                used += 1
        for k, alt, child_structural in reversed(children):
            nc = dict(choices)
            nc[k] = alt
            stack.append((nc, (out.trace, out.branch, k), k + 1, child_structural))
    return st


def interleavings(*segments):
    """Number of interleavings of threads with the given numbers of atomic segments (multinomial)."""
    total, r = sum(segments), 1
    for s in segments:
        r *= math.comb(total, s)
        total -= s
    return r


def selftest():
    """Known answers: schedule counts equal the multinomials, the lost update and a lock-order deadlock are
    found, preemption bounding prunes, sharding partitions, a nondeterministic body is a hard error."""
    facts = {}

    def counter_factory(npoints):
        def factory():
            box = {'x': 0}

            def body(n):
                def run():
                    for _ in range(n):
                        v = box['x']
                        point('rw')
                        box['x'] = v + 1
                    return box['x']
                return run
            return [body(n) for n in npoints]
        return factory

    for npoints in [(1, 1), (2, 3), (1, 1, 1), (2, 1, 1)]:
        outs = set()
        st = explore(counter_factory(npoints), lambda o: outs.add(tuple(o.results)))
        want = interleavings(*[n + 1 for n in npoints])
        if st.schedules != want:
            raise HarnessError(f'selftest: {st.schedules} schedules for {npoints} points, expected {want}')
        if len(outs) < 2:
            raise HarnessError('selftest: the lost update was not found')
        facts[f'schedules{npoints}'] = st.schedules
    # sharding is a partition (each schedule visited by exactly one shard)
    for npoints, bound, nshards in [((2, 3), None, 4), ((2, 1, 1), 2, 5), ((3, 3), 1, 3)]:
        whole = []
        explore(counter_factory(npoints), lambda o: whole.append(tuple(o.picks)), preemption_bound=bound)
        parts = []
        for i in range(nshards):
            explore(counter_factory(npoints), lambda o: parts.append(tuple(o.picks)), preemption_bound=bound, shard=(i, nshards))
        if sorted(parts) != sorted(whole) or len(set(parts)) != len(parts):
            raise HarnessError(f'selftest: {nshards} shards explored {len(parts)} schedules of {npoints}, expected a partition '
                               f'of {len(whole)}')
    facts['sharding'] = 'partition'
    # preemption bound: 0 preemptions on two threads = 2 schedules (who starts)
    st0 = explore(counter_factory((3, 3)), lambda o: None, preemption_bound=0)
    st1 = explore(counter_factory((3, 3)), lambda o: None, preemption_bound=1)
    if st0.schedules != 2 or not (st0.schedules < st1.schedules < interleavings(4, 4)) or st1.max_preemptions != 1:
        raise HarnessError(f'selftest: preemption bounding is wrong ({st0.schedules}, {st1.schedules})')
    facts['bound0'], facts['bound1'] = st0.schedules, st1.schedules

    # lock-order deadlock
    def lock_factory():
        a, b = Lock(), Lock()

        def t0():
            with a:
                with b:
                    return 'ab'

        def t1():
            with b:
                with a:
                    return 'ba'
        return [t0, t1]
    dl = []
    st = explore(lock_factory, lambda o: dl.append(o.trace) if o.deadlock else None)
    if not dl or st.deadlocks != len(dl) or st.deadlocks == st.schedules:
        raise HarnessError('selftest: the lock-order deadlock was not found')
    facts['deadlocks'] = (st.deadlocks, st.schedules)

    # exceptions are observations
    def boom_factory():
        def t0():
            point()
            raise ValueError('boom')
        return [t0, lambda: 1]
    seen = []
    explore(boom_factory, lambda o: seen.append(o.results[0]))
    if not all(isinstance(r, Exc) and r.type == 'ValueError' for r in seen):
        raise HarnessError('selftest: exception not propagated as observation')

    # hidden nondeterminism must be a hard error, not a verdict
    calls = {'n': 0}

    def flaky_factory():
        calls['n'] += 1
        extra = calls['n'] % 2

        def t0():
            for _ in range(1 + extra):
                point()
        return [t0, lambda: point()]
    try:
        explore(flaky_factory, lambda o: None)
    except HarnessError:
        facts['nondeterminism'] = 'hard error'
    else:
        raise HarnessError('selftest: a nondeterministic program was explored without complaint')
    try:
        run_schedule(counter_factory((1, 1))(), [0, 5])
    except HarnessError:
        pass
    else:
        raise HarnessError('selftest: out-of-range choice accepted')
    if threading.active_count() != 1:
        raise HarnessError(f'selftest: {threading.active_count() - 1} worker threads left running')
    return facts


if __name__ == '__main__':
    print(selftest())
