"""E-bfs: explicit-state breadth-first search over operation histories.

A *state* is represented by an event history reaching it.  For every expansion a fresh product
(real object + reference model) is built by the factory and the history is replayed on it (live
objects are never copied), then one more event is applied and every observation of the real object is
compared with the model.  States are deduplicated by ``product.canon()`` -- a hashable canonical
form of (real object state, model state).  When the frontier empties before ``max_depth`` the search
has reached **closure**: every history of any length over the alphabet leads to a visited state.
"""
import collections


class Stats:
    def __init__(self):
        self.states = 0
        self.transitions = 0
        self.replays = 0
        self.closed = False
        self.depth_completed = 0
        self.max_depth_seen = 0
        self.violations = []      # (history, event, fingerprint, message)
        self.dead = 0             # successors not expanded because model and implementation lost sync
        self.observations = 0
        self.sample_histories = []


def bfs(factory, events, max_depth=None, max_states=200000, enabled=None, stop_after_violations=None):
    """factory() -> product with .apply(event) -> list[(fingerprint, message)] | raises Desync,
    .canon() -> hashable, .observations (int counter, optional)."""
    st = Stats()
    p0 = factory()
    seen = {p0.canon()}
    frontier = collections.deque([()])
    st.states = 1
    depth_done = 0
    while frontier:
        if stop_after_violations is not None and len(st.violations) >= stop_after_violations:
            # enough counter-examples (the shortest ones come first in a BFS): a broken implementation may have an
            # unbounded state space, do not explore it to the cap
            st.stopped_early = True
            break
        hist = frontier.popleft()
        if len(hist) > depth_done:
            depth_done = len(hist)
        if max_depth is not None and len(hist) >= max_depth:
            continue
        for ev in events:
            p = factory()
            ok = True
            fast = getattr(p, 'replay_step', p.apply)
            for h in hist:
                fast(h)              # already checked when this prefix was first explored
            st.replays += 1
            if enabled is not None and not enabled(p, ev):
                continue
            try:
                problems = p.apply(ev)
            except Desync as d:
                st.violations.append((hist, ev, d.fingerprint, d.message))
                st.dead += 1
                st.transitions += 1
                continue
            st.transitions += 1
            st.observations += getattr(p, 'last_observations', 0)
            for fp, msg in problems:
                st.violations.append((hist, ev, fp, msg))
            k = p.canon()
            if k not in seen:
                if len(seen) >= max_states:
                    continue
                seen.add(k)
                st.states += 1
                nh = hist + (ev,)
                frontier.append(nh)
                st.max_depth_seen = max(st.max_depth_seen, len(nh))
                if len(st.sample_histories) < 6 and len(nh) >= 3:
                    st.sample_histories.append(nh)
    st.closed = (max_depth is None or st.max_depth_seen < max_depth) and len(seen) < max_states and not getattr(st, 'stopped_early', False)
    st.depth_completed = st.max_depth_seen if st.closed else (max_depth or depth_done)
    return st


class Desync(Exception):
    """The implementation left every behaviour the model allows: the branch cannot be continued."""

    def __init__(self, fingerprint, message):
        super().__init__(message)
        self.fingerprint = fingerprint
        self.message = message
