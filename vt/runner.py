"""Runner: tiers, evidence, VIOLATION / KNOWN-FINDING lines, replay.

Usage (through /verif/check):   ./check C10 [--tier quick|thorough] [--replay FILE] [--jobs N]

A check module ``vt.checks.cNN`` exposes

    LEVEL        = 'model_checking'
    def run(ctx) -> Result       # explores, returns coverage + violations
    def replay(case) -> list[Violation]   # re-executes one recorded case without the explorer

The runner
  * makes sure ``beanquery`` is imported from /repo's working tree,
  * groups violations by *fingerprint* (identifies the defect, not the input), keeps the first
    (= smallest, enumeration is simplest-first) case per fingerprint and writes it to
    /verif/replays/<id>/<hash>.json,
  * matches fingerprints against /verif/known_findings.json (read-only): an *open* finding prints
    ``KNOWN-FINDING: property=<id> <what>`` and does not fail the run; anything else prints
    ``VIOLATION property=<id> replay=<path>`` and the exit status is 1,
  * writes /verif/evidence/<id>.json (schema: /root/.vp/EVIDENCE.schema.json).
"""
import argparse
import hashlib
import importlib
import json
import os
import sys
import time
import traceback

VERIF = os.path.dirname(os.path.dirname(os.path.abspath(__file__)))
REPO = os.environ.get('VERIF_REPO', '/repo')


class Violation:
    __slots__ = ('fingerprint', 'what', 'case')

    def __init__(self, fingerprint, what, case):
        self.fingerprint = fingerprint      # str: identifies the defect (locus), not the input
        self.what = what                    # str: human readable expected/actual
        self.case = case                    # json-serialisable: enough for check.replay(case)

    def __reduce__(self):
        return (Violation, (self.fingerprint, self.what, self.case))

    def __repr__(self):
        return f'Violation({self.fingerprint!r}, {self.what!r})'


class Result:
    def __init__(self, coverage, violations=(), assumptions=()):
        self.coverage = coverage
        self.violations = list(violations)
        self.assumptions = list(assumptions)


class Ctx:
    def __init__(self, prop, tier, seed, jobs):
        self.prop = prop
        self.tier = tier
        self.seed = seed
        self.jobs = jobs
        self.quick = tier == 'quick'
        self.thorough = tier == 'thorough'

    def pick(self, quick, thorough):
        return quick if self.quick else thorough


def jsonable(x):
    """Best-effort conversion of arbitrary values to JSON (used for samples and replay files)."""
    import datetime
    import decimal
    if x is None or isinstance(x, (bool, int, str, float)):
        return x
    if isinstance(x, decimal.Decimal):
        return {'$dec': str(x)}
    if isinstance(x, datetime.date):
        return {'$date': x.isoformat()}
    if isinstance(x, (list, tuple)):
        return [jsonable(i) for i in x]
    if isinstance(x, (set, frozenset)):
        return {'$set': sorted((jsonable(i) for i in x), key=repr)}
    if isinstance(x, dict):
        return {str(k): jsonable(v) for k, v in x.items()}
    return {'$repr': repr(x)}


def unjson(x):
    import datetime
    import decimal
    if isinstance(x, list):
        return [unjson(i) for i in x]
    if isinstance(x, dict):
        if set(x) == {'$dec'}:
            return decimal.Decimal(x['$dec'])
        if set(x) == {'$date'}:
            return datetime.date.fromisoformat(x['$date'])
        if set(x) == {'$set'}:
            return set(unjson(i) for i in x['$set'])
        return {k: unjson(v) for k, v in x.items()}
    return x


def load_known(prop):
    path = os.path.join(VERIF, 'known_findings.json')
    if not os.path.exists(path):
        return {}
    with open(path) as f:
        data = json.load(f)
    out = {}
    for item in data.get('findings', []):
        if item.get('property') == prop and item.get('status') == 'open':
            out[item['fingerprint']] = item
    return out


def setup_imports():
    if REPO not in sys.path:
        sys.path.insert(0, REPO)
    import beanquery
    origin = os.path.realpath(beanquery.__file__)
    if not origin.startswith(os.path.realpath(REPO) + os.sep):
        print(f'FATAL: beanquery imported from {origin}, not from {REPO}', file=sys.stderr)
        sys.exit(2)
    # The function registry is only filled once the environment module is imported.
    from beanquery import query_env  # noqa: F401
    return beanquery


def main(argv=None):
    ap = argparse.ArgumentParser()
    ap.add_argument('prop')
    ap.add_argument('--tier', default=os.environ.get('VERIF_TIER') or 'quick', choices=['quick', 'thorough'])
    ap.add_argument('--replay')
    ap.add_argument('--jobs', type=int, default=int(os.environ.get('VERIF_JOBS') or 0) or min(16, os.cpu_count() or 4))
    ap.add_argument('--no-evidence', action='store_true')
    args = ap.parse_args(argv)
    prop = args.prop.upper()
    try:
        seed = int(os.environ.get('VERIF_SEED') or 0)
    except ValueError:
        seed = 0

    setup_imports()
    mod = importlib.import_module(f'vt.checks.{prop.lower()}')

    if args.replay:
        with open(args.replay) as f:
            rec = json.load(f)
        vs = mod.replay(rec['case'])
        for v in vs:
            print(f'REPLAY-VIOLATION property={prop} fingerprint={v.fingerprint}\n  {v.what}')
        if not vs:
            print(f'REPLAY-OK property={prop}: the recorded case no longer violates the property')
        return 1 if vs else 0

    ctx = Ctx(prop, args.tier, seed, args.jobs)
    t0 = time.time()
    try:
        res = mod.run(ctx)
    except Exception:
        traceback.print_exc()
        print(f'HARNESS-ERROR property={prop}: the check itself crashed (this is not a verdict)', file=sys.stderr)
        return 2
    wall = time.time() - t0

    known = load_known(prop)
    by_fp = {}
    for v in res.violations:
        by_fp.setdefault(v.fingerprint, []).append(v)

    rdir = os.path.join(VERIF, 'replays', prop)
    n_unknown = 0
    lines = []
    for fp, vs in by_fp.items():
        # report the smallest recorded case of this fingerprint (shards are merged in shard order, not by size)
        v = min(vs, key=lambda x: len(json.dumps(x.case, default=repr)))
        h = hashlib.sha1(fp.encode()).hexdigest()[:12]
        os.makedirs(rdir, exist_ok=True)
        path = os.path.join(rdir, f'{h}.json')
        with open(path, 'w') as f:
            json.dump({'property': prop, 'fingerprint': fp, 'what': v.what, 'occurrences': len(vs),
                       'case': v.case, 'replay_cmd': f'./check {prop} --replay {path}'}, f, indent=1, default=repr)
        if fp in known:
            lines.append(f'KNOWN-FINDING: property={prop} {known[fp].get("what", fp)} [fingerprint={fp}; {len(vs)} case(s); replay={path}]')
        else:
            n_unknown += 1
            lines.append(f'VIOLATION property={prop} replay={path}')
            lines.append(f'  fingerprint={fp} ({len(vs)} case(s))')
            lines.append(f'  {v.what}')

    cov = dict(res.coverage)
    cov.setdefault('samples', [])
    cov['samples'] = jsonable(cov['samples'])[:12]
    evidence = {
        'property_id': prop,
        'tier': args.tier,
        'seed': seed,
        'level': getattr(mod, 'LEVEL', 'model_checking'),
        'coverage': jsonable(cov),
        'assumptions': res.assumptions,
        'wall_s': round(wall, 2),
        'violations': n_unknown,
        'known_findings_reported': sorted(fp for fp in by_fp if fp in known),
    }
    if not args.no_evidence:
        os.makedirs(os.path.join(VERIF, 'evidence'), exist_ok=True)
        with open(os.path.join(VERIF, 'evidence', f'{prop}.json'), 'w') as f:
            json.dump(evidence, f, indent=1, sort_keys=True, default=repr)
            f.write('\n')

    for line in lines:
        print(line)
    c = res.coverage
    print(f'{prop} tier={args.tier} seed={seed} states={c.get("states")} transitions={c.get("transitions")} '
          f'evaluations={c.get("evaluations")} distinct_nontrivial={c.get("distinct_nontrivial")} '
          f'exhaustive={c.get("exhaustive")} violations={n_unknown} known={len(by_fp) - n_unknown} wall={wall:.1f}s')
    return 1 if n_unknown else 0


if __name__ == '__main__':
    sys.exit(main())
