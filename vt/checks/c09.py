"""C09 -- Parameters, constant folding and history independence of execution.

Three bounded-exhaustive explorations on the real implementation:

(1) parameters = literals.  A menu of statement templates with 1..4 placeholders (targets, WHERE,
    ORDER BY expression, function arguments, inside FROM- and IN-sub-queries, non-commutative contexts
    `a - b`, `a / b`, `substr(s, a, b)`, repeated named placeholders, list-valued parameter, LIMIT-free)
    x ALL assignments from a literal alphabet per slot type.  Each template exists as named text
    (`%(p0)s`), positional text (`%s`, every occurrence its own parameter) and as an AST builder; the two
    texts are parsed ONCE and the parsed statements are re-executed for every assignment.  Expected =
    the statement with the values written as ast.Constant literals at the same places (and the
    reference interpreter).  Positional binding is checked against the textual order of the
    placeholders, obtained by scanning the template text.
(2) constant folding.  Every depth <= 2 expression of the C01 enumerator, for ALL assignments of
    non-NULL alphabet values to the columns it reads: evaluated once with the values as constants
    (`SELECT expr FROM #`, folded by the compiler) and once per row from a one-row table holding the
    same values: equal value and equal announced datatype (and equal to the reference evaluator).
(3) history independence (E-bfs style, depth bounded, no state merging).  ALL sequences of length <= d
    over an alphabet of 25 executions on ONE connection -- shared parsed statements re-executed with
    other parameters (positional, named), executemany, aggregate, PIVOT, IN-sub-query, FROM-sub-queries,
    `balance` referenced twice, FROM OPEN/CLOSE, a failing statement, a second cursor, PRINT, a shell
    session, aggregates over persistent objects, and the SAME regular expression texts ('a', 'b', 'B',
    'o', '(a)|(b)') used by case-sensitive functions (grep, grepn, subst, findfirst) in some events and by
    the case-insensitive matches (~, !~) in others, on data where the case matters ('Ab' against 'a',
    'b' against 'B', 'Assets:...' against 'a'): every step's outcome (rows, description, or exception
    class) must equal the outcome of the same (statement, parameters) on a FRESH connection with a
    FRESHLY parsed statement in a pristine process, and the source data (harness rows, ledger entries)
    must be unchanged after every history.
    Results are HELD: every execution through Connection.execute() / a new cursor returns a result of
    its own; its description and rowcount are read right after the execution (non-consuming) and again,
    with the rows, only after ALL executions of the history -- "other executions in between never
    change it" is thus checked on results that are alive while later statements execute (the last step
    of every history, and so every prefix history's last step, is read right after its execution).
    Only the event executing on the explicit long-lived second cursor is read at once: executing again
    on the same cursor replaces that cursor's result by the DB-API contract.
"""
import copy
import itertools
import re
import datetime
import decimal

import beanquery
from beanquery import parser
from beanquery.parser import ast

from .. import astgen, domains
from ..harness import HTable, connect, select, F, C, col, crash_fingerprint, typed
from ..par import Acc, run_shards, mine
from ..ref import select as refselect
from ..ref import expr as refexpr
from ..ref.expr import RefError
from ..runner import Result, jsonable
from .. import sample_ledger

LEVEL = 'model_checking'
A = ast
D = decimal.Decimal

TROWS = [(0, 'a', 1), (1, 'b', 2), (2, None, None), (3, 'Ab', 7), (4, 'b', 1)]
TCOLS = [('id', int), ('k', str), ('v', int)]
UROWS = [(1,), (2,), (None,)]


def harness_conn():
    t = HTable(TCOLS, list(TROWS), name='t')
    u = HTable([('j', int)], list(UROWS), name='u')
    return connect(postings=t, t=t, u=u)


REFTABS = {'t': ([c for c, _ in TCOLS], TROWS, dict(TCOLS)), 'u': (['j'], UROWS, {'j': int}), 'postings': ([c for c, _ in TCOLS], TROWS, dict(TCOLS))}

# ---- (1) parameters ---------------------------------------------------------------------

VALS = {
    'int': [0, 3, -2],
    'num': [2, D('1.5'), 0],
    'str': ['a', '', 'B'],
    'date': [datetime.date(2020, 2, 29), datetime.date(2019, 12, 31)],
    'bool': [True, False],
    'any': [None, 1, 'a', D('2.50'), datetime.date(2020, 1, 1), True],
    'idx': [0, 1, -1, 5],
    'list': [['a', 'b'], [1, 2, 7], ['b', 'a', 'b']],
}


def P(i):
    return A.Placeholder(f'p{i}')


def templates():
    """(name, named text, slot types by placeholder index, AST builder taking the list of placeholder-or-constant nodes)."""
    id_, k, v = col('id'), col('k'), col('v')
    T = []
    T.append(('target', 'SELECT id, %(p0)s AS x FROM #t', ['any'], lambda p: select([(id_, None), (p[0], 'x')], from_='t')))
    T.append(('two-targets', 'SELECT %(p0)s AS x, id, %(p1)s AS y FROM #t', ['any', 'any'], lambda p: select([(p[0], 'x'), (id_, None), (p[1], 'y')], from_='t')))
    T.append(('sub', 'SELECT %(p0)s - %(p1)s AS r FROM #t', ['num', 'num'], lambda p: select([(A.Sub(p[0], p[1]), 'r')], from_='t')))
    T.append(('div', 'SELECT id, %(p0)s / %(p1)s AS r FROM #t', ['num', 'num'], lambda p: select([(id_, None), (A.Div(p[0], p[1]), 'r')], from_='t')))
    T.append(('col-minus', 'SELECT v - %(p0)s AS r, %(p1)s - v AS s FROM #t', ['num', 'num'], lambda p: select([(A.Sub(v, p[0]), 'r'), (A.Sub(p[1], v), 's')], from_='t')))
    T.append(('where', 'SELECT id FROM #t WHERE v > %(p0)s', ['num'], lambda p: select([(id_, None)], from_='t', where=A.Greater(v, p[0]))))
    T.append(('where-between', 'SELECT id FROM #t WHERE v BETWEEN %(p0)s AND %(p1)s', ['int', 'int'], lambda p: select([(id_, None)], from_='t', where=A.Between(v, p[0], p[1]))))
    T.append(('where-str', 'SELECT id FROM #t WHERE k = %(p0)s OR k ~ %(p1)s', ['str', 'str'], lambda p: select([(id_, None)], from_='t', where=A.Or([A.Equal(k, p[0]), A.Match(k, p[1])]))))
    T.append(('substr', 'SELECT substr(%(p0)s, %(p1)s, %(p2)s) AS r FROM #t', ['str', 'idx', 'idx'], lambda p: select([(F('substr', p[0], p[1], p[2]), 'r')], from_='t')))
    T.append(('substr-col', 'SELECT id, substr(k, %(p0)s, %(p1)s) AS r FROM #t', ['idx', 'idx'], lambda p: select([(id_, None), (F('substr', k, p[0], p[1]), 'r')], from_='t')))
    T.append(('order-expr', 'SELECT id FROM #t ORDER BY v * %(p0)s, id DESC', ['int'], lambda p: select([(id_, None)], from_='t', order_by=[A.OrderBy(A.Mul(v, p[0]), A.Ordering.ASC), A.OrderBy(id_, A.Ordering.DESC)])))
    T.append(('repeated', 'SELECT %(p0)s - %(p1)s AS r, %(p0)s AS a2 FROM #t WHERE v > %(p1)s', ['num', 'num'],
              lambda p: select([(A.Sub(p[0], p[1]), 'r'), (p[0], 'a2')], from_='t', where=A.Greater(v, p[1]))))
    T.append(('in-subquery', 'SELECT id, v IN (SELECT j FROM #u WHERE j > %(p0)s) AS m FROM #t WHERE id > %(p1)s', ['int', 'int'],
              lambda p: select([(id_, None), (A.In(v, select([(col('j'), None)], from_='u', where=A.Greater(col('j'), p[0]))), 'm')], from_='t', where=A.Greater(id_, p[1]))))
    T.append(('from-subquery', 'SELECT a + %(p0)s AS r FROM (SELECT v - %(p1)s AS a FROM #t WHERE v > %(p2)s)', ['int', 'int', 'int'],
              lambda p: select([(A.Add(col('a'), p[0]), 'r')], from_=select([(A.Sub(v, p[1]), 'a')], from_='t', where=A.Greater(v, p[2])))))
    T.append(('inner-before-outer', 'SELECT %(p0)s - a AS r FROM (SELECT %(p1)s - v AS a FROM #t)', ['int', 'int'],
              lambda p: select([(A.Sub(p[0], col('a')), 'r')], from_=select([(A.Sub(p[1], v), 'a')], from_='t'))))
    T.append(('agg', 'SELECT k, sum(v * %(p0)s) AS s FROM #t WHERE v != %(p1)s GROUP BY k HAVING count(*) > %(p2)s', ['int', 'int', 'int'],
              lambda p: select([(k, None), (F('sum', A.Mul(v, p[0])), 's')], from_='t', where=A.NotEqual(v, p[1]), group_by=A.GroupBy([k], A.Greater(F('count', A.Asterisk()), p[2])))))
    T.append(('in-list', 'SELECT id FROM #t WHERE k IN %(p0)s', ['list'], lambda p: select([(id_, None)], from_='t', where=A.In(k, p[0]))))
    T.append(('list-value', 'SELECT id, %(p0)s AS x, length(%(p0)s) AS n FROM #t WHERE id < 2', ['list'],
              lambda p: select([(id_, None), (p[0], 'x'), (F('length', p[0]), 'n')], from_='t', where=A.Less(id_, C(2)))))
    T.append(('date', 'SELECT %(p0)s + v AS d, year(%(p0)s) AS y FROM #t', ['date'], lambda p: select([(A.Add(p[0], v), 'd'), (F('year', p[0]), 'y')], from_='t')))
    T.append(('bool', 'SELECT id FROM #t WHERE %(p0)s AND v > %(p1)s', ['bool', 'int'], lambda p: select([(id_, None)], from_='t', where=A.And([p[0], A.Greater(v, p[1])]))))
    T.append(('coalesce', 'SELECT coalesce(v, %(p0)s) AS r FROM #t', ['int'], lambda p: select([(F('coalesce', v, p[0]), 'r')], from_='t')))
    T.append(('four', 'SELECT %(p0)s - %(p1)s AS a, %(p2)s - %(p3)s AS b FROM #t', ['int', 'int', 'int', 'int'],
              lambda p: select([(A.Sub(p[0], p[1]), 'a'), (A.Sub(p[2], p[3]), 'b')], from_='t')))
    return T


def assignments(slots, thorough):
    doms = [VALS[s] for s in slots]
    if len(slots) >= 4 and not thorough:
        doms = [d[:2] for d in doms]
    return itertools.product(*doms)


def outcome(fn):
    try:
        cur = fn()
        return ('ok', [tuple(map(typed, r)) for r in cur.fetchall()], [(d.name, d.datatype.__name__) for d in cur.description])
    except beanquery.Error as e:
        return ('rejected', type(e).__name__)
    except (ArithmeticError, ValueError, OverflowError) as e:
        return ('dataerror', type(e).__name__)


def check_template(tname, acc, thorough, only=None):
    for name, text, slots, build in templates():
        if name != tname:
            continue
        named_text = text
        order = re.findall(r'%\((p\d+)\)s', text)          # textual order of the occurrences
        pos_text = re.sub(r'%\(p\d+\)s', '%s', text)
        try:
            named_stmt = parser.parse(named_text)
            pos_stmt = parser.parse(pos_text)
        except Exception as e:
            acc.violation(f'crash:{crash_fingerprint(e)}', f'parsing template {text!r} raised {e!r}', {'kind': 'param', 'template': name, 'values': None})
            return
        conn = harness_conn()
        for vals in assignments(slots, thorough):
            if only is not None and jsonable(list(vals)) != only:
                continue
            case = {'kind': 'param', 'template': name, 'values': jsonable(list(vals))}
            consts = [A.Constant(v) for v in vals]
            lit = build(consts)
            exp = outcome(lambda: conn.execute(lit))
            acc.count('executions', 3)
            acc.count('param_assignments')
            named_params = {f'p{i}': v for i, v in enumerate(vals)}
            got_named = outcome(lambda: conn.execute(named_stmt, named_params))
            pos_params = tuple(named_params[n] for n in order)
            got_pos = outcome(lambda: conn.execute(pos_stmt, pos_params))
            if got_named != exp:
                acc.violation(f'param-named:{name}', f'{text!r} with {named_params!r}: {got_named!r}; with the values written as literals: {exp!r}', case)
                continue
            if got_pos != exp:
                acc.violation(f'param-positional:{name}', f'{pos_text!r} with {pos_params!r}: {got_pos!r}; with the values written as literals (textual order): {exp!r}', case)
                continue
            # the literal form itself against the reference interpreter
            if exp[0] == 'ok':
                try:
                    _, rexp, _ = refselect.execute(lit, [], [], None, tables=REFTABS)
                    acc.count('ref_compared')
                    if [tuple(map(typed, r)) for r in rexp] != exp[1]:
                        acc.violation(f'param-ref:{name}', f'{text!r} with {named_params!r}: {exp[1]!r}, reference {rexp!r}', case)
                        continue
                except (RefError, TypeError, ArithmeticError, ValueError):
                    acc.count('ref_unsupported')
            acc.add('param_outcomes', repr(exp)[:80])
            acc.count(f'outcome_{exp[0]}')


# ---- (2) folding --------------------------------------------------------------------------

def subst(node, env):
    """Copy of an expression AST with columns replaced by constants."""
    if isinstance(node, A.Column):
        return A.Constant(env[node.name])
    if isinstance(node, (A.And, A.Or)):
        return type(node)([subst(a, env) for a in node.args])
    if isinstance(node, A.Function):
        return A.Function(node.fname, [subst(a, env) if isinstance(a, A.Node) else a for a in node.operands])
    if isinstance(node, A.Between):
        return A.Between(subst(node.operand, env), subst(node.lower, env), subst(node.upper, env))
    if isinstance(node, A.BinaryOp):
        return type(node)(subst(node.left, env), subst(node.right, env))
    if isinstance(node, A.UnaryOp):
        return type(node)(subst(node.operand, env))
    return node


def col_values(name, seed, small):
    t = astgen.COLTYPE[name]
    if t in astgen.SCALARS:
        return [x for x in domains.alphabet(t, seed, small=small) if x is not None]
    return None


def check_fold(te, seed, acc, only=None):
    cols = sorted(te.cols)
    doms = [col_values(c, seed, len(cols) >= 3) for c in cols]
    if any(d is None for d in doms):
        acc.count('fold_skipped_nonliteral_columns')
        return
    for vals in itertools.product(*doms):
        if only is not None and jsonable(list(vals)) != only:
            continue
        env = dict(zip(cols, vals))
        try:
            ref = refexpr.ev(te.node, env)
        except (RefError, ArithmeticError, ValueError, TypeError):
            acc.count('fold_outside_domain')
            continue
        table = HTable([(c, astgen.COLTYPE[c]) for c in cols], [tuple(vals)])
        conn = connect(t=table, postings=table)
        case = {'kind': 'fold', 'locus': te.locus, 'values': jsonable(list(vals)), 'seed': seed}
        acc.count('executions', 2)
        acc.count('fold_assignments')
        try:
            c1 = conn.execute(select([(subst(te.node, env), 'r')], from_=A.Table('')))
            folded, ftype = c1.fetchall(), c1.description[0].datatype
            c2 = conn.execute(select([(te.node, 'r')], from_='t'))
            perrow, ptype = c2.fetchall(), c2.description[0].datatype
        except Exception as e:
            acc.violation(f'crash:{crash_fingerprint(e)}', f'{show(te.node)} with {env!r} raised {type(e).__name__}: {e}', case)
            continue
        base = te.locus.split('@')[0].split('<')[0]
        if len(folded) != 1 or len(perrow) != 1 or typed(folded[0][0]) != typed(perrow[0][0]):
            acc.violation(f'fold-value:{base}', f'{show(te.node)} with {env!r}: constants give {folded!r}, per-row evaluation gives {perrow!r}', case)
            continue
        if ftype is not ptype:
            acc.violation(f'fold-type:{base}', f'{show(te.node)} with {env!r}: announced datatype {ftype!r} when folded, {ptype!r} per row', case)
            continue
        if typed(folded[0][0]) != typed(ref):
            acc.violation(f'fold-ref:{base}', f'{show(te.node)} with {env!r} = {folded[0][0]!r}, reference {ref!r}', case)
            continue
        acc.add('fold_values', repr(ref)[:40])


def show(node):
    try:
        from ..unparse import unparse
        return unparse(node)
    except Exception:
        return repr(node)


# ---- (3) histories ------------------------------------------------------------------------

_PARSED = {}
_SHELL_LEDGER = None
SHELL_QUERY_TEXT = "SELECT date, account, number FROM year = 2019 WHERE number > 100"


def fresh_parse(text):
    """A pristine copy of the parsed statement (parsing costs 20-90 ms; a deep copy of the freshly
    parsed AST, parse positions included, is equivalent for the purpose: no execution has seen it)."""
    if text not in _PARSED:
        _PARSED[text] = parser.parse(text)
    return copy.deepcopy(_PARSED[text])


class World:
    """One connection with ledger tables + harness tables, and the shared parsed statements."""

    def __init__(self):
        entries, errors, options = sample_ledger.load()
        self.conn = beanquery.connect('beancount:', entries=entries, errors=errors, options=options)
        self.t = HTable(TCOLS, list(TROWS), name='t')
        self.u = HTable([('j', int)], list(UROWS), name='u')
        self.conn.tables['t'] = self.t
        self.conn.tables['u'] = self.u
        # a user table whose rows hold PERSISTENT aggregate-able objects (the ledger tables build theirs on the fly):
        # an aggregator that adopts or mutates a value of its first row changes the source data
        from beancount.core import inventory, position
        self.w = HTable([('k', str), ('inv', inventory.Inventory), ('pos', position.Position)],
                        [('a', inventory.from_string('1 USD'), position.from_string('2 HOOL {10 USD}')),
                         ('a', inventory.from_string('2 USD, 1 HOOL {5 USD}'), position.from_string('1 HOOL {10 USD}')),
                         ('b', inventory.from_string('3 EUR'), position.from_string('4 EUR')),
                         ('b', None, None),
                         ('b', inventory.from_string('-3 EUR'), position.from_string('1 USD'))], name='w')
        self.conn.tables['w'] = self.w
        self.entries = entries
        self.cursor2 = self.conn.cursor()
        id_, k, v = col('id'), col('k'), col('v')
        self.P1 = fresh_parse('SELECT %s - %s AS r, id FROM #t WHERE id < %s')
        self.N1 = fresh_parse('SELECT %(a)s - %(b)s AS r, %(a)s AS a2 FROM #t WHERE v > %(b)s')
        self.AGG = select([(k, None), (F('sum', v), 's'), (F('count', A.Asterisk()), 'c')], from_='t', group_by=A.GroupBy([k], None), order_by=[A.OrderBy(2, A.Ordering.DESC)])
        self.INQ = select([(id_, None), (A.In(v, select([(col('j'), None)], from_='u')), 'm')], from_='t')
        self.SUBQ = select([(A.Add(col('a'), C(1)), 'r')], from_=select([(v, 'a')], from_='t', where=A.IsNotNull(v)))
        # a second FROM-subquery with other column names, fewer columns and another order (state shared between sub-query tables)
        self.SUBQ2 = select([(col('b'), None), (col('z'), None)], from_=select([(k, 'z'), (id_, 'b')], from_='t', where=A.IsNotNull(k)))
        self.SUBQSTAR = select(A.Asterisk(), from_=select([(v, 'w')], from_='t', where=A.IsNotNull(v)))
        self.BAL = fresh_parse('SELECT account, balance, number, balance FROM #postings WHERE year = 2019 AND month = 1')
        self.OPENCLOSE = fresh_parse('SELECT account, sum(position) AS s FROM OPEN ON 2019-02-01 CLOSE ON 2019-03-01 GROUP BY account ORDER BY account')
        self.PIVOT = fresh_parse('SELECT k, id % 2 AS par, count(*) AS n FROM #t WHERE k IS NOT NULL GROUP BY k, par PIVOT BY k, par')
        self.FAIL = select([(col('nosuch'), None)], from_='t')
        self.BALIN = fresh_parse("SELECT balance, account IN (SELECT account FROM #postings WHERE number > 100) AS m FROM #postings WHERE year = 2019 AND month = 2")
        # the same regular expression used by functions with different matching semantics (search / anchored match / ~)
        # GREP also uses the text 'a' case-SENSITIVELY on data where the case matters (k = 'Ab': grep('a', k) is NULL, k ~ 'a' is
        # true); MATCHONLY, SUBST and FINDFIRST use the same text, so every order of first use is a history
        self.GREP = select([(F('grep', C('b'), k), 'g'), (F('grepn', C('(a)|(b)'), k, C(0)), 'gn'), (A.Match(k, C('b')), 'm'), (F('grep', C('a'), k), 'ga')], from_='t')
        # the SAME pattern texts through the case-insensitive operator only (a matcher cached by pattern text alone would
        # carry the flags of whichever construct used the text first)
        self.MATCHONLY = select([(k, None), (A.Match(k, C('b')), 'm'), (A.NotMatch(k, C('(a)|(b)')), 'n'), (A.Match(k, C('o')), 'o'),
                                 (A.Match(k, C('a')), 'a'), (A.NotMatch(k, C('B')), 'nb')], from_='t')
        self.FINDFIRST = fresh_parse("SELECT findfirst('o', tags) AS f, findfirst('b', other_accounts) AS g, grep('o', narration) AS n, findfirst('a', other_accounts) AS h "
                                     "FROM #postings WHERE year = 2019 AND month <= 2")
        self.PRINTQ = fresh_parse('PRINT FROM year = 2019 AND month = 1')
        self.ENTRIES = fresh_parse("SELECT type, date FROM #entries WHERE type != 'transaction' AND type != 'open' ORDER BY date, type")
        self.SUBST = select([(F('subst', C('b'), C('X'), k), 's'), (F('upper', k), 'u'), (F('subst', C('a'), C('Y'), k), 'sa'), (F('grep', C('B'), k), 'gB')], from_='t')
        self.SUMINV = select([(k, None), (F('sum', col('inv')), 's'), (F('sum', col('pos')), 'p'), (F('first', col('inv')), 'f'), (F('last', col('inv')), 'l')],
                             from_='w', group_by=A.GroupBy([k], None))

    def events(self):
        c = self.conn
        return [
            ('P1(5,3,9)', lambda: c.execute(self.P1, (5, 3, 9))),
            ('P1(3,5,2)', lambda: c.execute(self.P1, (3, 5, 2))),
            ('N1(a=7,b=1)', lambda: c.execute(self.N1, {'a': 7, 'b': 1})),
            ('N1(a=1,b=6)', lambda: c.execute(self.N1, {'a': 1, 'b': 6})),
            ('executemany', lambda: self._many()),
            ('AGG', lambda: c.execute(self.AGG)),
            ('INQ', lambda: c.execute(self.INQ)),
            ('SUBQ', lambda: c.execute(self.SUBQ)),
            ('BAL', lambda: c.execute(self.BAL)),
            ('OPENCLOSE', lambda: c.execute(self.OPENCLOSE)),
            ('PIVOT', lambda: c.execute(self.PIVOT)),
            ('FAIL', lambda: c.execute(self.FAIL)),
            ('cursor2:P1(1,1,3)', lambda: self.cursor2.execute(self.P1, (1, 1, 3))),
            ('BALIN', lambda: c.execute(self.BALIN)),
            ('GREP', lambda: c.execute(self.GREP)),
            ('FINDFIRST', lambda: c.execute(self.FINDFIRST)),
            ('SUBST', lambda: c.execute(self.SUBST)),
            ('PRINT', lambda: self._print()),
            ('SHELLRUN', lambda: self._shellrun()),
            ('TEXTQ', lambda: c.execute(SHELL_QUERY_TEXT)),
            ('ENTRIES', lambda: c.execute(self.ENTRIES)),
            ('SUMINV', lambda: c.execute(self.SUMINV)),
            ('MATCHONLY', lambda: c.execute(self.MATCHONLY)),
            ('SUBQ2', lambda: c.execute(self.SUBQ2)),
            ('SUBQSTAR', lambda: c.execute(self.SUBQSTAR)),
        ]

    def _shellrun(self):
        # a shell session in the same process running a NAMED query whose text is the one TEXTQ executes through
        # the API (the shell pre-processes the parsed statement: default CLOSE date of the query directive)
        import contextlib
        import io
        from beancount import loader
        from beanquery import shell
        out = io.StringIO()
        global _SHELL_LEDGER
        if _SHELL_LEDGER is None:       # loading costs ~25 ms: once per process (the entries are immutable named tuples)
            _SHELL_LEDGER = loader.load_string(sample_ledger.TEXT.replace('__DOCFILE__', sample_ledger.__file__)
                                               + f'\n2019-02-15 query "jan" "{SHELL_QUERY_TEXT}"\n')
        entries, errors, options = _SHELL_LEDGER
        with contextlib.redirect_stdout(out), contextlib.redirect_stderr(out):
            sh = shell.BQLShell(None, out)
            sh.context.attach('beancount:', entries=entries, errors=errors, options=options)
            sh._extract_queries(entries)
            sh.onecmd('.run jan')
        return _TextResult(out.getvalue())

    def _print(self):
        # what the shell does for a PRINT statement: compile, then execute_print into a file
        import io
        from beanquery import query_execute
        out = io.StringIO()
        query_execute.execute_print(self.conn.compile(self.PRINTQ), out)
        return _TextResult(out.getvalue())

    def _many(self):
        cur = self.conn.cursor()
        cur.executemany('SELECT %s + id AS r, %s AS s FROM #t WHERE id < 2', [(1, 'x'), (10, 'y')])
        return cur

    def snapshot(self):
        from beancount.core.compare import hash_entry
        return (repr(self.t.rows), repr(self.u.rows), repr(self.w.rows), len(self.entries), tuple(hash_entry(e) for e in self.entries),
                tuple(id(e) for e in self.entries))


class _TextResult:
    description = ()

    def __init__(self, text):
        self.text = text

    def fetchall(self):
        return [(self.text,)]


def _read(cur):
    rows = cur.fetchall()
    return ('ok', [tuple(repr(x) for x in r) for r in rows], _descr(cur))


def _descr(cur):
    return [(d.name, d.datatype.__name__) for d in (cur.description or [])]


def run_event(fn, hold=False):
    """Outcome of one execution.  With hold=True a successful execution is NOT read: ('held', result object,
    description and rowcount read at once -- both are non-consuming) is returned and the caller reads it later."""
    try:
        cur = fn()
        if hold:
            return ('held', cur, _descr(cur), getattr(cur, 'rowcount', None))
        return _read(cur)
    except beanquery.Error as e:
        return ('rejected', type(e).__name__, str(e))
    except Exception as e:
        return ('crash', type(e).__name__, str(e)[:200])


def read_held(cur):
    try:
        return _read(cur), getattr(cur, 'rowcount', None)
    except Exception as e:
        return ('crash', type(e).__name__, str(e)[:200]), None


# events executing on an explicit, long-lived cursor: executing again on the SAME cursor legitimately replaces its result
# (DB-API), so their result is read at once; every other event returns a result of its own, which is held
READ_AT_ONCE = ('cursor2:',)


def _fresh_one(i):
    w = World()
    return run_event(w.events()[i][1])


def fresh_outcomes():
    """Each event on a fresh connection with freshly parsed statements, each in its OWN pristine process
    (forked from a parent that has not executed any statement), so that module-level state left behind
    by other executions (caches keyed too coarsely, class-level accumulators) cannot leak into the
    expected outcomes."""
    import multiprocessing
    n = len(World().events())
    ctx = multiprocessing.get_context('fork')
    with ctx.Pool(processes=min(8, n), maxtasksperchild=1) as pool:
        return pool.map(_fresh_one, range(n), chunksize=1)


def canon_state(w):
    """Reported only (not used for merging): what a compile/execute might leave behind."""
    names = tuple(p.name for stmt in (w.P1, w.N1) for p in stmt.walk() if isinstance(p, A.Placeholder))
    try:
        attrs = tuple(sorted(vars(w.conn.tables['postings']).keys()))
    except Exception:
        attrs = ()
    return (names, attrs)


_EXECUTED_IN_PROCESS = []      # distinct events executed by earlier histories of this process, in order of first execution


def check_history(hist, fresh, acc, names, warmup=()):
    """Executes the history; the result of every step is HELD (description and rowcount are read at once, the rows only
    after ALL executions of the history, in order of execution): a result obtained earlier must not be changed by the
    executions in between.  Histories of length 1 and the last step of every history are read right after execution."""
    for i in warmup:               # replay only: events an earlier history of the same process had executed
        run_event(World().events()[i][1])
    w = World()
    before = w.snapshot()
    evs = w.events()
    acc.count('histories')
    earlier = list(_EXECUTED_IN_PROCESS)
    case = {'kind': 'history', 'history': list(hist), 'earlier_in_process': earlier}

    def differs(step, got):
        i = hist[step]
        prior = [names[j] for j in hist[:step]]
        kind = 'fails' if got[0] != 'ok' and fresh[i][0] == 'ok' else 'differs'
        acc.violation(f'history:{names[i]}:{kind}', f'after {prior!r}, {names[i]} gives {str(got)[:300]}; on a fresh connection with a freshly parsed statement '
                      f'in a pristine process: {str(fresh[i])[:300]} (events executed earlier in this process on other connections: {[names[j] for j in earlier]!r})', case)

    held = []
    for step, i in enumerate(hist):
        got = run_event(evs[i][1], hold=not names[i].startswith(READ_AT_ONCE))
        if i not in _EXECUTED_IN_PROCESS:
            _EXECUTED_IN_PROCESS.append(i)
        acc.count('executions')
        acc.count('history_steps')
        if got[0] == 'held':
            # what can be read without consuming the result: the description
            if fresh[i][0] != 'ok' or got[2] != fresh[i][2]:
                differs(step, ('ok', '<rows not read>', got[2]))
                return
            held.append((step, got[1], got[2], got[3]))
        elif got != fresh[i]:
            differs(step, got)
            return
    for n, (step, cur, descr, rowcount) in enumerate(held):
        i = hist[step]
        later = [names[j] for j in hist[step + 1:]]
        try:
            now = (_descr(cur), getattr(cur, 'rowcount', None))
        except Exception as e:
            now = ('crash', type(e).__name__)
        got, _ = read_held(cur)
        acc.count('held_results_read_after_later_executions' if later else 'results_read_at_once')
        shared = any(cur is other for m, (_, other, _, _) in enumerate(held) if m != n)
        if now != (descr, rowcount) or (got != fresh[i] and shared):
            acc.violation('history:held-result-changed', f'the result of {names[i]} (step {step} of {[names[j] for j in hist]!r}) read after the later executions {later!r}: '
                          f'description/rowcount {str(now)[:200]}, right after its execution {str((descr, rowcount))[:200]}; rows {str(got)[:200]}, '
                          f'expected {str(fresh[i])[:200]}' + ('; the same result object was returned by another execution' if shared else ''), case)
            return
        if got != fresh[i]:
            differs(step, got)
            return
    if w.snapshot() != before:
        acc.violation('history:source-mutated', f'history {[names[j] for j in hist]!r} changed the source data', {'kind': 'history', 'history': list(hist)})
    acc.add('end_states', repr(canon_state(w)))


# ---- driver ------------------------------------------------------------------------------

def fold_programs(seed, tier):
    d1 = astgen.depth1(seed)
    d2 = astgen.depth2(d1, seed, all_slots=False, full_children=(tier == 'thorough'))
    return d1 + d2


def shard_fn(shard, nshards, tier, seed, depth, fresh):
    acc = Acc()
    thorough = tier == 'thorough'
    for i, (name, *_rest) in enumerate(templates()):
        if mine(i, shard, nshards):
            check_template(name, acc, thorough)
            acc.sample({'template': _rest[0]})
    for i, te in enumerate(fold_programs(seed, tier)):
        if mine(i, shard, nshards):
            check_fold(te, seed, acc)
            acc.count('fold_expressions')
    names = [n for n, _ in World().events()]
    idx = 0
    for d in range(1, depth + 1):
        for hist in itertools.product(range(len(names)), repeat=d):
            idx += 1
            if mine(idx, shard, nshards):
                check_history(hist, fresh, acc, names)
                if idx % 5003 == 0:
                    acc.sample({'history': [names[j] for j in hist]})
    if shard == 0:
        acc.add('fresh_outcome_kinds', tuple(f[0] for f in fresh))
    return acc


def replay(c):
    acc = Acc()
    if c['kind'] == 'param':
        check_template(c['template'], acc, True, only=c['values'])
    elif c['kind'] == 'fold':
        for te in fold_programs(c['seed'], 'thorough'):
            if te.locus == c['locus']:
                check_fold(te, c['seed'], acc, only=c['values'])
                break
    else:
        fresh = fresh_outcomes()
        names = [n for n, _ in World().events()]
        check_history(tuple(c['history']), fresh, acc, names, warmup=tuple(c.get('earlier_in_process', ())))
    return acc.violations


def run(ctx):
    depth = ctx.pick(3, 4)
    fresh = fresh_outcomes()       # before anything else is executed in this process tree
    acc = run_shards(shard_fn, ctx.jobs, ctx.tier, ctx.seed, depth, fresh)
    n = acc.n
    nev = len(World().events())
    cov = {
        'states': n['param_assignments'] + n['fold_assignments'] + n['histories'],
        'transitions': n['executions'],
        'traces_validated_against_impl': n['histories'] + n['param_assignments'] + n['fold_assignments'],
        'evaluations': n['executions'],
        'distinct_nontrivial': len(acc.sets['param_outcomes']) + len(acc.sets['fold_values']),
        'rule': 'cases = (template, parameter assignment) triples [named / positional / literal], (expression, constant assignment) pairs [folded / per-row], and execution histories; '
                'distinct_nontrivial = distinct parameterised outcomes + distinct folded values',
        'exhaustive': True,
        'bound': f'{len(templates())} templates x all assignments; all depth<=2 expressions x all non-NULL assignments; ALL {nev}-letter histories of length <= {depth}',
        'parameter_assignments': n['param_assignments'], 'parameter_outcomes_ok': n['outcome_ok'], 'parameter_outcomes_rejected': n['outcome_rejected'],
        'parameter_outcomes_dataerror': n['outcome_dataerror'], 'reference_compared': n['ref_compared'],
        'fold_expressions': n['fold_expressions'], 'fold_assignments': n['fold_assignments'], 'fold_outside_domain': n['fold_outside_domain'],
        'histories': n['histories'], 'history_steps': n['history_steps'],
        'held_results_read_after_later_executions': n['held_results_read_after_later_executions'], 'results_read_at_once': n['results_read_at_once'],
        'regex_texts_shared_by_case_sensitive_and_insensitive_uses': ['a', 'b', 'B', 'o', '(a)|(b)'], 'history_alphabet': [nm for nm, _ in World().events()],
        'distinct_end_states_observed': len(acc.sets['end_states']), 'fresh_outcome_kinds': sorted(acc.sets['fresh_outcome_kinds']),
        'samples': acc.samples,
    }
    return Result(cov, acc.violations, assumptions=['parameter container kind fits the placeholder style', 'NULL values are not substituted as constants where an overload must be chosen (folding)',
                                                    'results compared by repr for ledger values (Inventory objects)',
                                                    'every Connection.execute() / new-cursor execution yields a result of its own that stays readable (description, rowcount, rows) while later statements '
                                                    'execute; re-executing on one explicit cursor replaces that cursor\'s result (read at once)'])
