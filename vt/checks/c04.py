"""C04 -- Type soundness: announced datatypes are truthful; accepted queries run type-safe.

Technique: bounded-exhaustive exploration (E-enum) driven by the LIVE registries: every overload of
every operator and function (aggregates included) x every admissible argument type (an ``Any`` slot
is instantiated with every column type of the universe), arguments being typed harness columns that
hold the type's whole alphabet (table = full product of the alphabets of the columns read), then
composition depth 2: every argument slot fed by every depth-1 producer whose ANNOUNCED datatype is
the slot's declared type -- which turns a wrongly announced output type into an observable run-time
type error; attribute access over every path of every structured type and subscripts of dict-typed
columns; implicit casts of `object` operands against every typed operand; FROM-subquery and
IN-subquery columns; every column and the wildcard of every Beancount-backed table over a ledger family.

Invariants (on every fetched cell / every accepted statement):
  * value is NULL or an instance of the datatype announced in cursor.description (``object`` admits
    anything; collections by kind: announced set/frozenset/list/tuple <=> a non-string collection,
    announced dict <=> a Mapping);
  * no TypeError / AttributeError escapes ``execute`` on conforming data (a data error -- ValueError,
    ArithmeticError, re.error, KeyError of a lookup table -- is not a type error: the failing rows are
    isolated and dropped, the remaining rows are still checked);
  * render_text, render_csv and numberify_results accept the result.
An overload whose result was NULL on every row is reported as *uncovered* in the evidence, not as passed.
"""
import collections.abc
import datetime
import decimal
import io
import itertools
import re

from dateutil.relativedelta import relativedelta

import beanquery
from beancount.core import amount, position, inventory, data
from beancount.core.display_context import DisplayContext
from beanquery import query_compile as qc
from beanquery import query_render, numberify
from beanquery import types as bqtypes
from beanquery.parser import ast

from .. import sample_ledger
from ..harness import HTable, select, F, C, col, crash_fingerprint
from ..par import Acc, run_shards, mine
from ..runner import Result, jsonable

LEVEL = 'model_checking'
A = ast
D = decimal.Decimal
date = datetime.date
Amt = amount.Amount
Pos = position.Position
Inv = inventory.Inventory


def _inv(*ps):
    i = Inv()
    for p in ps:
        i.add_position(p)
    return i


P1 = Pos(Amt(D('2'), 'HOOL'), position.Cost(D('100.00'), 'USD', date(2019, 2, 3), None))
P2 = Pos(Amt(D('-1.50'), 'USD'), None)
P3 = Pos(Amt(D('10'), 'EUR'), None)

UNIVERSE = {
    'i': (int, [None, 0, 1, -3, 7]),
    'd': (D, [None, D('0'), D('-1.5'), D('2.25')]),
    's': (str, [None, '', 'a', 'Assets:Cash', 'month', '1 day', '2020-01-15', 'USD']),
    't': (date, [None, date(2019, 12, 31), date(2020, 2, 29)]),
    'b': (bool, [None, True, False]),
    'o': (object, [None, D('2'), '3', 'x', date(2020, 1, 1), True, 5]),
    'st': (set, [None, frozenset(), frozenset({'a'}), {'a', 'Ab'}]),
    'ls': (list, [None, [], ['a'], [1, D('2')]]),
    'mp': (dict, [None, {}, {'a': 1, 'k': 'v'}]),
    'am': (Amt, [None, Amt(D('1.50'), 'USD'), Amt(D('-2'), 'EUR'), Amt(D('0'), 'USD')]),
    'po': (Pos, [None, P1, P2]),
    'nv': (Inv, [None, Inv(), _inv(P1, P2), _inv(P3)]),
    'iv': (relativedelta, [None, relativedelta(days=1), relativedelta(months=1)]),
}
SECOND = {'i': 'i2', 'd': 'd2', 's': 's2', 't': 't2', 'b': 'b2'}   # independent second column for binary overloads
for k, k2 in SECOND.items():
    UNIVERSE[k2] = UNIVERSE[k]
TYPECOL = {}
for name, (t, _) in UNIVERSE.items():
    TYPECOL.setdefault(t, []).append(name)


def tb_fingerprint(exc):
    """Exception class + innermost beanquery frame + the BQL operator/function that frame belongs to."""
    base = crash_fingerprint(exc)
    owner = None
    tb = exc.__traceback__
    while tb is not None:
        f = tb.tb_frame
        if '/beanquery/' in f.f_code.co_filename and '/verif/' not in f.f_code.co_filename:
            slf = f.f_locals.get('self')
            if isinstance(slf, qc.EvalNode):
                owner = type(slf).__name__
                ops = getattr(slf, 'operands', None)
                if isinstance(ops, (list, tuple)) and all(isinstance(o, qc.EvalNode) for o in ops):
                    # the argument types separate an overload that cannot handle its declared operands from another
                    # defect in the same function (a known finding on min(dict) must not hide one on min(decimal))
                    owner += '[' + ','.join(getattr(o.dtype, '__name__', str(o.dtype)) for o in ops) + ']'
        tb = tb.tb_next
    return f'{base}|{owner}' if owner else base


def kind_ok(value, announced):
    if not isinstance(announced, type):
        return False          # the announced datatype must be a class (renderers and numberify dispatch on it with issubclass)
    if value is None:
        return True
    if announced is object:
        return True
    if announced in (set, frozenset, list, tuple):
        return isinstance(value, (set, frozenset, list, tuple))
    if announced is dict or (isinstance(announced, type) and issubclass(announced, dict)):
        return isinstance(value, collections.abc.Mapping)
    if isinstance(announced, type) and issubclass(announced, bqtypes.Structure):
        for py, st in bqtypes.ALIASES.items():
            if st is announced:
                # the structure class only DESCRIBES the attributes of the python type: a column of such values
                # announces the python type itself, of which the values are instances (the description class is not)
                return isinstance(value, announced)
        return True      # Open / Close structures: namedtuple rows, no python alias registered
    try:
        return isinstance(value, announced)
    except TypeError:
        return True


def make_conn(cols, rows):
    entries, errors, options = sample_ledger.load()
    conn = beanquery.connect('beancount:', entries=entries, errors=errors, options=options)
    conn.tables['h'] = HTable([(c, UNIVERSE[c][0]) for c in cols], rows, name='h')
    return conn


_DCTX = None


def dcontext():
    global _DCTX
    if _DCTX is None:
        _DCTX = sample_ledger.load()[2]['dcontext']
    return _DCTX


# functions evaluated on the row context of the postings / entries tables (not on user tables)
POSTINGS_ONLY = {'has_account', 'meta', 'entry_meta', 'any_meta'}
AMOUNT_LIKE = (Amt, Pos, Inv)


def tname(t):
    return getattr(t, '__name__', str(t))


class Prog:
    __slots__ = ('node', 'cols', 'locus', 'depth', 'agg')

    def __init__(self, node, cols, locus, depth, agg=False):
        self.node, self.cols, self.locus, self.depth, self.agg = node, tuple(sorted(set(cols))), locus, depth, agg


def concrete_types(t, subtypes=False):
    if t is bqtypes.Any:
        return [int, D, str, date, bool, object, set, list, dict, Amt, Pos, Inv, relativedelta]
    if t is int and subtypes:
        return [int, bool]      # functions and unary operators resolve along the MRO: bool is accepted for int
    return [t]


def arg_columns(types_):
    used = []
    out = []
    for t in types_:
        cands = TYPECOL.get(t, [])
        if not cands:
            return None
        pick = next((c for c in cands if c not in used), cands[0])
        used.append(pick)
        out.append(pick)
    return out


def depth1():
    progs = []
    # operators
    for op, impls in qc.OPERATORS.items():
        for impl in impls:
            its = list(impl.__intypes__)
            for conc in itertools.product(*[concrete_types(t) for t in its]):
                if op in (A.Match, A.NotMatch):
                    node = op(col('s'), C('a'))
                    progs.append(Prog(node, ['s'], f'{op.__name__}[str,str]', 1))
                    continue
                cols = arg_columns(conc)
                if cols is None:
                    continue
                if op in (A.In, A.NotIn) and conc[0] in AMOUNT_LIKE:
                    # element equality between a beancount Amount/Position/Inventory and a value of a foreign
                    # type raises AttributeError inside beancount (trusted base): outside the property
                    continue
                args = [col(c) for c in cols]
                node = op(*args) if op is not A.Between else A.Between(*args)
                progs.append(Prog(node, cols, f'{op.__name__}[{",".join(tname(t) for t in its)}]<{",".join(tname(t) for t in conc)}>', 1))
    # boolean connectives / coalesce
    progs.append(Prog(A.And([col('b'), col('b2')]), ['b', 'b2'], 'And', 1))
    progs.append(Prog(A.Or([col('b'), col('b2')]), ['b', 'b2'], 'Or', 1))
    # AND / OR accept operands of any type (truthiness) and announce bool: the VALUE must be a bool as well
    for cname, (t, _) in UNIVERSE.items():
        if t is bool or cname in SECOND.values() or t is Inv:      # truth value of an Inventory: open known finding
            continue
        for op in (A.And, A.Or):
            progs.append(Prog(op([col(cname), col('b')]), [cname, 'b'], f'{op.__name__}[{tname(t)},bool]', 1))
            progs.append(Prog(op([col('b'), col(cname)]), [cname, 'b'], f'{op.__name__}[bool,{tname(t)}]', 1))
            progs.append(Prog(op([col(cname), C(True)]), [cname], f'{op.__name__}[{tname(t)},const]', 1))
    for t, names in TYPECOL.items():
        if len(names) >= 2:
            progs.append(Prog(F('coalesce', col(names[0]), col(names[1])), names[:2], f'coalesce[{tname(t)}]', 1))
    # functions and aggregates
    for name, impls in qc.FUNCTIONS.items():
        for impl in impls:
            its = list(impl.__intypes__)
            is_agg = isinstance(impl, type) and issubclass(impl, qc.EvalAggregator)
            if its == [bqtypes.Asterisk]:
                progs.append(Prog(F(name, A.Asterisk()), ['i'], f'{name}(*)', 1, True))
                continue
            if name in POSTINGS_ONLY:
                continue
            for conc in itertools.product(*[concrete_types(t, True) for t in its]):
                cols = arg_columns(conc)
                if cols is None:
                    continue
                node = F(name, *[col(c) for c in cols])
                progs.append(Prog(node, cols or ['i'], f'{name}({",".join(tname(t) for t in its)})<{",".join(tname(t) for t in conc)}>', 1, is_agg))
    # attribute paths of structured types and subscripts
    for cname, (t, _) in UNIVERSE.items():
        st = bqtypes.ALIASES.get(t)
        if st is not None:
            for attr, getter in st.columns.items():
                node = A.Attribute(col(cname), attr)
                progs.append(Prog(node, [cname], f'attr:{st.name}.{attr}', 1))
                st2 = bqtypes.ALIASES.get(getter.dtype)
                if st2 is not None:
                    for attr2 in st2.columns:
                        progs.append(Prog(A.Attribute(node, attr2), [cname], f'attr:{st.name}.{attr}.{attr2}', 1))
        if t is dict:
            progs.append(Prog(A.Subscript(col(cname), 'a'), [cname], 'subscript:dict', 1))
            progs.append(Prog(A.Subscript(col(cname), 'zz'), [cname], 'subscript:dict', 1))
    # implicit casts: object operand against each typed operand
    for op in (A.Add, A.Less, A.Equal, A.Mul, A.Match):
        for other in ('i', 'd', 's', 't', 'b'):
            progs.append(Prog(op(col('o'), col(other)), ['o', other], f'cast:{op.__name__}[object,{tname(UNIVERSE[other][0])}]', 1))
            progs.append(Prog(op(col(other), col('o')), ['o', other], f'cast:{op.__name__}[{tname(UNIVERSE[other][0])},object]', 1))
    return progs


def compile_ok(conn, prog):
    stmt = select([(prog.node, 'r')], from_='h')
    try:
        return beanquery.compiler.compile(conn, stmt)
    except beanquery.CompilationError:
        return None


def announced_type(conn, prog):
    stmt = select([(prog.node, 'r')], from_='h')
    try:
        q = beanquery.compiler.compile(conn, stmt)
    except beanquery.Error:
        return None
    return q.c_targets[0].c_expr.dtype


def table_rows(cols):
    alphas = [UNIVERSE[c][1] for c in cols]
    if len(cols) >= 3:
        alphas = [a[:3] for a in alphas]
    return list(itertools.product(*alphas))


DATA_ERRORS = (ValueError, ArithmeticError, re.error, KeyError, IndexError, OverflowError)


def run_prog(prog, acc, do_render):
    cols = list(prog.cols)
    rows = table_rows(cols)
    conn = make_conn(cols, rows)
    stmt = select([(prog.node, 'r')], from_='h')
    case = {'locus': prog.locus, 'depth': prog.depth}
    acc.count('programs')
    try:
        cur = conn.execute(stmt)
    except beanquery.CompilationError:
        acc.count('rejected_by_type_checker')
        return None
    except beanquery.Error:
        acc.count('rejected_other')
        return None
    except DATA_ERRORS as e0:
        if isinstance(e0, (TypeError, AttributeError)):
            raise
        # isolate the failing rows: run row by row
        acc.count('statements_with_data_errors')
        ok_rows = []
        for r in rows:
            c1 = make_conn(cols, [r])
            try:
                c1.execute(stmt).fetchall()
                ok_rows.append(r)
            except DATA_ERRORS:
                acc.count('rows_with_data_errors')
            except Exception as e:
                acc.violation(f'type-error:{tb_fingerprint(e)}', f'{show(stmt)} (locus {prog.locus}) on row {dict(zip(cols, r))!r} raised {type(e).__name__}: {e}', case)
                return None
        conn = make_conn(cols, ok_rows)
        try:
            cur = conn.execute(stmt)
        except Exception as e:
            if prog.agg:
                return None
            acc.violation(f'type-error:{tb_fingerprint(e)}', f'{show(stmt)} raised {e!r} on rows that succeed one by one', case)
            return None
    except Exception as e:       # TypeError, AttributeError, NotImplementedError, ...: not a data error
        acc.violation(f'type-error:{tb_fingerprint(e)}', f'{show(stmt)} (locus {prog.locus}) raised {type(e).__name__}: {e} on conforming data', case)
        return None
    got = cur.fetchall()
    ann = cur.description[0].datatype
    acc.count('accepted')
    acc.count('cells', len(got))
    nonnull = 0
    for (v,) in got:
        if v is not None:
            nonnull += 1
        if not kind_ok(v, ann):
            base = prog.locus.split('<')[0]
            acc.violation(f'announced:{base}', f'{show(stmt)} announces {tname(ann)} but yields {v!r} ({type(v).__name__})', case)
            return ann
    acc.add('nonnull_loci' if nonnull else 'null_only_loci', prog.locus.split('<')[0])
    if do_render:
        desc = cur.description
        for what, fn in (('render_text', lambda f: query_render.render_text(desc, got, dcontext(), f, expand=True, boxed=True)),
                         ('render_csv', lambda f: query_render.render_csv(desc, got, dcontext(), f, expand=True)),
                         ('numberify', lambda f: numberify.numberify_results(desc, got, dcontext().build()))):
            try:
                fn(io.StringIO())
                acc.count('renders')
            except Exception as e:
                acc.violation(f'{what}:{crash_fingerprint(e)}', f'{what} failed on the result of {show(stmt)} (announced {tname(ann)}): {type(e).__name__}: {e}', case)
                break
    return ann


def show(node):
    try:
        from ..unparse import unparse
        return unparse(node)
    except Exception:
        return repr(node)


def replace_col(node, cname, repl):
    if isinstance(node, A.Column):
        return repl if node.name == cname else node
    if isinstance(node, (A.And, A.Or)):
        return type(node)([replace_col(a, cname, repl) for a in node.args])
    if isinstance(node, A.Function):
        return A.Function(node.fname, [replace_col(a, cname, repl) if isinstance(a, A.Node) else a for a in node.operands])
    if isinstance(node, A.Between):
        return A.Between(replace_col(node.operand, cname, repl), replace_col(node.lower, cname, repl), replace_col(node.upper, cname, repl))
    if isinstance(node, A.BinaryOp):
        return type(node)(replace_col(node.left, cname, repl), replace_col(node.right, cname, repl))
    if isinstance(node, A.UnaryOp):
        return type(node)(replace_col(node.operand, cname, repl))
    if isinstance(node, A.Attribute):
        return A.Attribute(replace_col(node.operand, cname, repl), node.name)
    if isinstance(node, A.Subscript):
        return A.Subscript(replace_col(node.operand, cname, repl), node.key)
    return node


def depth2(d1, announced, all_slots):
    """Every column slot of every depth-1 program replaced by every depth-1 producer whose ANNOUNCED
    type equals the column's declared type."""
    by_type = {}
    for p in d1:
        t = announced.get(p.locus)
        if t is None or p.agg:
            continue
        by_type.setdefault(t, []).append(p)
    out = []
    for p in d1:
        for cname in p.cols:
            t = UNIVERSE[cname][0]
            for child in by_type.get(t, []):
                if child is p:
                    continue
                cols = set(p.cols) - {cname} | set(child.cols)
                if len(cols) > 3:
                    continue
                node = replace_col(p.node, cname, child.node)
                out.append(Prog(node, cols, f'{p.locus.split("<")[0]}@{cname}<-{child.locus.split("<")[0]}', 2, p.agg))
    return out


def extra_programs():
    """FROM-subquery and IN-subquery columns."""
    out = []
    for cname in ('i', 'd', 's', 't', 'b', 'am', 'po', 'nv', 'st', 'mp'):
        inner = select([(col(cname), 'x'), (F('count', A.Asterisk()), 'n')], from_='h', group_by=A.GroupBy([col('x')], None)) \
            if UNIVERSE[cname][0] not in (set, dict, list) else select([(col(cname), 'x')], from_='h')
        out.append(('subquery-column:' + cname, select([(col('x'), 'r')], from_=inner), [cname]))
        out.append(('subquery-first:' + cname, select([(F('first', col('x')), 'r')], from_=select([(col(cname), 'x')], from_='h')), [cname]))
    out.append(('in-subquery', select([(A.In(col('i'), select([(col('i'), None)], from_='h')), 'r')], from_='h'), ['i']))
    # grouping keys and DISTINCT over every column type, the key given by name, by alias, by ordinal and as an
    # expression: either rejected at compile time (unhashable type) or executed without a type error
    cnt = (F('count', A.Asterisk()), 'n')
    for cname in UNIVERSE:
        if cname in SECOND.values():
            continue
        c = col(cname)
        out.append((f'group-by-name:{cname}', select([(c, None), cnt], from_='h', group_by=A.GroupBy([col(cname)], None)), [cname]))
        out.append((f'group-by-alias:{cname}', select([(c, 'z'), cnt], from_='h', group_by=A.GroupBy([col('z')], None)), [cname]))
        out.append((f'group-by-ordinal:{cname}', select([(c, None), cnt], from_='h', group_by=A.GroupBy([1], None)), [cname]))
        out.append((f'group-by-ordinal2:{cname}', select([cnt, (c, None)], from_='h', group_by=A.GroupBy([2], None)), [cname]))
        out.append((f'group-by-hidden:{cname}', select([cnt], from_='h', group_by=A.GroupBy([col(cname)], None)), [cname]))
        out.append((f'group-by-implicit:{cname}', select([(c, None), cnt], from_='h'), [cname]))
        out.append((f'group-by-coalesce:{cname}', select([cnt], from_='h', group_by=A.GroupBy([F('coalesce', col(cname), col(cname))], None)), [cname]))
        out.append((f'distinct:{cname}', select([(c, None)], from_='h', distinct=True), [cname]))
        # a NULL literal among the arguments of COALESCE: rejected, or accepted with an announced type the values honour
        for pos, args in (('first', [C(None), c]), ('last', [c, C(None)]), ('first-two', [C(None), C(None), c]), ('middle', [c, C(None), c])):
            out.append((f'coalesce-null-{pos}:{cname}', select([(F('coalesce', *args), 'r')], from_='h'), [cname]))
        out.append((f'first-last:{cname}', select([(F('first', c), 'f'), (F('last', c), 'l'), (F('count', c), 'n')], from_='h'), [cname]))
    return out


def run_stmt(tag, stmt, cols, acc):
    conn = make_conn(cols, table_rows(cols))
    acc.count('programs')
    try:
        cur = conn.execute(stmt)
        got = cur.fetchall()
    except beanquery.Error:
        acc.count('rejected_other')
        return
    except Exception as e:
        acc.violation(f'type-error:{tb_fingerprint(e)}|{tag.split(":")[0]}', f'{show(stmt)} raised {type(e).__name__}: {e}', {'tag': tag})
        return
    acc.count('accepted')
    for row in got:
        for v, d in zip(row, cur.description):
            acc.count('cells')
            if not kind_ok(v, d.datatype):
                acc.violation(f'announced:{tag.split(":")[0]}', f'{show(stmt)} announces {tname(d.datatype)} for {d.name} but yields {v!r}', {'tag': tag})
                return


# ---- ledger tables ------------------------------------------------------------------------------

QUALIFIED_FROMS = [
    ('open', A.From(None, datetime.date(2020, 1, 8), None, None)),
    ('close', A.From(None, None, datetime.date(2020, 2, 1), None)),
    ('close-undated', A.From(None, None, True, None)),
    ('clear', A.From(None, None, None, True)),
    ('open-close-clear', A.From(None, datetime.date(2020, 1, 3), datetime.date(2020, 3, 1), True)),
]


def ledger_sweep(shard, nshards, n):
    from .. import ledgers
    acc = Acc()
    for idx, (names, text) in enumerate(ledgers.family(n)):
        if not mine(idx, shard, nshards):
            continue
        conn = ledgers.connect(text)
        acc.count('ledgers')
        for tname_ in sorted(t for t in conn.tables if t):
            table = conn.tables[tname_]
            stmts = [('*', select(A.Asterisk(), from_=A.Table(tname_)))]
            stmts.append(('all', select([(col(c), None) for c in table.columns], from_=A.Table(tname_))))
            if tname_ in ('postings', 'entries'):
                # the functions evaluated on the row context, over constant and over nullable column arguments
                nullable = [c for c in ('payee', 'narration', 'cost_currency', 'account') if c in table.columns]
                fts = []
                for fn in sorted(POSTINGS_ONLY):
                    if fn in ('meta', 'any_meta') and tname_ == 'entries':
                        continue
                    for cn in nullable:
                        fts.append((F(fn, col(cn)), f'{fn}_{cn}'))
                    fts.append((F(fn, C('memo')), f'{fn}_const'))
                for ft in fts:
                    stmts.append((f'ctxfunc:{ft[1]}', select([ft], from_=A.Table(tname_))))
            if tname_ == 'postings':
                # rows synthesised by the FROM qualifiers (summarisation / transfer / conversion entries: their
                # postings carry no metadata) must honour the announced column types too
                allcols = [(col(c), None) for c in table.columns]
                for qtag, frm in QUALIFIED_FROMS:
                    stmts.append((f'*:{qtag}', select(A.Asterisk(), from_=frm)))
                    stmts.append((f'all:{qtag}', select(allcols, from_=frm)))
            for tag, stmt in stmts:
                acc.count('programs')
                try:
                    cur = conn.execute(stmt)
                    got = cur.fetchall()
                except (beanquery.Error, re.error) if tag.startswith('ctxfunc') else () as e:
                    acc.count('rejected_or_data_error')       # not applicable to this table / the cell is not a valid pattern
                    continue
                except Exception as e:
                    acc.violation(f'type-error:{tb_fingerprint(e)}', f'SELECT {tag} FROM #{tname_} on ledger {list(names)!r} raised {type(e).__name__}: {e}',
                                  {'kind': 'ledger', 'names': list(names), 'table': tname_, 'tag': tag})
                    continue
                acc.count('accepted')
                bad = False
                for row in got:
                    for v, d in zip(row, cur.description):
                        acc.count('cells')
                        if not kind_ok(v, d.datatype):
                            acc.violation(f'announced:#{tname_}.{d.name}', f'#{tname_}.{d.name} announces {tname(d.datatype)} but yields {v!r} ({type(v).__name__}) on ledger {list(names)!r}',
                                          {'kind': 'ledger', 'names': list(names), 'table': tname_, 'tag': tag})
                            bad = True
                            break
                    if bad:
                        break
                if not bad and tag.startswith('all'):
                    desc = cur.description
                    try:
                        dctx = conn.options['dcontext']
                        query_render.render_text(desc, got, dctx, io.StringIO(), expand=True)
                        query_render.render_csv(desc, got, dctx, io.StringIO())
                        numberify.numberify_results(desc, got, dctx.build())
                        acc.count('renders', 3)
                    except Exception as e:
                        acc.violation(f'render:#{tname_}:{crash_fingerprint(e)}', f'rendering SELECT <all columns> FROM #{tname_} on ledger {list(names)!r} failed: {type(e).__name__}: {e}',
                                      {'kind': 'ledger', 'names': list(names), 'table': tname_, 'tag': tag})
    return acc


# ---- driver ------------------------------------------------------------------------------------

def shard_fn(shard, nshards, tier):
    acc = Acc()
    d1 = depth1()
    # announced types of all depth-1 programs are needed by every shard (cheap: compile only)
    conn_cache = {}
    announced = {}
    for p in d1:
        conn = make_conn(list(p.cols), [])
        announced[p.locus] = announced_type(conn, p)
    for i, p in enumerate(d1):
        if mine(i, shard, nshards):
            run_prog(p, acc, True)
            acc.count('depth1')
            if i % 97 == 0:
                acc.sample({'statement': show(select([(p.node, 'r')], from_='h')), 'locus': p.locus})
    d2 = depth2(d1, announced, tier == 'thorough')
    for i, p in enumerate(d2):
        if mine(i, shard, nshards):
            run_prog(p, acc, False)
            acc.count('depth2')
            if i % 4001 == 0:
                acc.sample({'statement': show(select([(p.node, 'r')], from_='h')), 'locus': p.locus})
    acc.add('depth2_total', len(d2))
    for i, (tag, stmt, cols) in enumerate(extra_programs()):
        if mine(i, shard, nshards):
            run_stmt(tag, stmt, cols, acc)
    return acc


def replay(c):
    acc = Acc()
    if c.get('kind') == 'ledger':
        return ledger_replay(c)
    d1 = depth1()
    if 'tag' in c:
        for tag, stmt, cols in extra_programs():
            if tag == c['tag']:
                run_stmt(tag, stmt, cols, acc)
        return acc.violations
    announced = {p.locus: announced_type(make_conn(list(p.cols), []), p) for p in d1}
    progs = d1 if c['depth'] == 1 else depth2(d1, announced, True)
    for p in progs:
        if p.locus == c['locus']:
            run_prog(p, acc, c['depth'] == 1)
            break
    return acc.violations


def ledger_replay(c):
    from .. import ledgers
    acc = Acc()
    for names, text in ledgers.family(len(c['names'])):
        if list(names) == c['names']:
            conn = ledgers.connect(text)
            table = conn.tables[c['table']]
            frm = A.Table(c['table'])
            qtag = c.get('tag', 'all').partition(':')[2]
            if qtag:
                frm = dict(QUALIFIED_FROMS)[qtag]
            try:
                cur = conn.execute(select([(col(x), None) for x in table.columns], from_=frm))
                rows = cur.fetchall()
            except Exception as e:
                acc.violation(f'type-error:{tb_fingerprint(e)}', f'{type(e).__name__}: {e}', c)
                return acc.violations
            for row in rows:
                for v, d in zip(row, cur.description):
                    if not kind_ok(v, d.datatype):
                        acc.violation(f'announced:#{c["table"]}.{d.name}', f'{d.name} announces {tname(d.datatype)} but yields {v!r}', c)
    return acc.violations


def run(ctx):
    acc = run_shards(shard_fn, ctx.jobs, ctx.tier)
    accl = run_shards(ledger_sweep, ctx.jobs, ctx.pick(1, 2))
    n = acc.n
    uncovered = sorted(acc.sets['null_only_loci'] - acc.sets['nonnull_loci'])
    cov = {
        'states': n['programs'] + accl.n['programs'],
        'transitions': n['cells'] + accl.n['cells'],
        'traces_validated_against_impl': n['accepted'] + accl.n['accepted'],
        'evaluations': n['programs'] + accl.n['programs'],
        'distinct_nontrivial': len(acc.sets['nonnull_loci']),
        'rule': 'a case = one statement over the full product table of the columns it reads, every result cell checked against the announced datatype; '
                'distinct_nontrivial = overload/type instantiations that produced at least one non-NULL value',
        'exhaustive': True,
        'bound': 'every overload in the live registries x every concrete instantiation of Any (13 types), depth 1 complete with renderers; depth 2 '
                 'complete (every column slot x every depth-1 producer of the announced type, <= 3 columns); ledger family n <= ' + str(ctx.pick(1, 2)),
        'depth1_programs': n['depth1'], 'depth2_programs': n['depth2'], 'depth2_total': sorted(acc.sets['depth2_total']),
        'accepted': n['accepted'], 'rejected_by_type_checker': n['rejected_by_type_checker'],
        'statements_with_data_errors': n['statements_with_data_errors'], 'rows_dropped_for_data_errors': n['rows_with_data_errors'],
        'cells_checked': n['cells'], 'renders': n['renders'] + accl.n['renders'],
        'uncovered_overloads_only_null_results': uncovered[:40], 'uncovered_count': len(uncovered),
        'ledger_sweep': {'ledgers': accl.n['ledgers'], 'statements': accl.n['programs'], 'cells': accl.n['cells']},
        'samples': acc.samples,
    }
    return Result(cov, acc.violations + accl.violations, assumptions=[
        'collections compared by kind; object admits anything', 'data errors (ValueError, ArithmeticError, re.error, KeyError, IndexError) are not type errors: failing rows are dropped',
    ])
