"""C06 -- Parsing inverts printing (precedence, associativity, literals); shipped parser = grammar.

Technique: bounded-exhaustive enumeration (E-enum, text path).  Every AST of a finite, completely
enumerated space is printed by ``vt.unparse`` (the printer *is* the precedence / associativity statement
of the property: it is written from the ladder in the property text, see the docstring of vt/unparse.py)
and the text is parsed by the real ``beanquery.parser.parse``;  the result must be the AST we started from.

(a) Round trip  parse(print(ast)) == ast   (dataclass equality and equal repr, so that 1 / TRUE /
    Decimal('1') / Decimal('1.50') are told apart)
    * expr-d2   the complete parent-kind x operand-slot x child-kind matrix: 30 parent kinds with 54 operand
                slots (Or / And with 2 and 3 arguments, Not, the 6 comparisons, In, NotIn, Match, NotMatch,
                IsNull, IsNotNull, Between, Add, Sub, Mul, Div, Mod, Neg, Attribute, Subscript, Function with 1
                and 2 arguments, sub-select with the child as target / as WHERE) x 42 children (the same 30
                kinds over plain columns + 12 leaves: column, integer, decimal, date, string, NULL, boolean,
                list, %s, %(name)s, f(), count(*)) = 2 268 cells.  The 52 cells whose AST has no text (a
                non-primary under Attribute / Subscript) are counted, not generated; the run fails as a
                harness error if visited + inexpressible != slots x children.
    * nary-bool same-kind / other-kind boolean children in several argument positions at once, NOT and
                BETWEEN (which contains the word AND) inside And / Or.
    * expr-d3   (thorough) chains parent x slot x middle x slot x bottom: all 54 x 54 slot pairs, bottom over
                14 representatives (one per rung of the ladder and per structural class, ``D3_BOTTOM``).
    * literal   every literal spelling (text -> value table: NULL, booleans, integers with leading zeros,
                `1.` `.5` `1.50`, dates incl. month ends and leap day, both quotings, quotes inside strings,
                comment openers inside strings) in 4-6 contexts, and all 399 lists of 1..3 literals over a
                7-letter literal alphabet.
    * int-chain left-associative subtraction chains of integer literals a-b, a-b-c, a-b-c-d, col-a-b-c, -n-a-b-c with
                four-digit first operands and one/two/three-digit followers (2020-1-5, 2020-13-5, 2020-2-30,
                2020-12-31, 12345-1-1, 999-12-31 ...) as target / WHERE / FROM / HAVING, printed tight (no blanks;
                the printer puts one blank only where the chain would spell the date literal YYYY-MM-DD and the
                run asserts that) and spaced; a text table with leading-zero spellings (2020-01-5, 2020-1-05 are
                subtractions, 2020-01-05 is a date).
    * minus-run adjacent minus signs without blanks (`x--y`, `--y`, `x---y`, `x*--y`, `f(--x)--y` ... over columns,
                integer and decimal literals): alone, followed by an alias / further clauses on the same line, by a
                newline, by a `;` comment -- `--` must not start a comment; the run asserts that the tight style
                really prints these shapes without blanks.
    * ident     identifier spellings: plain, with digits / underscores, every reserved word + digit (quick) /
                + letter, letter + reserved word, '_' + reserved word (thorough), every reserved word + '_'
                suffix (see FINDING below), each in 15 syntactic positions.
    * select    every subset of {DISTINCT, FROM, WHERE, GROUP BY, HAVING, ORDER BY, PIVOT BY, LIMIT} (HAVING
                only with GROUP BY: 192 subsets) with a rotating (quick) / every (thorough) target shape out
                of {*, one column, aliased mix}; every GROUP BY / ORDER BY / PIVOT BY item shape (index,
                column, expression, parenthesised integer / date / decimal constant, ASC / DESC); every FROM
                form: the 35 subsets of expression / OPEN ON / CLOSE [ON] / CLEAR, `#name`, `#`, three
                sub-selects, a sub-select as FROM *expression*.
    * balances / journal / print   every subset of their optional parts x every FROM form (thorough; quick
                thins the third summary function / the odd account strings).
    Prints per AST (``prints_for``): both parenthesisation modes always.  A fully parenthesised text costs
    about 3x a minimal one to parse, so: expr-d2 quick = one minimal + one full print per cell (a leaf child gets its full
    print under the first slot of each parent only), the spelling (plain / spread
    over newlines and tabs with swapped letter case / mixed case with comments between all tokens) rotating
    with the cell index so that every parent slot meets every (mode, spelling) many times; thorough = minimal
    in 4 spellings (+ tight) + full in 2 rotating spellings; statements: minimal always + full for every other AST (quick) / 4 prints
    (thorough), rotating spelling; expr-d3 minimal always + full for every
    8th chain.  Over each group every (mode, spelling) combination occurs.

(b) Parser = grammar.  A parser is generated from $VERIF_REPO/beanquery/parser/bql.ebnf with
    ``tatsu.to_python_sourcecode(grammar_text)`` (the default arguments reproduce the shipped parser.py
    byte for byte on the pinned tree; byte identity is *reported*, only behaviour is *checked*), loaded
    from a temporary directory that is removed at once, and run with the same semantics class on the texts
    of the corpus: the printed ASTs of (a) plus rejected / nearly valid texts -- all token sequences of
    length <= 2 over a 50-token alphabet alone and after `SELECT a` (5 102 texts), every single-token
    deletion / substitution / insertion of 40 valid statements (substituted / inserted token from 2 (quick) /
    16 (thorough) tokens), 140 literal and clause edge cases.  Both parsers must return equal ASTs, or both
    raise a TatSu ParseError at the same position, or both let the same foreign exception class escape
    (ValueError for 2020-13-45 ... is C05's business).
    Every text is parsed by both parsers in the thorough tier and whenever the generated source differs
    from parser.py.  In the quick tier, when the generated source is byte-identical to the shipped module
    (same code, same semantics class, deterministic => same behaviour), the second parse is spent on the
    first print of every AST (of every other cell of the depth-2 matrix) and on every rejected / literal text
    only (set C06_DIFF_ALL=1 to force all).

Scope / weakest readings
    * only ASTs that have a BQL text are generated (vt.unparse.NotExpressible lists the conditions);
    * "same rejection" = same error position; the message text and the TatSu exception subclass are not
      compared (the public API exposes only ParseError + position);
    * byte identity of the regenerated source with parser.py is not required;
    * letter case: keywords and identifiers vary, table names (`#Name`, not lower-cased by the parser),
      strings and the `s` of placeholders do not;
    * unary plus (`+a`, accepted and dropped by the grammar) has no AST node and is not printed.

FINDING (genuine; found by this check on the pinned tree, fixed upstream of this check in repo commit
0be7d7d by adding ``@@namechars :: '_'`` to bql.ebnf and regenerating parser.py; reported again under the
fingerprint ``ident:underscore-after-reserved-word`` should it return): without ``@@namechars`` TatSu's name
guard lets a literal token end before an underscore:  `SELECT not_x` parsed as NOT(_x), `SELECT null_x` and
`SELECT a, true_x` were syntax errors, `SELECT a in_x` was `a IN _x`, `SELECT distinct_x` was SELECT
DISTINCT _x, `BALANCES at_x` was BALANCES AT _x, `SELECT select_x` a sub-select.  The property quantifies
over "all identifier spellings not reserved"; these identifiers match the published identifier rule and are
not keywords.
"""
import collections
import datetime
import decimal
import importlib.util
import itertools
import os
import shutil
import sys
import tempfile

import tatsu

import beanquery
from beanquery import parser as bq_parser
from beanquery.parser import ast as A

from .. import par
from ..runner import REPO, Result, Violation
from ..unparse import (NotExpressible, RESERVED, ast_from_json, ast_to_json, count_grouping, level, same_ast, tokens, render)

LEVEL = 'model_checking'
D = decimal.Decimal
DATE = datetime.date

GRAMMAR = os.path.join(REPO, 'beanquery', 'parser', 'bql.ebnf')
SHIPPED = os.path.join(REPO, 'beanquery', 'parser', 'parser.py')

LEVEL_NAMES = ['SELECT', 'OR', 'AND', 'NOT', 'CMP', 'ADD', 'MUL', 'NEG', 'PRIMARY']


# ---------------------------------------------------------------------------------------------------------
# the regenerated parser

_REGEN = None          # module generated from bql.ebnf (set by load_regenerated; inherited by forked workers)
_REGEN_INFO = {}


def grammar_words(grammar):
    """Alphabetic literal tokens of the grammar text, lower case (to cross-check vt.unparse.RESERVED)."""
    import re
    body = '\n'.join(line for line in grammar.splitlines() if not line.startswith('@@comments') and not line.startswith('@@eol_comments'))
    return {w.lower() for w in re.findall(r"'([A-Za-z]+)'", body)}


def load_regenerated():
    """Generate a parser from the grammar file of the tree under test and import it from a temporary
    directory outside /repo and /verif, which is deleted before returning."""
    global _REGEN
    with open(GRAMMAR) as f:
        grammar = f.read()
    _REGEN_INFO['grammar_word_tokens_missing_from_RESERVED'] = sorted(grammar_words(grammar) - RESERVED)
    _REGEN_INFO['RESERVED_words_not_in_grammar'] = sorted(RESERVED - grammar_words(grammar))
    source = tatsu.to_python_sourcecode(grammar)
    try:
        with open(SHIPPED) as f:
            identical = f.read() == source
    except OSError:
        identical = False
    tmp = tempfile.mkdtemp(prefix='c06_regen_')
    try:
        path = os.path.join(tmp, 'bql_regenerated.py')
        with open(path, 'w') as f:
            f.write(source)
        spec = importlib.util.spec_from_file_location('c06_bql_regenerated', path)
        mod = importlib.util.module_from_spec(spec)
        old = sys.dont_write_bytecode
        sys.dont_write_bytecode = True
        try:
            spec.loader.exec_module(mod)
        finally:
            sys.dont_write_bytecode = old
    finally:
        shutil.rmtree(tmp, ignore_errors=True)
    _REGEN = mod
    _REGEN_INFO.update(grammar_file=GRAMMAR, generated_source_bytes=len(source),
                       generated_source_identical_to_shipped_parser_py=identical, tatsu_version=tatsu.__version__)
    return mod


def run_parser(mod, text):
    """Outcome of one generated-parser module on one text, with the shipped semantics class:
    ('ok', ast) | ('reject', pos) | ('crash', exception class name)."""
    try:
        return ('ok', mod.BQLParser().parse(text, semantics=bq_parser.BQLSemantics()))
    except tatsu.exceptions.ParseError as exc:
        return ('reject', exc.pos)
    except Exception as exc:      # noqa: BLE001 -- foreign exceptions are compared by class, reported by C05
        return ('crash', type(exc).__name__)


def public_parse(text):
    """Outcome of the public entry point beanquery.parser.parse."""
    try:
        return ('ok', bq_parser.parse(text))
    except beanquery.ParseError as exc:
        return ('reject', exc.parseinfo.pos)
    except Exception as exc:      # noqa: BLE001
        return ('crash', type(exc).__name__)


def outcomes_agree(a, b):
    if a[0] != b[0]:
        return False
    if a[0] == 'ok':
        return same_ast(a[1], b[1])
    return a[1] == b[1]


def show(o):
    if o[0] == 'ok':
        return repr(o[1])
    return f'{o[0]} {o[1]}'


# ---------------------------------------------------------------------------------------------------------
# expression space

def _rot(seq, k):
    k %= len(seq)
    return list(seq[k:]) + list(seq[:k])


class Alphabet:
    """Seed-rotated ordinary values; boundary members (first of each list) stay."""

    def __init__(self, seed):
        names = _rot(['a', 'b', 'c', 'd', 'e', 'g', 'h', 'k', 'm', 'n', 'p', 'q', 'r', 'u', 'v', 'w'], seed)
        self.fill = [names[0:3], names[3:6], names[6:9]]      # filler column names per nesting depth
        self.attr = names[9]
        self.alias = names[10]
        self.col = names[11]
        self.func1 = 'f' + names[12]
        self.func2 = 'g_' + names[13]
        self.func0 = 'today'
        self.phname = names[14] + '_1'
        self.table = ['t', 'Tab_1', 'x9'][seed % 3]
        self.key = ['key', 'Some Key', 'k-1'][seed % 3]
        self.int = [1, 2, 7, 42][seed % 4]
        self.dec = [D('2.50'), D('0.5'), D('10.'), D('3.14')][seed % 4]
        self.date = [DATE(2020, 2, 29), DATE(2019, 12, 31), DATE(2021, 1, 1), DATE(1999, 4, 30)][seed % 4]
        self.str = ['x', 'Assets:Cash', 'a b', "it's"][seed % 4]

    def describe(self):
        return {k: (v if isinstance(v, (int, str, list)) else str(v)) for k, v in vars(self).items()}


def _sel(targets, from_=None, where=None, group_by=None, order_by=None, pivot_by=None, limit=None, distinct=None):
    return A.Select(targets, from_, where, group_by, order_by, pivot_by, limit, distinct)


def kinds(al):
    """(name, number of operand slots, builder(list of operands))"""
    ks = [
        ('Or2', 2, lambda o: A.Or([o[0], o[1]])),
        ('Or3', 3, lambda o: A.Or([o[0], o[1], o[2]])),
        ('And2', 2, lambda o: A.And([o[0], o[1]])),
        ('And3', 3, lambda o: A.And([o[0], o[1], o[2]])),
        ('Not', 1, lambda o: A.Not(o[0])),
    ]
    for cls in (A.Less, A.LessEq, A.Greater, A.GreaterEq, A.Equal, A.NotEqual, A.In, A.NotIn, A.Match, A.NotMatch):
        ks.append((cls.__name__, 2, lambda o, cls=cls: cls(o[0], o[1])))
    ks += [
        ('IsNull', 1, lambda o: A.IsNull(o[0])),
        ('IsNotNull', 1, lambda o: A.IsNotNull(o[0])),
        ('Between', 3, lambda o: A.Between(o[0], o[1], o[2])),
    ]
    for cls in (A.Add, A.Sub, A.Mul, A.Div, A.Mod):
        ks.append((cls.__name__, 2, lambda o, cls=cls: cls(o[0], o[1])))
    ks += [
        ('Neg', 1, lambda o: A.Neg(o[0])),
        ('Attribute', 1, lambda o: A.Attribute(o[0], al.attr)),
        ('Subscript', 1, lambda o: A.Subscript(o[0], al.key)),
        ('Function1', 1, lambda o: A.Function(al.func1, [o[0]])),
        ('Function2', 2, lambda o: A.Function(al.func2, [o[0], o[1]])),
        ('SelectTarget', 1, lambda o: _sel([A.Target(o[0], None)])),
        ('SelectWhere', 1, lambda o: _sel([A.Target(A.Column(al.col), al.alias)], A.Table(al.table), o[0])),
    ]
    return ks


def leaves(al):
    return [
        ('Column', lambda: A.Column(al.col)),
        ('Integer', lambda: A.Constant(al.int)),
        ('Decimal', lambda: A.Constant(al.dec)),
        ('Date', lambda: A.Constant(al.date)),
        ('String', lambda: A.Constant(al.str)),
        ('Null', lambda: A.Constant(None)),
        ('Boolean', lambda: A.Constant(True)),
        ('List', lambda: A.Constant([al.int, al.str])),
        ('Placeholder', lambda: A.Placeholder('')),
        ('NamedPlaceholder', lambda: A.Placeholder(al.phname)),
        ('Function0', lambda: A.Function(al.func0, [])),
        ('CountStar', lambda: A.Function('count', [A.Asterisk()])),
    ]


def fillers(al, depth, n):
    return [A.Column(name) for name in al.fill[depth][:n]]


def depth1(al, depth):
    """One tree per kind over plain columns, plus the leaves: the child alphabet."""
    out = []
    for name, n, build in kinds(al):
        out.append((name, build(fillers(al, depth, n))))
    for name, build in leaves(al):
        out.append((name, build()))
    return out


def with_slot(al, kind, slot, child, depth):
    name, n, build = kind
    ops = fillers(al, depth, n)
    ops[slot] = child
    return build(ops)


def matrix(al, depth):
    """(label, expression) for the complete parent x slot x child matrix; depth 3 nests once more."""
    ks = kinds(al)
    bottom = depth1(al, depth - 1)
    if depth == 3:
        bottom = [b for b in bottom if b[0] in D3_BOTTOM]
    if depth == 2:
        for kind in ks:
            for slot in range(kind[1]):
                for cname, child in bottom:
                    yield (kind[0], slot, cname), with_slot(al, kind, slot, child, 0)
    else:
        for kind in ks:
            for slot in range(kind[1]):
                for mid in ks:
                    for mslot in range(mid[1]):
                        for cname, child in bottom:
                            inner = with_slot(al, mid, mslot, child, 1)
                            yield (kind[0], slot, mid[0], mslot, cname), with_slot(al, kind, slot, inner, 0)


def boolean_extras(al):
    """n-ary And / Or shapes beyond the matrix: same-kind children in several positions at once."""
    c = [A.Column(n) for n in al.fill[0] + al.fill[1] + al.fill[2]]
    out = []
    for cls, other in ((A.And, A.Or), (A.Or, A.And)):
        out += [
            cls([cls([c[0], c[1]]), cls([c[2], c[3]])]),
            cls([cls([c[0], c[1]]), c[2], cls([c[3], c[4]])]),
            cls([cls([c[0], c[1], c[2]]), cls([c[3], c[4], c[5]]), cls([c[6], c[7]])]),
            cls([other([c[0], c[1]]), other([c[2], c[3]])]),
            cls([other([c[0], c[1]]), cls([c[2], c[3]]), other([c[4], c[5]])]),
            cls([cls([cls([c[0], c[1]]), c[2]]), c[3]]),
            cls([c[0], cls([c[1], cls([c[2], c[3]])])]),
            cls([A.Not(cls([c[0], c[1]])), A.Not(A.Not(c[2]))]),
            cls([A.Between(c[0], c[1], c[2]), A.Between(c[3], cls([c[4], c[5]]), other([c[6], c[7]]))]),
        ]
    return out


# ---------------------------------------------------------------------------------------------------------
# literals and identifiers

LITERAL_TEXTS = [
    # text, expected python value
    ('NULL', None), ('null', None), ('Null', None),
    ('TRUE', True), ('true', True), ('True', True), ('FALSE', False), ('false', False), ('fAlSe', False),
    ('0', 0), ('1', 1), ('42', 42), ('007', 7), ('00', 0), ('1234567890123456789012', 1234567890123456789012),
    ('1.', D('1')), ('.5', D('0.5')), ('1.50', D('1.50')), ('0.0', D('0.0')), ('00.10', D('0.10')),
    ('123.456', D('123.456')),
    # more digits than the default decimal context keeps (28): a literal is the number as written
    ('1.0000000000000000000000000001', D('1.0000000000000000000000000001')), ('1.00000000000000000000000000000000000001', D('1.00000000000000000000000000000000000001')),
    ('123456789012345678901234567890.5', D('123456789012345678901234567890.5')), ('99999999999999999999999999999.99', D('99999999999999999999999999999.99')),
    ('.0000000000000000000000000000000000012345', D('0.0000000000000000000000000000000000012345')), ('.0', D('0.0')), ('0.', D('0')), ('10.', D('10')), ('.000001', D('0.000001')),
    ('2020-01-01', DATE(2020, 1, 1)), ('2020-02-29', DATE(2020, 2, 29)), ('2019-12-31', DATE(2019, 12, 31)),
    ('2021-04-30', DATE(2021, 4, 30)), ('2000-02-29', DATE(2000, 2, 29)), ('1900-02-28', DATE(1900, 2, 28)),
    ('0001-01-01', DATE(1, 1, 1)), ('9999-12-31', DATE(9999, 12, 31)), ('2021-01-31', DATE(2021, 1, 31)),
    ("'a'", 'a'), ('"a"', 'a'), ("''", ''), ('""', ''), ("'it\"s'", 'it"s'), ('"it\'s"', "it's"),
    ("'Assets:Cash'", 'Assets:Cash'), ("' spaced  out '", ' spaced  out '), ("'/* no comment */'", '/* no comment */'),
    ("'; not a comment'", '; not a comment'), ("'two\nlines'", 'two\nlines'), ("'%s'", '%s'), ("'é中'", 'é中'),
    # the OTHER kind of quote at the start / end of the content, alone, and on both sides
    ("\"'q'\"", "'q'"), ("'\"q\"'", '"q"'), ("'\"'", '"'), ("\"'\"", "'"), ("'say \"hi\"'", 'say "hi"'), ("\"x'\"", "x'"), ("'\"x'", '"x'),
    ("\"''\"", "''"), ("'\"\"'", '""'),
    # white space characters inside a string are content: TAB (alone, leading, trailing, repeated), CR, form feed, no-break space
    ("'a\tb'", 'a\tb'), ("'\t'", '\t'), ('"\tlead"', '\tlead'), ("'trail\t'", 'trail\t'), ("'a\t\tb c\td'", 'a\t\tb c\td'), ("'cr\rlf\n'", 'cr\rlf\n'),
    ("'ff\x0cvt\x0b'", 'ff\x0cvt\x0b'), ("'nb\xa0sp'", 'nb\xa0sp'), ("'  '", '  '), ("' '", ' '),
    ("'SELECT'", 'SELECT'), ('"NULL"', 'NULL'), ("'2020-01-01'", '2020-01-01'), ("'1.5'", '1.5'), ("'back\\slash'", 'back\\slash'),
]

LIST_ALPHABET_TEXTS = [('1', 1), ('2.5', D('2.5')), ('2020-02-29', DATE(2020, 2, 29)), ("'s'", 's'), ('"d"', 'd'), ('TRUE', True), ('false', False)]


def literal_cases(al):
    """(label, text, expected statement AST): every literal spelling in four contexts; all lists."""
    c = A.Column(al.col)
    for text, value in LITERAL_TEXTS:
        k = A.Constant(value)
        yield ('target', text), f'SELECT {text}', _sel([A.Target(k, None)])
        yield ('operand', text), f'SELECT {al.col} = {text} AS {al.alias}', _sel([A.Target(A.Equal(c, k), al.alias)])
        yield ('argument', text), f'SELECT {al.func1}({text}, {text})', _sel([A.Target(A.Function(al.func1, [k, A.Constant(value)]), None)])
        yield ('where', text), f'SELECT * WHERE {text} != {al.col}', _sel(A.Asterisk(), None, A.NotEqual(k, c))
        if value is not None:
            yield ('list1', text), f'SELECT {al.col} IN ({text},)', _sel([A.Target(A.In(c, A.Constant([value])), None)])
            yield ('list2', text), f'SELECT ({text}, {text})', _sel([A.Target(A.Constant([value, value]), None)])
    for n in (1, 2, 3):
        for combo in itertools.product(LIST_ALPHABET_TEXTS, repeat=n):
            text = '(' + ', '.join(t for t, _ in combo) + (',' if n == 1 else '') + ')'
            yield ('list', n), f'SELECT {text}', _sel([A.Target(A.Constant([v for _, v in combo]), None)])


IDENT_PLAIN = ['a', '_', '_x', 'x_', 'a_b_c', 's', 'x' * 40, 'z9', 'abc123', '__init__', 'o', 'n', 'e5']


def ident_positions(al):
    """(position name, builder(identifier) -> statement AST)"""
    c = A.Column(al.col)
    d = A.Column(al.fill[0][0])
    t = A.Table(al.table)
    return [
        ('first-target', lambda i: _sel([A.Target(A.Column(i), None)])),
        ('later-target', lambda i: _sel([A.Target(c, None), A.Target(A.Column(i), None)])),
        ('right-operand', lambda i: _sel([A.Target(A.Add(c, A.Column(i)), None)])),
        ('left-operand', lambda i: _sel([A.Target(A.Less(A.Column(i), c), None)])),
        ('not-operand', lambda i: _sel([A.Target(A.Not(A.Column(i)), None)])),
        ('and-argument', lambda i: _sel([A.Target(A.And([A.IsNull(c), A.Column(i)]), None)])),
        ('function-name', lambda i: _sel([A.Target(A.Function(i, [c]), None)])),
        ('function-argument', lambda i: _sel([A.Target(A.Function(al.func1, [A.Column(i)]), None)])),
        ('attribute-name', lambda i: _sel([A.Target(A.Attribute(c, i), None)])),
        ('alias', lambda i: _sel([A.Target(A.Mul(c, d), i)])),
        ('placeholder-name', lambda i: _sel([A.Target(A.Placeholder(i), None)])),
        ('where', lambda i: _sel([A.Target(c, None)], t, A.Column(i))),
        ('group-order-pivot', lambda i: _sel([A.Target(c, i), A.Target(d, None), A.Target(A.Function('count', [A.Asterisk()]), None)], t, None,
                                             A.GroupBy([A.Column(i), d], None), [A.OrderBy(A.Column(i), A.Ordering.DESC)], A.PivotBy([A.Column(i), 2]))),
        ('from-expression', lambda i: _sel([A.Target(c, None)], A.From(A.Column(i), None, None, True))),
        ('summary-function', lambda i: A.Balances(i, None, A.Column(i))),
    ]


def ident_cases(al, thorough=True):
    """(label, identifier, ast).  Reserved words followed by alphanumerics must be plain identifiers
    (TatSu's name guard); reserved words followed by '_' are the finding described in the module docstring."""
    names = [(n, 'plain') for n in (IDENT_PLAIN if thorough else IDENT_PLAIN[:7])]
    for w in sorted(RESERVED):
        names += [(w + '1', 'reserved+alnum'), (w + '_x', 'reserved+underscore')]
        if thorough:
            names += [(w + 'x', 'reserved+alnum'), (w[0] + w, 'alnum+reserved'), ('_' + w, 'underscore+reserved'), (w + '_', 'reserved+underscore')]
    key_positions = ('first-target', 'not-operand', 'and-argument', 'from-expression', 'summary-function')
    for name, cls in names:
        if name in RESERVED:
            continue
        for pos, build in ident_positions(al):
            if not thorough and cls == 'reserved+alnum' and pos not in key_positions:
                continue        # quick: the positions where a word token is tried before an identifier
            yield (cls, pos), name, build(name)


# ---------------------------------------------------------------------------------------------------------
# subtraction chains of integer literals (the date literal YYYY-MM-DD must not swallow them)

INT_CHAINS = [
    [2020, 1, 5], [2020, 1, 15], [2020, 10, 5], [2020, 12, 31], [2020, 13, 5], [2020, 2, 30], [2020, 1, 555], [2020, 12, 315], [1999, 9, 9],
    [12345, 1, 1], [12345, 11, 11], [999, 1, 1], [999, 12, 31], [2020, 1], [2020, 12], [2020, 1, 5, 3], [2020, 12, 31, 10], [0, 0, 0], [2015, 1, 4],
]
# spellings that no AST print produces (leading zeros): text -> chain of values, or a date
INT_CHAIN_TEXTS = [
    ('2020-01-5', [2020, 1, 5]), ('2020-1-05', [2020, 1, 5]), ('2020-001-05', [2020, 1, 5]), ('02020-01-05', [2020, 1, 5]), ('2020-1-5', [2020, 1, 5]),
    ('2020 - 01 - 05', [2020, 1, 5]), ('2020- 01-05', [2020, 1, 5]), ('2020 -01-05', [2020, 1, 5]), ('2020-01 -05', [2020, 1, 5]), ('2020-01- 05', [2020, 1, 5]),
    ('2020-13-5', [2020, 13, 5]), ('2020-2-30', [2020, 2, 30]), ('1999-9-9', [1999, 9, 9]), ('2020-1-555', [2020, 1, 555]),
    ('2020-01-05', DATE(2020, 1, 5)), ('2020-12-31', DATE(2020, 12, 31)),
]


REJECT = 'REJECT'       # expected outcome of a text that has no AST


def _chain(values, first=None):
    e = first if first is not None else A.Constant(values[0])
    for v in (values if first is not None else values[1:]):
        e = A.Sub(e, A.Constant(v))
    return e


def _in_positions(al, e):
    c = A.Column(al.col)
    yield 'target', _sel([A.Target(e, None)])
    yield 'where', _sel([A.Target(c, None)], A.Table(al.table), A.Greater(e, A.Constant(0)))
    yield 'from', _sel([A.Target(c, None)], A.From(A.Equal(A.Column('year'), e), None, None, None))
    yield 'having', _sel([A.Target(c, None), A.Target(A.Function('count', [A.Asterisk()]), None)], A.Table(al.table), None,
                         A.GroupBy([1], A.Less(e, A.Function('count', [A.Asterisk()]))))


def int_chain_cases(al):
    """(label, statement AST) to be printed tight and spaced; (label, text, expected AST) for the text table."""
    for values in INT_CHAINS:
        for first in (None, A.Column('year'), A.Neg(A.Constant(7))):
            e = _chain(values, first)
            for pos, st in _in_positions(al, e):
                if first is None or pos in ('target', 'where'):
                    yield ('ast', (pos, '-'.join(map(str, values)), type(first).__name__), st)
    # dddd-dd-dd is one date token; when it is no calendar date the text has no AST at all (in particular it is
    # not the subtraction chain, whose tight print is kept away from this shape by the printer)
    for text in ('2021-02-30', '2021-13-01', '2021-02-29', '2020-04-31', '2020-00-10', '2020-12-32'):
        yield ('text', ('target', text), f'SELECT {text}', REJECT)
        yield ('text', ('operand', text), f'SELECT {al.col}-{text} AS {al.alias}', REJECT)
        yield ('text', ('where', text), f'SELECT * WHERE {al.col} < {text}', REJECT)
    for text, exp in INT_CHAIN_TEXTS:
        e = A.Constant(exp) if isinstance(exp, DATE) else _chain(exp)
        yield ('text', ('target', text), f'SELECT {text}', _sel([A.Target(e, None)]))
        yield ('text', ('operand', text), f'SELECT {al.col}-{text} AS {al.alias}',
               _sel([A.Target(A.Sub(A.Column(al.col), e) if isinstance(exp, DATE) else _chain(exp, A.Column(al.col)), al.alias)]))
        yield ('text', ('where', text), f'SELECT * WHERE {text}>{al.col}', _sel(A.Asterisk(), None, A.Greater(e, A.Column(al.col))))


def minus_run_cases(al):
    """Adjacent minus signs (binary minus before unary minus, unary minus twice) written without blanks: `a--b`,
    `--b`, `a---b` are arithmetic, not the start of a comment.  (label, text, expected statement AST): the tight
    expression alone, followed by further clauses on the SAME line, and followed by a newline."""
    from ..unparse import unparse
    a, b, c = (A.Column(n) for n in al.fill[0])
    pairs = [(a, b), (A.Constant(7), A.Constant(2)), (A.Constant(D('1.5')), A.Constant(D('0.25'))), (c, A.Constant(3)), (A.Constant(2020), a)]
    shapes = [
        ('x--y', lambda x, y: A.Sub(x, A.Neg(y))),
        ('--y', lambda x, y: A.Neg(A.Neg(y))),
        ('x---y', lambda x, y: A.Sub(x, A.Neg(A.Neg(y)))),
        ('---y', lambda x, y: A.Neg(A.Neg(A.Neg(y)))),
        ('x+--y', lambda x, y: A.Add(x, A.Neg(A.Neg(y)))),
        ('x*--y', lambda x, y: A.Mul(x, A.Neg(A.Neg(y)))),
        ('x<--y', lambda x, y: A.Less(x, A.Neg(A.Neg(y)))),
        ('--x--y', lambda x, y: A.Sub(A.Neg(A.Neg(x)), A.Neg(y))),
        ('f(--x)--y', lambda x, y: A.Sub(A.Function(al.func1, [A.Neg(A.Neg(x))]), A.Neg(y))),
        ('x--y--x', lambda x, y: A.Sub(A.Sub(x, A.Neg(y)), A.Neg(x))),
    ]
    t = A.Table(al.table)
    for sname, build in shapes:
        for pi, (x, y) in enumerate(pairs):
            e = build(x, y)
            w = A.Greater(build(y, x), A.Constant(0))
            et = unparse(e, 'minimal', 3, ends=False)
            wt = unparse(w, 'minimal', 3, ends=False)
            lab = (sname, pi)
            yield lab + ('alone',), f'SELECT {et}', _sel([A.Target(e, None)])
            yield lab + ('alias-same-line',), f'SELECT {et} AS {al.alias}, {al.col}', _sel([A.Target(e, al.alias), A.Target(A.Column(al.col), None)])
            yield lab + ('clauses-same-line',), f'SELECT {et} FROM #{al.table} WHERE {wt} ORDER BY 1 DESC LIMIT 3', \
                _sel([A.Target(e, None)], t, w, None, [A.OrderBy(1, A.Ordering.DESC)], None, 3)
            yield lab + ('clauses-next-line',), f'SELECT {et}\nFROM #{al.table}\nWHERE {wt}\nLIMIT 3\n', _sel([A.Target(e, None)], t, w, None, None, None, 3)
            yield lab + ('semicolon',), f'SELECT {al.col}, {et}; trailing comment', _sel([A.Target(A.Column(al.col), None), A.Target(e, None)])


def printer_selfcheck():
    """The tight print of an integer subtraction chain must be tight unless that would spell a date literal
    (harness assertion, not a verdict)."""
    from ..unparse import unparse
    x, y = A.Column('x'), A.Column('y')
    for e, want in ((A.Sub(x, A.Neg(y)), 'x--y'), (A.Neg(A.Neg(y)), '--y'), (A.Sub(x, A.Neg(A.Neg(y))), 'x---y'),
                    (A.Sub(A.Constant(7), A.Neg(A.Constant(2))), '7--2'), (A.Mul(x, A.Neg(A.Neg(A.Constant(D('1.5'))))), 'x*--1.5')):
        got = unparse(e, 'minimal', 3)
        if got != want:
            raise AssertionError(f'tight print of {e!r} is {got!r}, expected {want!r} (adjacent minus signs need no blank)')
    for values, want in (([2020, 1, 5], '2020-1-5'), ([2020, 12, 31], '2020 -12-31'), ([12345, 12, 31], '12345-12-31'), ([999, 12, 31], '999-12-31'),
                         ([2020, 12, 315], '2020 -12-315'), ([2020, 13, 5], '2020-13-5'), ([2020, 12, 31, 10], '2020 -12-31-10')):
        got = unparse(_chain(values), 'minimal', 3)
        if got != want:
            raise AssertionError(f'tight print of the subtraction chain {values} is {got!r}, expected {want!r}')
        for style in (0, 1, 2, 3):
            import re
            if re.search(r'(?<!\d)\d{4}-\d{2}-\d{2}', unparse(_chain(values), 'minimal', style)):
                raise AssertionError(f'the print of the subtraction chain {values} in style {style} contains a date literal')


# ---------------------------------------------------------------------------------------------------------
# statements

def from_forms(al):
    """Every subset of expression / OPEN ON / CLOSE [ON date] / CLEAR that has a text (35 forms)."""
    exprs = [None, A.Column(al.fill[2][0]), A.And([A.Equal(A.Function('year', [A.Column('date')]), A.Constant(2020)),
                                                    A.Match(A.Column('account'), A.Constant('Expenses'))])]
    for e in exprs:
        for o in (None, DATE(2020, 1, 1)):
            for cl in (None, True, DATE(2020, 12, 31)):
                for cr in (None, True):
                    if e is None and o is None and cl is None and cr is None:
                        continue
                    yield A.From(e, o, cl, cr)


def select_from_forms(al):
    inner1 = _sel([A.Target(A.Column(al.col), None)], A.Table(al.table))
    inner2 = _sel([A.Target(A.Column(al.col), al.alias), A.Target(A.Function('sum', [A.Column('x')]), None)], A.Table(''),
                  A.Greater(A.Column('x'), A.Constant(0)), A.GroupBy([1], None), [A.OrderBy(2, A.Ordering.DESC)], None, 5, True)
    inner3 = _sel(A.Asterisk(), _sel([A.Target(A.Column(al.col), None)], A.From(A.Column('q'), None, True, None)))
    forms = [A.Table(al.table), A.Table(''), A.Table('_T9'), A.Table('UPPER'), inner1, inner2, inner3]
    forms += list(from_forms(al))
    forms.append(A.From(_sel([A.Target(A.Column(al.col), None)]), None, None, None))     # FROM ((SELECT ...))
    return forms


def groupby_shapes(al, ntargets):
    c, e = A.Column(al.fill[1][0]), A.Function(al.func1, [A.Column(al.fill[1][1])])
    return [
        [1], [c], [e], [ntargets, c, e], [A.Constant(1)], [A.Add(A.Constant(1), c)], [A.Constant(al.date)], [A.Constant(D('1.5')), 1],
        [A.Neg(A.Constant(1))], [A.Constant('s'), A.Constant([1, 2])], [0, 10],
    ]


def orderby_shapes(al, ntargets):
    c, e = A.Column(al.fill[1][0]), A.Sub(A.Column(al.fill[1][1]), A.Constant(1))
    ASC, DESC = A.Ordering.ASC, A.Ordering.DESC
    return [
        [A.OrderBy(1, ASC)], [A.OrderBy(1, DESC)], [A.OrderBy(c, ASC)], [A.OrderBy(c, DESC)], [A.OrderBy(e, DESC)],
        [A.OrderBy(e, ASC), A.OrderBy(ntargets, DESC), A.OrderBy(c, ASC)], [A.OrderBy(A.Constant(1), DESC), A.OrderBy(1, ASC)],
        [A.OrderBy(A.Mul(A.Constant(2), c), ASC)], [A.OrderBy(A.Constant(al.date), DESC)], [A.OrderBy(A.Constant(D('0.5')), ASC)],
        [A.OrderBy(A.IsNull(c), DESC), A.OrderBy(A.Not(c), ASC)],
    ]


def pivot_shapes(al):
    return [[1, 2], [A.Column(al.alias), 2], [1, A.Column(al.col)], [A.Column(al.alias), A.Column(al.col)], [2, 1]]


def target_shapes(al):
    c = A.Column(al.col)
    return [
        A.Asterisk(),
        [A.Target(c, None)],
        [A.Target(A.Add(c, A.Constant(1)), al.alias), A.Target(c, None), A.Target(A.Function('sum', [A.Column('x')]), None)],
    ]


def select_cases(al, thorough):
    """Every subset of the optional SELECT clauses x target shapes, plus every item shape once."""
    tshapes = target_shapes(al)
    where = A.Or([A.Equal(A.Column('x'), A.Constant(1)), A.IsNotNull(A.Column('y'))])
    having = A.Greater(A.Function('count', [A.Asterisk()]), A.Constant(1))
    i = j = 0
    for bits in itertools.product((0, 1), repeat=8):
        distinct, from_, wh, grp, hav, order, pivot, limit = bits
        if hav and not grp:
            continue
        j += 1
        for ti, targets in enumerate(tshapes):
            i += 1
            nt = 3 if isinstance(targets, list) and len(targets) == 3 else 1
            gs, os_, ps = groupby_shapes(al, nt), orderby_shapes(al, nt), pivot_shapes(al)
            if not thorough and ti != j % 3 and not (ti == 0 and sum(bits) <= 1):
                continue
            yield ('clauses', bits), _sel(
                targets,
                A.Table(al.table) if from_ else None,
                where if wh else None,
                A.GroupBy(gs[i % len(gs)], having if hav else None) if grp else None,
                os_[i % len(os_)] if order else None,
                A.PivotBy(ps[i % len(ps)]) if pivot else None,
                [0, 1, 10, 1000][i % 4] if limit else None,
                True if distinct else None)
    targets = tshapes[2]
    for g in groupby_shapes(al, 3):
        for hv in (None, having):
            yield ('groupby', len(g)), _sel(targets, A.Table(al.table), None, A.GroupBy(g, hv))
    for o in orderby_shapes(al, 3):
        yield ('orderby', len(o)), _sel(targets, None, None, None, o)
        yield ('orderby', len(o)), _sel(targets, A.Table(al.table), where, A.GroupBy([1, 2], None), o, A.PivotBy([1, 2]), 3)
    for p in pivot_shapes(al):
        yield ('pivotby', 2), _sel(targets, None, None, A.GroupBy([1, 2], None), None, A.PivotBy(p))
    for n, f in enumerate(select_from_forms(al)):
        if thorough or n % 2 == 0:
            yield ('from', type(f).__name__), _sel(targets, f)
        if thorough or n % 2 == 1:
            yield ('from', type(f).__name__), _sel(A.Asterisk(), f, where, None, [A.OrderBy(1, A.Ordering.ASC)], None, 2, True)
    # targets: aliases, many targets, every expression class as a target next to an alias
    many = [A.Target(A.Column(n), n + '_') for n in al.fill[0] + al.fill[1]]
    yield ('targets', len(many)), _sel(many)
    yield ('targets', 2), _sel([A.Target(A.Or([A.Column('a'), A.Column('b')]), 'o'), A.Target(A.Between(A.Column('a'), A.Constant(1), A.Constant(2)), 'b_')])


def other_statement_cases(al, thorough):
    """BALANCES [AT f] [FROM ...] [WHERE ...], JOURNAL [account] [AT f] [FROM ...], PRINT [FROM ...].
    thorough: the full product (every optional-part subset x every FROM form x summary functions / accounts);
    quick: every FROM form with a rotating choice of the other parts + every subset of the optional parts with
    two FROM forms."""
    forms = [None] + list(from_forms(al))
    where = A.And([A.Match(A.Column('account'), A.Constant('Assets')), A.Not(A.Column('flag'))])
    funcs = [None, 'cost', al.func1]
    accounts = [None, 'Assets:Cash', "it's", '']
    i = 0
    for fi, f in enumerate(forms):
        anchor = fi in (0, 1, len(forms) - 1)          # no FROM, the first and the last form: full product in quick too
        for fn in funcs:
            for wh in (None, where):
                i += 1
                if thorough or (anchor and fn != al.func1) or i % 6 == fi % 6:
                    yield ('balances', (fn is not None, f is not None, wh is not None)), A.Balances(fn, f, wh)
            for acc in accounts:
                i += 1
                if thorough or (anchor and fn != al.func1 and acc in (None, 'Assets:Cash')) or i % 12 == fi % 12:
                    yield ('journal', (acc is not None, fn is not None, f is not None)), A.Journal(acc, fn, f)
        yield ('print', (f is not None,)), A.Print(f)


# ---------------------------------------------------------------------------------------------------------
# rejected / nearly valid texts

TOKEN_ALPHABET = [
    'SELECT', 'FROM', 'WHERE', 'GROUP', 'BY', 'ORDER', 'a', '1', "'s'", '2020-01-01', '(', ')', ',', '+', '-', '*', 'AND', 'NOT',
    'IN', 'IS', 'NULL', '#t', '.', '[', ']', '%s', 'AS', 'DISTINCT', 'LIMIT', 'BALANCES', 'PRINT', 'OPEN', 'ON', 'CLOSE', 'CLEAR',
    ';', '/*', '*/', '=', '<', 'BETWEEN', 'PIVOT', 'HAVING', 'DESC', 'JOURNAL', 'AT', '%(x)s', '1.5', 'TRUE', 'OR',
]
EDIT_ALPHABET_QUICK = ['a', ',']
EDIT_ALPHABET_THOROUGH = ['SELECT', 'FROM', 'BY', 'a', '1', "'s'", '(', ')', ',', '-', 'AND', 'NOT', 'NULL', '#t', '.', '/*']

VALID_CORPUS = [
    "SELECT a",
    "SELECT *",
    "SELECT DISTINCT a , b AS c",
    "SELECT a + 1 * - b AS c FROM #t",
    "SELECT a FROM #t WHERE b = 1 AND NOT c",
    "SELECT a , count ( * ) FROM #t GROUP BY a",
    "SELECT a , sum ( b ) FROM #t GROUP BY 1 HAVING sum ( b ) > 0",
    "SELECT a , b FROM #t ORDER BY a DESC , 2 ASC",
    "SELECT a , b , sum ( c ) GROUP BY 1 , 2 PIVOT BY 1 , 2",
    "SELECT a LIMIT 10",
    "SELECT a FROM ( SELECT b AS a FROM #t )",
    "SELECT a FROM year = 2020 OPEN ON 2020-01-01 CLOSE ON 2021-01-01 CLEAR",
    "SELECT a FROM OPEN ON 2020-01-01",
    "SELECT a FROM CLOSE CLEAR",
    "SELECT a FROM CLEAR",
    "SELECT a IN ( 1 , 2 , 3 )",
    "SELECT a IN ( SELECT b FROM #u )",
    "SELECT a NOT IN ( 'x' , )",
    "SELECT a BETWEEN 1 AND 2 AND b",
    "SELECT a IS NULL OR b IS NOT NULL",
    "SELECT a ~ 'x' , b !~ 'y'",
    "SELECT a <= b , c >= d , e != f , g < h , i > j",
    "SELECT a . b [ 'k' ] . c",
    "SELECT f ( ) , g ( a , 1.5 , 'x' )",
    "SELECT %s , %(n)s",
    "SELECT - a % 2 / 3",
    "SELECT ( a + b ) * c - ( d - e )",
    "SELECT NULL , TRUE , FALSE , 1 , 1.50 , 2020-02-29 , 'a' , \"b\"",
    "SELECT a /* c */ , b ; tail",
    "SELECT a ;",
    "BALANCES",
    "BALANCES AT cost FROM year = 2020 WHERE account ~ 'A'",
    "JOURNAL",
    "JOURNAL 'Assets' AT units FROM CLOSE ON 2020-01-01",
    "PRINT",
    "PRINT FROM a OPEN ON 2020-01-01 CLOSE CLEAR",
    "SELECT a WHERE NOT a = b OR c AND d",
    "SELECT a FROM #",
    "SELECT a GROUP BY ( 1 ) , b + 1 ORDER BY ( 2 ) DESC",
    "SELECT DISTINCT * FROM #t WHERE a GROUP BY a HAVING b ORDER BY a PIVOT BY a , b LIMIT 1",
]

EDGE_TEXTS = [
    '', ' ', '\n', ';', '/* c */', '/* open', '; only a comment', 'SELECT', 'SELECT ', 'SELECT 2020-13-45', 'SELECT 2020-02-30', 'SELECT 0000-01-01',
    'SELECT 2021-02-29', 'SELECT ' + '9' * 5000, 'SELECT a LIMIT ' + '9' * 5000, 'SELECT 1.', 'SELECT .5', 'SELECT .', 'SELECT 1..2', 'SELECT 1.2.3',
    "SELECT 'a", 'SELECT "a', "SELECT 'a'b'", 'SELECT a b', 'SELECT a AS', 'SELECT a AS 1', 'SELECT a AS select', 'SELECT select', 'SELECT from',
    'SELECT a FROM', 'SELECT a FROM #1', 'SELECT a FROM # t', 'SELECT a FROM open', 'SELECT a FROM close x', 'SELECT a FROM OPEN 2020-01-01',
    'SELECT a = b = c', 'SELECT a < b < c', 'SELECT a IS NULL IS NULL', 'SELECT a BETWEEN b', 'SELECT a BETWEEN b AND', 'SELECT a NOT b', 'SELECT NOT',
    'SELECT a IS NOT', 'SELECT a IN', 'SELECT a +', 'SELECT + + a', 'SELECT +a', 'SELECT + 1', 'SELECT -', 'SELECT a.', 'SELECT a.1', 'SELECT a[1]', 'SELECT a[b]',
    "SELECT a['k'", 'SELECT (a', 'SELECT a)', 'SELECT ()', 'SELECT (,)', 'SELECT (1,,)', 'SELECT (1,(2,3))', 'SELECT (NULL,)', 'SELECT (1,NULL,2)', 'SELECT (a,)',
    'SELECT f(', 'SELECT f(,)', 'SELECT f(a,)', 'SELECT f(*,a)', 'SELECT f(*)', 'SELECT count(*)', 'SELECT %', 'SELECT %x', 'SELECT %()s', 'SELECT %(1)s', 'SELECT %(a)',
    'SELECT a GROUP', 'SELECT a GROUP BY', 'SELECT a GROUP BY 1 +', 'SELECT a GROUP BY 1 + 1', 'SELECT a ORDER BY 1 + 1', 'SELECT a ORDER BY a ASC DESC',
    'SELECT a PIVOT BY 1', 'SELECT a PIVOT BY 1, 2, 3', 'SELECT a PIVOT BY a.b, 1', 'SELECT a PIVOT BY (1), 2', 'SELECT a LIMIT', 'SELECT a LIMIT a', 'SELECT a LIMIT 1.5',
    'SELECT a LIMIT -1', 'SELECT a LIMIT 1 LIMIT 2', 'SELECT a WHERE b WHERE c', 'SELECT a ORDER BY b GROUP BY c', 'SELECT a HAVING b', 'SELECT a, FROM #t', 'SELECT , a',
    'SELECT a;;', 'SELECT a; SELECT b', 'SELECT a /* unclosed', 'SELECT a */', 'SELECT a -- b', 'SELECT a # b', 'BALANCES AT', 'BALANCES AT 1', 'BALANCES FROM #t',
    'BALANCES WHERE', 'JOURNAL a', "JOURNAL 'a' 'b'", 'JOURNAL AT', 'PRINT a', 'PRINT FROM', 'PRINT FROM #t', 'PRINT WHERE a', 'EXPLAIN SELECT a', 'select a from #t where',
    'SELECT not_x', 'SELECT null_x', 'SELECT a in_x', 'BALANCES at_x', 'SELECT a FROM open_x', 'SELECT 1FROM #t', 'SELECT aFROM #t', "SELECT 'a'AS b", 'SELECT a ASb',
    'SELECT a\x00', 'SELECT é', 'SELECT a b', 'SELECT a\tFROM\n#t\r\n', '﻿SELECT a',
]


def edits(thorough):
    """Every single-token deletion / substitution / insertion of the valid corpus (deduplicated, ordered)."""
    alphabet = EDIT_ALPHABET_THOROUGH if thorough else EDIT_ALPHABET_QUICK
    seen = set()
    for st in VALID_CORPUS:
        toks = st.split(' ')
        cands = [toks]
        for i in range(len(toks)):
            cands.append(toks[:i] + toks[i + 1:])
        for i in range(len(toks)):
            for t in alphabet:
                if t != toks[i]:
                    cands.append(toks[:i] + [t] + toks[i + 1:])
        for i in range(len(toks) + 1):
            for t in (alphabet if thorough else alphabet[:1]):
                cands.append(toks[:i] + [t] + toks[i:])
        for c in cands:
            text = ' '.join(c)
            if text not in seen:
                seen.add(text)
                yield text


def token_sequences():
    seen = set()
    for n in (0, 1, 2):
        for seq in itertools.product(TOKEN_ALPHABET, repeat=n):
            for prefix in ('', 'SELECT a '):
                text = prefix + ' '.join(seq)
                if text not in seen:
                    seen.add(text)
                    yield text


# ---------------------------------------------------------------------------------------------------------
# work units

ALL6 = [(p, s) for p in ('minimal', 'full') for s in (0, 1, 2)]
ALL8 = [(p, s) for p in ('minimal', 'full') for s in (0, 1, 2, 3)]

# bottom level of the depth-3 chains: one representative per rung of the ladder and per structural class
D3_BOTTOM = ['Or2', 'And2', 'Not', 'Equal', 'NotIn', 'IsNull', 'Between', 'Add', 'Mul', 'Neg', 'Attribute', 'SelectTarget', 'Column', 'List']


def prints_for(group, thorough, idx, light=False):
    """Which (parens, style) prints the idx-th AST of a group gets.  The first print is always a minimal one.
    A fully parenthesised text costs about three times a minimal one to parse (every pair of parentheses
    re-enters the whole expression chain of the PEG), so the minimal mode -- the one that carries the
    precedence statement -- gets every spelling and the full mode a spelling that rotates with idx; over
    a group every (mode, spelling) combination occurs."""
    if group in ('expr-d2', 'nary-bool'):
        if thorough:
            return [('minimal', 0), ('minimal', 1), ('minimal', 2), ('minimal', 3), ('full', idx % 4), ('full', (idx + 2) % 4)]
        return [('minimal', idx % 3)] + ([] if light else [('full', (idx + 1) % 3)])
    if group == 'ident':
        if thorough:
            return [('minimal', idx % 4), ('full', (idx + 1) % 4)]
        return [('minimal', idx % 3)] if idx % 4 else [('full', idx // 4 % 3)]
    if group == 'expr-d3':
        return [('minimal', idx % 4)] + ([('full', idx // 8 % 4)] if idx % 8 == 0 else [])
    if thorough:
        r = idx % 4
        return [('minimal', r), ('full', (r + 1) % 4), ('minimal', (r + 2) % 4), ('full', (r + 3) % 4)]
    r = idx % 3
    return [('minimal', r)] + ([('full', (r + 2) % 3)] if idx % 2 == 0 else [])


def units(tier, seed, diff_all=True):
    """Deterministic enumeration of work units.
    ('ast', group, label, node, parens, style, salt, diff) | ('text', group, label, text, expected or None, diff)
    diff: run the regenerated parser on this text too (always, unless its source is byte-identical to the
    shipped parser.py AND the tier is quick: then one print per AST and every rejected text are compared)."""
    thorough = tier == 'thorough'
    al = Alphabet(seed)

    def wrap(e):
        return _sel([A.Target(e, None)])

    def emit(group, label, node, idx, light=False):
        for j, (p, s) in enumerate(prints_for(group, thorough, idx, light)):
            # second parser: always, or (quick, byte-identical sources) on the first print of every AST -- of every
            # other cell for the big expression matrix
            diff = diff_all or (j == 0 and (group != 'expr-d2' or idx % 2 == 0))
            yield ('ast', group, label, node, p, s, seed + idx + j, diff)

    leaf_names = {name for name, _ in leaves(al)}
    idx = 0
    for label, e in matrix(al, 2):
        idx += 1
        # quick: a leaf child gets its fully parenthesised print under the first slot of each parent only
        yield from emit('expr-d2', label, wrap(e), idx, light=(not thorough and label[2] in leaf_names and label[1] > 0))
    for j, e in enumerate(boolean_extras(al)):
        idx += 1
        yield from emit('nary-bool', ('extra', j), wrap(e), idx)
    for label, text, exp in literal_cases(al):
        yield ('text', 'literal', label, text, exp, True)
    for kind, label, *rest in int_chain_cases(al):
        if kind == 'text':
            yield ('text', 'int-chain', label, rest[0], rest[1], True)
        else:
            idx += 1
            for j, (p, st) in enumerate([('minimal', 3), ('minimal', 0), ('full', 3)] + ([('minimal', 1), ('minimal', 2)] if thorough else [])):
                yield ('ast', 'int-chain', label, rest[0], p, st, seed + idx + j, diff_all or j == 0)
    for label, text, exp in minus_run_cases(al):
        yield ('text', 'minus-run', label, text, exp, True)
    for label, name, node in ident_cases(al, thorough):
        idx += 1
        yield from emit('ident', label + (name,), node, idx)
    for label, node in select_cases(al, thorough):
        idx += 1
        yield from emit('select', label, node, idx)
    for label, node in other_statement_cases(al, thorough):
        idx += 1
        yield from emit(label[0], label, node, idx)
    for text in EDGE_TEXTS:
        yield ('text', 'edge', None, text, None, True)
    for text in token_sequences():
        yield ('text', 'tokens', None, text, None, True)
    for text in edits(thorough):
        yield ('text', 'edits', None, text, None, True)
    if thorough:
        for j, (label, e) in enumerate(matrix(al, 3)):
            yield from emit('expr-d3', label, wrap(e), j)


def expr_levels(node):
    """Chain of precedence levels along the (single) nested path of a matrix tree, for fingerprints."""
    out = []
    try:
        e = node.targets[0].expression if isinstance(node, A.Select) and isinstance(node.targets, list) else None
    except Exception:   # noqa: BLE001
        e = None
    while isinstance(e, A.Node) and len(out) < 4:
        try:
            out.append(LEVEL_NAMES[level(e)])
        except NotExpressible:
            break
        nxt = None
        for f in getattr(e, '__dataclass_fields__', {}):
            if f == 'parseinfo':
                continue
            v = getattr(e, f)
            for c in (v if isinstance(v, list) else [v]):
                if isinstance(c, A.Node) and not isinstance(c, (A.Column, A.Target, A.Table, A.Asterisk)):
                    nxt = nxt or c
                elif isinstance(c, A.Target) and not isinstance(c.expression, A.Column):
                    nxt = nxt or c.expression
        e = nxt
    return '>'.join(out)


def underscore_after_reserved(name):
    return any(name.startswith(w + '_') for w in RESERVED)


def check_unit(u, acc):
    """Run one work unit on both parsers; returns the list of (fingerprint, what, case)."""
    out = []
    if u[0] == 'ast':
        _, group, label, node, parens, style, salt, diff = u
        try:
            toks = tokens(node, parens)
        except NotExpressible:
            acc.count('not_expressible_cells')
            acc.add('not_expressible', str(label[:3]))
            return out
        text = render(toks, style, salt)
        expected = node
        if parens == 'minimal' and (group.startswith('expr') or group == 'nary-bool') and count_grouping(node):
            acc.count('minimal_prints_needing_parentheses')
        acc.count(f'prints[{parens},style{style}]')
        if len(acc.samples) < 2 and salt % 41 == 0:
            acc.sample({'group': group, 'parens': parens, 'style': style, 'text': text[:300]}, limit=2)
    else:
        _, group, label, text, expected, diff = u[:6]
        parens, style = u[6] if len(u) > 6 else (None, None)      # replay of a printed AST keeps its print mode
    acc.count(f'texts[{group}]')
    acc.add('texts', hash(text))

    if expected == REJECT:
        acc.count('texts_expected_to_be_rejected')
        public = public_parse(text)
        if public[0] == 'ok':
            out.append(('literal:impossible-date-accepted', f'text {text!r} holds a dddd-dd-dd token that is no calendar date and must be rejected; '
                        f'it parses to {show(public)}', {'text': text, 'group': group, 'label': list(label), 'mode': 'must-reject'}))
        expected = None
    if expected is not None:
        public = public_parse(text)                 # the round trip goes through the public entry point
        shipped = public if public[0] == 'ok' else run_parser(bq_parser.parser, text)
    else:
        public = None
        shipped = run_parser(bq_parser.parser, text)   # same level as the regenerated parser (no error wrapping)
    acc.count('parses')
    if diff:
        regen = run_parser(_REGEN, text)
        acc.count('parses')
        acc.count('differential_texts')
    else:
        regen = None
        acc.count('differential_skipped_source_identical')
    acc.count(f'outcome[{shipped[0]}]')
    if shipped[0] == 'reject':
        acc.add('reject_positions', shipped[1])
    elif shipped[0] == 'crash':
        acc.add('crash_classes', shipped[1])

    base = {'text': text, 'group': group, 'label': list(label) if isinstance(label, tuple) else label}
    if expected is not None:
        acc.count('roundtrips')
        if group == 'expr-d2':
            acc.add('cells', label)
        elif group == 'expr-d3':
            acc.add('cells3', label)
        if not (public[0] == 'ok' and same_ast(public[1], expected)):
            if group == 'ident' and underscore_after_reserved(label[-1]):
                fp = 'ident:underscore-after-reserved-word'
                acc.add('underscore_identifiers_broken', (label[-1], label[1]))
            elif group.startswith('expr') or group == 'nary-bool':
                fp = f'roundtrip:{group}:{parens}:{expr_levels(expected)}'
            elif group == 'ident':
                fp = f'roundtrip:ident:{label[0]}:{label[1]}'
            elif group == 'literal':
                fp = f'roundtrip:literal:{type(_first_constant(expected)).__name__}'
            elif group == 'int-chain':
                fp = 'roundtrip:int-chain'
            elif group == 'minus-run':
                fp = 'roundtrip:minus-run'
            else:
                fp = f'roundtrip:{group}:{parens}'
            case = dict(base, mode='roundtrip', parens=parens, style=style, expected=ast_to_json(expected))
            out.append((fp, f'text {text!r} (printed with parens={parens}, style={style}) parses to {show(public)}; '
                            f'expected the AST it was printed from: {expected!r}', case))
        elif group == 'ident' and underscore_after_reserved(label[-1]):
            acc.add('underscore_identifiers_fine', (label[-1], label[1]))
    else:
        acc.count('no_expected_ast')
    if regen is None:
        pass
    elif not outcomes_agree(shipped, regen):
        kind = 'ast-differs' if shipped[0] == regen[0] == 'ok' else ('error-position-differs' if shipped[0] == regen[0] else 'accept-differs')
        out.append((f'parser-vs-grammar:{kind}',
                    f'text {text!r}: shipped parser -> {show(shipped)}; parser generated from bql.ebnf -> {show(regen)}',
                    dict(base, mode='parser-vs-grammar')))
    else:
        acc.count(f'agree[{shipped[0]}]')
    return out


def _first_constant(node):
    for n in node.walk():
        if isinstance(n, A.Constant):
            return n.value[0] if isinstance(n.value, list) else n.value
    return None


def shard_fn(shard, nshards, tier, seed, diff_all):
    acc = par.Acc()
    only = [g for g in os.environ.get('VERIF_C06_GROUPS', '').split(',') if g]     # development aid: restrict to some groups
    for i, u in enumerate(units(tier, seed, diff_all)):
        if i % nshards != shard or (only and u[1] not in only):
            continue
        for fp, what, case in check_unit(u, acc):
            acc.violation(fp, what, case)
        acc.count('units')
    return acc


def replay(case):
    load_regenerated()
    acc = par.Acc()
    expected = ast_from_json(case['expected']) if case.get('expected') is not None else None
    label = case.get('label')
    label = tuple(label) if isinstance(label, list) else label
    if case['mode'] == 'must-reject':
        return [Violation(fp, what, case) for fp, what, _ in check_unit(('text', case['group'], label, case['text'], REJECT, True), acc)]
    if case['mode'] == 'roundtrip':
        u = ('text', case['group'], label, case['text'], expected, True, (case.get('parens'), case.get('style')))
        res = check_unit(u, acc)
        # keep the mode of the recorded print in the message
        return [Violation(fp, what, case) for fp, what, _ in res]
    u = ('text', case['group'], label, case['text'], None, True)
    return [Violation(fp, what, case) for fp, what, _ in check_unit(u, acc)]


def run(ctx):
    load_regenerated()
    printer_selfcheck()
    if _REGEN_INFO['grammar_word_tokens_missing_from_RESERVED']:
        # the printer would use these words as identifiers: a harness problem, not a verdict
        raise AssertionError(f"the grammar has word tokens unknown to vt.unparse.RESERVED: {_REGEN_INFO['grammar_word_tokens_missing_from_RESERVED']}")
    diff_all = ctx.thorough or not _REGEN_INFO['generated_source_identical_to_shipped_parser_py'] or bool(os.environ.get('C06_DIFF_ALL'))
    total = par.run_shards(shard_fn, ctx.jobs, ctx.tier, ctx.seed, diff_all, nshards=ctx.jobs * 4)
    n = total.n
    s = total.sets
    al = Alphabet(ctx.seed)
    nkinds = len(kinds(al))
    nslots = sum(k[1] for k in kinds(al))
    nchildren = nkinds + len(leaves(al))
    cov = {
        'states': len(s['texts']),
        'transitions': n['parses'],
        'traces_validated_against_impl': n['units'],
        'evaluations': n['units'],
        'distinct_nontrivial': len(s['texts']),
        'rule': 'a case is one text: a printed AST (enumerated AST space x parenthesisation mode x spelling) or a member of the rejected / '
                'nearly-valid corpus; every case is parsed by the shipped and by the regenerated parser.  distinct & non-trivial = distinct '
                'texts (set of text hashes); trivial texts do not exist in the enumeration (every text has at least one token or is a listed edge case)',
        'exhaustive': True,
        'bound': (f'expression matrix depth 2 complete + depth-3 chains (all 54 x 54 slot pairs x {len(D3_BOTTOM)} bottom representatives); '
                  'statements: every clause subset x target shape' if ctx.thorough
                  else 'expression matrix depth 2; statements: every clause subset with rotating target shape'),
        'expression_kinds': nkinds, 'operand_slots': nslots, 'child_alphabet': nchildren,
        'matrix_cells_depth2_expected': nslots * nchildren,
        'matrix_cells_depth2_visited': len(s['cells']),
        'matrix_cells_depth3_visited': len(s['cells3']),
        'matrix_cells_without_text': sorted(s['not_expressible']),
        'not_expressible_prints_skipped': n['not_expressible_cells'],
        'roundtrips_compared': n['roundtrips'],
        'texts_without_expected_ast': n['no_expected_ast'],
        'texts_per_group': {k[6:-1]: v for k, v in sorted(n.items()) if k.startswith('texts[')},
        'prints_per_mode': {k[7:-1]: v for k, v in sorted(n.items()) if k.startswith('prints[')},
        'minimal_prints_needing_parentheses': n['minimal_prints_needing_parentheses'],
        'shipped_outcomes': {k[8:-1]: v for k, v in sorted(n.items()) if k.startswith('outcome[')},
        'both_parsers_agree': {k[6:-1]: v for k, v in sorted(n.items()) if k.startswith('agree[')},
        'distinct_rejection_positions': len(s['reject_positions']),
        'non_tatsu_exception_classes_raised_through_both_parsers': sorted(s['crash_classes']),
        'identifiers_reserved_plus_underscore': {'broken (identifier, position)': len(s['underscore_identifiers_broken']),
                                                 'fine (identifier, position)': len(s['underscore_identifiers_fine'])},
        'regenerated_parser': dict(_REGEN_INFO),
        'alphabet': al.describe(),
        'token_alphabet': TOKEN_ALPHABET,
        'valid_corpus_statements': len(VALID_CORPUS),
        'violating_cases': n['violating_cases'],
        'samples': total.samples[:8] + [{'group': 'edge', 'text': t} for t in EDGE_TEXTS[9:12]],
    }
    expected_cells = nslots * nchildren
    # the matrix must be complete: visited + cells without text == slots x children
    missing = expected_cells - len(s['cells']) - sum(1 for _ in _cells_without_text(al))
    restricted = bool(os.environ.get('VERIF_C06_GROUPS'))
    if restricted:
        cov['exhaustive'] = False
        cov['bound'] += ' -- RESTRICTED by VERIF_C06_GROUPS (development run)'
    elif missing:
        raise AssertionError(f'depth-2 matrix incomplete: {missing} cells neither visited nor inexpressible')
    total.violations.sort(key=lambda v: (v.fingerprint, len(v.case['text'])))
    return Result(cov, total.violations, assumptions=[
        'only ASTs that have a BQL text are generated (non-negative finite numerics, no NULL in lists, primaries under attribute/subscript, '
        'bare integers in GROUP/ORDER/PIVOT BY are indexes, identifiers are lower-case non-reserved words, strings hold one kind of quote)',
        'same rejection = TatSu ParseError at the same position; message and exception subclass are not compared; a foreign exception '
        '(ValueError for an invalid calendar date, ...) escaping both parsers alike counts as agreement (C05 owns that defect)',
        'byte identity of the regenerated parser source with parser.py is reported, not required',
        'table names, strings and the placeholder suffix keep their letter case; unary plus has no AST and is not printed',
    ])


def _cells_without_text(al):
    for label, e in matrix(al, 2):
        try:
            tokens(e)
        except NotExpressible:
            yield label
