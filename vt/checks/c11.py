"""C11 -- Ledger tables present the Beancount directives faithfully and completely.

Technique: bounded-exhaustive enumeration (E-enum).  For EVERY ledger of the shared ledger family
(vt.ledgers: all subsets of <= n snippets of a 27-letter directive alphabet on a fixed preamble of opens;
quick n <= 3, thorough n <= 4), loaded from text by the real Beancount loader, EVERY table (postings, entries,
transactions, prices, balances, notes, events, documents, accounts, commodities) is queried through AST
statements for ``*``, for all its columns at once and for EVERY column alone; plus the metadata functions
meta / entry_meta / any_meta for every metadata key that occurs anywhere in the ledger (keys only on the
posting, only on the entry, on both, on neither, of every value type) and one absent key, open_meta(account[, k]),
commodity_meta / currency_meta(currency[, k]), open_date, close_date (row arguments on postings / accounts /
commodities and constant arguments, known and unknown), the subscript form x['k'] of the same lookups over EVERY
dictionary-valued expression of every table (meta on postings, entries, every typed table and commodities;
entry.meta on postings; open.meta and close.meta on accounts; open_meta(account), commodity_meta(c),
currency_meta(c) with row and constant arguments) for every key of the ledger and the absent key, and the
structured attribute paths entry.*, position.units.*, position.cost.*, price.*, weight.*,
amount.*, open.*, close.*.  Ledgers containing a pad are explored a second time in the shape older Beancount
versions produce (pad postings with ``meta = None``, vt.ledgers.legacy_pad); the currency-accounts plugin of
the alphabet yields ``meta is None`` postings from text alone.  Ledgers outside the bound are added: the
full alphabet, a ledger with a failing balance assertion (non-NULL ``discrepancy``), a Close without Open, keys
named like row values, and ``falsy_values_mixed_case_keys``: the family's metadata values are all truthy except
FALSE on postings and its keys all lower-case, so this ledger puts the values whose truth value is false (0, 0.00,
FALSE, "", zero amount, NULL) next to truthy ones on every metadata-bearing level (commodity, open, close,
transaction, posting, note, price, balance, event, pad), under keys over the whole key alphabet of the Beancount
grammar (upper-case letters, digits, '-', '_'), every mixed-case key having an all-lower-case twin with a
different value (a missing key and a present falsy value, a key and its case-folded form must stay distinct).

Re-attach sweep: for ordered pairs (A, B) of ledgers (all pairs of the n <= 1 family; the full alphabet and the
error ledgers against that family, both directions) B is attached with ``Connection.attach('beancount:',
entries=..., errors=..., options=...)`` -- the call beanquery.connect() makes and the shell's ``.reload`` repeats on
its live connection -- to a connection that already had A attached and queried; the complete oracle of B must
hold on that connection: the ledger of a connection is the one attached last (fingerprint ``reattach``).

Oracle: vt.ref.ledger -- a direct traversal of the loaded entries written from the property text (no
beanquery code involved): row counts and every cell are compared, by (type, value), collections by kind.

Weakest readings (property silent or ambiguous -> both behaviours accepted):
  * any_meta(k) with k explicitly NULL on the posting: NULL or the transaction's value;
  * cost_label of a posting without cost: NULL or '';
  * filename / lineno / location of a posting row: the posting's or the transaction's line (NULL too when the
    posting has no metadata); location is 'filename:lineno' with or without a trailing colon;
  * description: a string that starts with the payee and ends with the narration (equal to the only one
    present; '' when neither);
  * entries table: tags / links / description of a non-transaction directive that has such an attribute of
    its own (Note, Document, Event): NULL or that attribute;
  * the rows of the accounts and commodities tables are matched by key (account / name), not by position
    (they are built from dictionaries; the property fixes no order); all other tables are compared in ledger
    order;
  * ``*`` may expand to any subset of the table's columns; every cell it yields must equal the column's value;
  * columns that the model does not know (extensions) are counted as ``unmodelled`` and not judged; columns
    named by the property must exist.
Fingerprints: ``<table>.<column>`` (wrong cell), ``<table>.rowcount``, ``<function>()`` (metadata / open /
close lookups), ``subscript[key]`` (all x['k'] lookups), ``<table>.<path>`` (attribute paths), crash fingerprint
for exceptions.
"""
import beanquery
from beanquery.parser import ast as A

from beancount.core import data

from .. import ledgers
from ..harness import select, crash_fingerprint
from ..par import Acc, run_shards
from ..ref import ledger as R
from ..runner import Result, Violation, jsonable

LEVEL = 'model_checking'

TABLES = ['postings', 'entries', 'transactions', 'prices', 'balances', 'notes', 'events', 'documents',
          'accounts', 'commodities']

REQUIRED = {
    'postings': ('id type filename lineno date year month day flag payee narration description tags links '
                 'location posting_flag account other_accounts number currency cost_number cost_currency '
                 'cost_date cost_label position price weight balance meta entry').split(),
    'entries': 'id type filename lineno date year month day flag payee narration description tags links meta'.split(),
    'accounts': ['account', 'open', 'close'],
    'commodities': ['meta', 'date', 'name'],
}
for _t, _cls in R.TYPED.items():
    _ren = {a: c for c, a in R.RENAMES.get(_t, {}).items()}
    REQUIRED[_t] = [_ren.get(f, f) for f in _cls._fields if f not in R.NOT_COLUMNS.get(_t, ())]

KEYED = {'accounts': 'account', 'commodities': 'name'}

ABSENT_KEY = 'no-such-key'
#: all x['key'] lookups: one mechanism (the dictionary x itself is judged as a whole under its own fingerprint)
SUBSCRIPT_FP = 'subscript[key]'
UNKNOWN_ACCOUNT = 'Assets:No:Such:Account'
UNKNOWN_CURRENCY = 'NOPE'

POSTING_PATHS = [
    ('entry', 'date'), ('entry', 'flag'), ('entry', 'payee'), ('entry', 'narration'), ('entry', 'tags'),
    ('entry', 'links'), ('entry', 'meta'),
    ('position', 'units'), ('position', 'cost'),
    ('position', 'units', 'number'), ('position', 'units', 'currency'),
    ('position', 'cost', 'number'), ('position', 'cost', 'currency'), ('position', 'cost', 'date'),
    ('position', 'cost', 'label'),
    ('price', 'number'), ('price', 'currency'), ('weight', 'number'), ('weight', 'currency'),
]
TABLE_PATHS = {
    'prices': [('amount', 'number'), ('amount', 'currency')],
    'balances': [('amount', 'number'), ('amount', 'currency'), ('discrepancy', 'number'), ('discrepancy', 'currency')],
    'accounts': [('open', 'meta'), ('open', 'date'), ('open', 'account'), ('open', 'currencies'), ('open', 'booking'),
                 ('close', 'meta'), ('close', 'date'), ('close', 'account')],
}


#: ledgers outside the family, local to this check (they may load WITH errors; all directives are kept)
EXTRAS = dict(ledgers.EXTRAS)
# a Close for an account that has no Open (validation error; #accounts lists it with open NULL), used by a posting
EXTRAS['close_without_open'] = ledgers.PREAMBLE + (
    '2020-01-03 * "Carried over"\n  Assets:Legacy  10.00 USD\n    p-str: "legacy"\n  Assets:Cash  -10.00 USD\n'
    '2020-06-30 close Assets:Legacy\n  c-str: "migrated"\n  o-str: "on the close"\n'
    '2020-12-30 close Liabilities:Card\n')
# metadata keys that are named like the lower-cased currency / account / narration / payee of the row, so that a
# key EXPRESSION (meta(lower(currency)), ...) selects a different, existing key on different rows
EXTRAS['row_keys'] = ledgers.PREAMBLE + (
    '2020-01-07 * "eur" "usd"\n  usd: "entry usd"\n  eur: 11\n  assets-bank: "entry bank"\n'
    '  Assets:Cash  -125.00 USD\n    usd: "cash usd"\n    eur: "cash eur"\n    assets-cash: 1\n    assets-bank: 2\n'
    '  Assets:Bank  100.00 EUR @ 1.25 USD\n    usd: "bank usd"\n    eur: 2020-01-01\n    assets-cash: 3\n    assets-bank: 4\n'
    '2020-01-08 * "usd" "eur"\n  eur: "second entry eur"\n  assets-cash: TRUE\n'
    '  Assets:Bank  -10.00 EUR @ 1.25 USD\n    eur: "b"\n  Assets:Cash  12.50 USD\n  Expenses:Fees  0.00 USD\n    usd: "fee"\n')
# metadata whose truth value is false (0, 0.00, FALSE, "", a zero amount, NULL) and truthy twins, on EVERY level that
# carries metadata (commodity, open, close, transaction, posting, note, price, balance, event, pad), under keys that
# use the whole key alphabet of the Beancount grammar ([a-z][a-zA-Z0-9-_]+: upper-case letters, digits, '-', '_');
# every mixed-case key has an all-lower-case twin holding a DIFFERENT value on the same or on another level, so
# that a lookup that folds, trims or otherwise rewrites the key, or that tests the value's truth instead of the key's
# presence, yields a different cell
EXTRAS['falsy_values_mixed_case_keys'] = ledgers.PREAMBLE + (
    '2020-01-02 commodity USD\n  name: ""\n  isoCode: "840"\n  isocode: "lower-commodity"\n  fee: 0\n  feeRate: 0.00\n'
    '  quoted: FALSE\n  tracked: TRUE\n  unit_Amt: 0.00 USD\n  nothing:\n'
    '2020-01-02 commodity ZRO\n  fee: 0.00\n  isocode: ""\n  feerate: 2\n'
    '2020-01-02 commodity EUR\n  quoted: TRUE\n  fee: 1.5\n  isoCode: ""\n'
    '2020-01-04 open Assets:Zero USD,ZRO\n  bankName: "First Bank"\n  bankname: ""\n  limit: 0\n  active: FALSE\n  x2_Y-z: 0.0\n'
    '2020-01-04 open Assets:Nil\n  bankName: ""\n  limit: 5\n  active: TRUE\n'
    '2020-01-05 * "" "falsy values"\n  invoiceId: "INV-1"\n  invoiceid: ""\n  count: 0\n  done: FALSE\n  both_Keys: 0\n  fee: "entry fee"\n'
    '  Assets:Zero  10.00 USD\n    receiptNo: 0\n    receiptno: 17\n    done: TRUE\n    invoiceId: ""\n    both_Keys: FALSE\n'
    '  Assets:Cash  -10.00 USD\n    receiptNo: 0.00\n    count: ""\n    done: FALSE\n    bankName: 0\n'
    '2020-01-06 * "P" "second"\n  invoiceId: 0\n  invoiceid: "lower-2"\n  done: TRUE\n'
    '  Assets:Zero  0.00 USD\n    zeroAmt: 0.00 USD\n    zeroamt: 1.00 USD\n    invoiceid: FALSE\n'
    '  Assets:Nil  0 ZRO\n'
    '  Assets:Bank  0.00 EUR\n    receiptNo: 18\n    receiptno: 0\n'
    '2020-01-07 note Assets:Zero ""\n  writtenBy: ""\n  writtenby: "me"\n  count: 0\n'
    '2020-01-08 price ZRO 0 USD\n  srcName: ""\n  srcname: "feed"\n'
    '2020-01-09 balance Assets:Zero 10.00 USD\n  checkedBy: FALSE\n  checkedby: TRUE\n'
    '2020-01-10 event "emptyEvent" ""\n  evKey: 0\n  evkey: 1\n'
    '2020-02-01 pad Assets:Nil Equity:Opening-Balances\n  padKey: ""\n  padkey: "p"\n'
    '2020-02-02 balance Assets:Nil 1 ZRO\n'
    '2020-12-31 close Assets:Zero\n  closedBy: ""\n  closedby: 0\n')


def _re_sub_colon(account):
    return account.lower().replace(':', '-')


def F(name, *args):
    return A.Function(name, list(args))


def K(v):
    return A.Constant(v)


def col(name):
    return A.Column(name)


#: key expressions that vary by row: (text, ast builder, reference key of a posting row model)
ROW_KEYS = [
    ('lower(currency)', lambda: F('lower', col('currency')), lambda r: r['currency'].lower()),
    ("subst(':', '-', lower(account))", lambda: F('subst', K(':'), K('-'), F('lower', col('account'))),
     lambda r: _re_sub_colon(r['account'])),
    ('narration', lambda: col('narration'), lambda r: r['narration']),
    ('payee', lambda: col('payee'), lambda r: r['payee']),
]


def sub(node, key):
    """node['key']"""
    return A.Subscript(node, key)


def path_ast(path):
    node = A.Column(path[0])
    for name in path[1:]:
        node = A.Attribute(node, name)
    return node


class T:
    """One target: display text, AST, fingerprint, expectation function (row model -> expectation)."""
    __slots__ = ('text', 'node', 'fp', 'exp')

    def __init__(self, text, node, fp, exp):
        self.text, self.node, self.fp, self.exp = text, node, fp, exp


def column_target(table, name):
    return T(name, A.Column(name), f'{table}.{name}', lambda r, n=name: r[n])


class Explorer:
    """All queries of one (ledger, variant) against its reference rows."""

    def __init__(self, acc, entries, errors, options, label, case, conn=None, fp=None):
        self.acc = acc
        self.entries = entries
        self.label = label
        self.case = case
        # conn given: a connection on which this ledger was attached AFTER another one (re-attach sweep)
        self.conn = conn or beanquery.connect('beancount:', entries=entries, errors=errors, options=options)
        self.fp = fp
        self.unmodelled = set()

    # -- plumbing ----------------------------------------------------------------------------------
    def violation(self, fp, what):
        if self.fp:
            what = f'[{fp}] {what}'
            fp = self.fp
        self.acc.violation(fp, f'ledger {self.label}: {what}', dict(self.case, fingerprint=fp))

    def execute(self, table, targets, star=False):
        """-> (names, rows) or None after recording a crash."""
        acc = self.acc
        if star:
            stmt = select(A.Asterisk(), from_=A.Table(table))
            text = f'SELECT * FROM #{table}'
        else:
            stmt = select([A.Target(t.node, f'c{i}') for i, t in enumerate(targets)], from_=A.Table(table))
            text = f'SELECT {", ".join(t.text for t in targets)} FROM #{table}'
        acc.count('queries')
        try:
            cur = self.conn.execute(stmt)
            names = [d.name for d in cur.description]
            rows = cur.fetchall()
        except Exception as exc:
            missing = (not star and len(targets) == 1 and isinstance(exc, beanquery.CompilationError)
                       and 'does not exist' in str(exc))
            fp = f'{targets[0].fp}:missing' if missing else crash_fingerprint(exc)
            self.violation(fp, f'{text} raised {type(exc).__name__}: {exc}')
            return None
        return text, names, rows

    def compare(self, table, targets, model, star=False):
        """Execute and compare row count and every cell with the model rows."""
        acc = self.acc
        res = self.execute(table, targets, star)
        if res is None:
            return
        text, names, rows = res
        if star:
            targets = []
            for n in names:
                if model and n not in model[0]:
                    self.unmodelled.add((table, n))
                    targets.append(None)
                else:
                    targets.append(column_target(table, n))
            if len(set(names)) != len(names):
                self.violation(f'{table}.*', f'{text} yields repeated column names {names}')
        key = KEYED.get(table)
        if len(rows) != len(model):
            self.violation(f'{table}.rowcount', f'{text} yields {len(rows)} rows, expected {len(model)} '
                           f'(one per {"posting" if table == "postings" else "directive / key"})')
            return
        if key is not None and rows and (not star or key in names):
            # match by key: the first target of every query on a keyed table is the key column
            kpos = names.index(key) if star else 0
            bykey = {}
            for r in rows:
                bykey.setdefault(r[kpos], []).append(r)
            want = [m[key] for m in model]
            if sorted(bykey, key=repr) != sorted(want, key=repr) or any(len(v) != 1 for v in bykey.values()):
                self.violation(f'{table}.{key}', f'{text} yields keys {sorted(bykey, key=repr)}, expected {sorted(want)}')
                return
            rows = [bykey[k][0] for k in want]
        acc.count('rows', len(rows))
        acc.count(f'rows:{table}', len(rows))
        for i, (got_row, m) in enumerate(zip(rows, model)):
            if len(got_row) != len(targets):
                self.violation(f'{table}.rowwidth', f'{text} row {i} has {len(got_row)} cells for {len(targets)} targets')
                return
            for t, got in zip(targets, got_row):
                if t is None:
                    continue
                exp = t.exp(m)
                acc.count('cells')
                if got is None:
                    acc.count('null_cells')
                if isinstance(exp, (R.OneOf, R.Pred)):
                    acc.count('weak_cells')
                if not R.same(got, exp):
                    self.violation(t.fp, f'{text}: row {i} target {t.text}: expected {exp!r}, got {got!r} '
                                   f'({type(got).__name__})')
                else:
                    acc.add('outcomes', (t.fp, type(got).__name__))

    # -- per table ---------------------------------------------------------------------------------
    def table_columns(self, table, model_cols):
        """Live columns of the table + the columns the property names; split into modelled / unmodelled."""
        live = list(self.conn.tables[table].columns) if table in self.conn.tables else []
        names = list(live)
        for c in REQUIRED[table]:
            if c not in names:
                names.append(c)
        out = []
        for c in names:
            if c in model_cols:
                out.append(c)
            else:
                self.unmodelled.add((table, c))
        return out

    def check_table(self, table, model, model_cols, extra_targets=()):
        acc = self.acc
        cols = self.table_columns(table, model_cols)
        acc.add('tables', table)
        for c in cols:
            acc.add('columns', (table, c))
        key = KEYED.get(table)
        targets = [column_target(table, c) for c in cols]
        self.compare(table, None, model, star=True)
        lead = [column_target(table, key)] if key else []
        self.compare(table, lead + targets, model)
        for t in targets:
            self.compare(table, lead + [t], model)
        for group in extra_targets:
            if group:
                self.compare(table, lead + list(group), model)

    def run(self):
        acc, entries = self.acc, self.entries
        keys = R.all_meta_keys(entries) + [ABSENT_KEY]
        oc = R.open_close(entries)
        comm = R.commodities(entries)
        acc.count('meta_keys', len(keys))

        def opn(a):
            return oc.get(a, (None, None))[0]

        def cls(a):
            return oc.get(a, (None, None))[1]

        # ---- postings --------------------------------------------------------------------------
        prow = R.postings_rows(entries)
        for r in prow:
            p = r['$posting']
            if p.meta is None:
                acc.count('postings_without_metadata')
            if r['entry'].flag == 'P':
                acc.count('pad_postings')
            if p.cost is not None:
                acc.count('postings_with_cost')
        pcols = set(prow[0]) - {'$posting'} if prow else set(REQUIRED['postings'])
        g_meta = [T(f"meta('{k}')", F('meta', K(k)), 'meta()', lambda r, k=k: R.meta_lookup(r['$posting'], k)) for k in keys]
        g_meta += [T(f"meta['{k}']", A.Subscript(col('meta'), k), SUBSCRIPT_FP,
                     lambda r, k=k: R.meta_lookup(r['$posting'], k)) for k in keys]
        g_entry = [T(f"entry_meta('{k}')", F('entry_meta', K(k)), 'entry_meta()',
                     lambda r, k=k: R.entry_meta_lookup(r['entry'], k)) for k in keys]
        g_entry += [T(f"entry.meta['{k}']", A.Subscript(A.Attribute(col('entry'), 'meta'), k), SUBSCRIPT_FP,
                      lambda r, k=k: R.entry_meta_lookup(r['entry'], k)) for k in keys]
        g_any = [T(f"any_meta('{k}')", F('any_meta', K(k)), 'any_meta()',
                   lambda r, k=k: R.any_meta_lookup(r['$posting'], r['entry'], k)) for k in keys]
        g_open = [T(f"open_meta(account, '{k}')", F('open_meta', col('account'), K(k)), 'open_meta()',
                    lambda r, k=k: R.directive_meta(opn(r['account']), k)) for k in keys]
        g_open += [T(f"open_meta(account)['{k}']", sub(F('open_meta', col('account')), k), SUBSCRIPT_FP,
                     lambda r, k=k: R.directive_meta(opn(r['account']), k)) for k in keys]
        g_open += [T('open_meta(account)', F('open_meta', col('account')), 'open_meta()',
                     lambda r: R.directive_meta(opn(r['account']))),
                   T('open_date(account)', F('open_date', col('account')), 'open_date()',
                     lambda r: R.attr_path(opn(r['account']), ['date'])),
                   T('close_date(account)', F('close_date', col('account')), 'close_date()',
                     lambda r: R.attr_path(cls(r['account']), ['date']))]
        g_comm = []
        for fn in ('commodity_meta', 'currency_meta'):
            g_comm += [T(f"{fn}(currency, '{k}')", F(fn, col('currency'), K(k)), f'{fn}()',
                         lambda r, k=k: R.directive_meta(comm.get(r['currency']), k)) for k in keys]
            g_comm += [T(f"{fn}(currency)['{k}']", sub(F(fn, col('currency')), k), SUBSCRIPT_FP,
                         lambda r, k=k: R.directive_meta(comm.get(r['currency']), k)) for k in keys]
            g_comm.append(T(f'{fn}(currency)', F(fn, col('currency')), f'{fn}()',
                            lambda r: R.directive_meta(comm.get(r['currency']))))
        g_path = [T('.'.join(p), path_ast(p), 'postings.' + '.'.join(p),
                    lambda r, p=p: R.attr_path(r[p[0]], p[1:])) for p in POSTING_PATHS]
        # keys computed per row (NULL key -> NULL)
        g_var = []
        for ktext, knode, kref in ROW_KEYS:
            g_var += [
                T(f'meta({ktext})', F('meta', knode()), 'meta()',
                  lambda r, kref=kref: None if kref(r) is None else R.meta_lookup(r['$posting'], kref(r))),
                T(f'entry_meta({ktext})', F('entry_meta', knode()), 'entry_meta()',
                  lambda r, kref=kref: None if kref(r) is None else R.entry_meta_lookup(r['entry'], kref(r))),
                T(f'any_meta({ktext})', F('any_meta', knode()), 'any_meta()',
                  lambda r, kref=kref: None if kref(r) is None else R.any_meta_lookup(r['$posting'], r['entry'], kref(r))),
            ]
        for r in prow:
            for _, _, kref in ROW_KEYS:
                k = kref(r)
                if k is not None and r['$posting'].meta and r['$posting'].meta.get(k) is not None:
                    acc.count('row_key_hits')
        self.check_table('postings', prow, pcols, [g_meta, g_entry, g_any, g_open, g_comm, g_path, g_var])

        # ---- entries ---------------------------------------------------------------------------
        erow = R.entries_rows(entries)
        g_sub = [T(f"meta['{k}']", sub(col('meta'), k), SUBSCRIPT_FP, lambda r, k=k: r['meta'].get(k)) for k in keys]
        self.check_table('entries', erow, set(erow[0]) if erow else set(REQUIRED['entries']), [g_sub])
        for e in entries:
            acc.add('directive_types', type(e).__name__)

        # ---- typed tables ----------------------------------------------------------------------
        for table in R.TYPED:
            ds, rows = R.typed_rows(entries, table)
            group = [T('.'.join(p), path_ast(p), f'{table}.' + '.'.join(p), lambda r, p=p: R.attr_path(r[p[0]], p[1:]))
                     for p in TABLE_PATHS.get(table, [])]
            # the directive's own metadata, key by key: every key of the ledger (present on this directive type or
            # only elsewhere) and the absent key
            group += [T(f"meta['{k}']", sub(col('meta'), k), SUBSCRIPT_FP, lambda r, k=k: r['meta'].get(k)) for k in keys]
            groups = [group]
            self.check_table(table, rows, set(REQUIRED[table]), groups)

        # ---- accounts --------------------------------------------------------------------------
        arow = R.accounts_rows(entries)
        g_path = [T('.'.join(p), path_ast(p), 'accounts.' + '.'.join(p), lambda r, p=p: R.attr_path(r[p[0]], p[1:]))
                  for p in TABLE_PATHS['accounts']]
        g_fun = [T(f"open_meta(account, '{k}')", F('open_meta', col('account'), K(k)), 'open_meta()',
                   lambda r, k=k: R.directive_meta(r['open'], k)) for k in keys]
        g_fun += [T(f"open_meta(account)['{k}']", sub(F('open_meta', col('account')), k), SUBSCRIPT_FP,
                    lambda r, k=k: R.directive_meta(r['open'], k)) for k in keys]
        for side in ('open', 'close'):
            g_fun += [T(f"{side}.meta['{k}']", sub(path_ast((side, 'meta')), k), SUBSCRIPT_FP,
                        lambda r, k=k, side=side: R.directive_meta(r[side], k)) for k in keys]
        g_fun += [T('open_meta(account)', F('open_meta', col('account')), 'open_meta()', lambda r: R.directive_meta(r['open'])),
                  T('open_date(account)', F('open_date', col('account')), 'open_date()', lambda r: R.attr_path(r['open'], ['date'])),
                  T('close_date(account)', F('close_date', col('account')), 'close_date()', lambda r: R.attr_path(r['close'], ['date']))]
        # constant arguments: every account of the ledger and an unknown one, every currency and an unknown one
        g_const = []
        for a in list(oc) + [UNKNOWN_ACCOUNT]:
            g_const += [T(f"open_date('{a}')", F('open_date', K(a)), 'open_date()', lambda r, a=a: R.attr_path(opn(a), ['date'])),
                        T(f"close_date('{a}')", F('close_date', K(a)), 'close_date()', lambda r, a=a: R.attr_path(cls(a), ['date'])),
                        T(f"open_meta('{a}', 'o-str')", F('open_meta', K(a), K('o-str')), 'open_meta()',
                          lambda r, a=a: R.directive_meta(opn(a), 'o-str'))]
        ckeys = sorted({k for d in comm.values() for k in d.meta}) + [ABSENT_KEY]
        for c in R.all_currencies(entries) + [UNKNOWN_CURRENCY]:
            for fn in ('commodity_meta', 'currency_meta'):
                g_const += [T(f"{fn}('{c}', '{k}')", F(fn, K(c), K(k)), f'{fn}()',
                              lambda r, c=c, k=k: R.directive_meta(comm.get(c), k)) for k in ckeys]
                g_const += [T(f"{fn}('{c}')['{k}']", sub(F(fn, K(c)), k), SUBSCRIPT_FP,
                              lambda r, c=c, k=k: R.directive_meta(comm.get(c), k)) for k in ckeys]
                g_const.append(T(f"{fn}('{c}')", F(fn, K(c)), f'{fn}()', lambda r, c=c: R.directive_meta(comm.get(c))))
        self.check_table('accounts', arow, {'account', 'open', 'close'}, [g_path, g_fun, g_const])

        # ---- commodities -----------------------------------------------------------------------
        crow = R.commodities_rows(entries)
        g_fun = []
        for fn in ('commodity_meta', 'currency_meta'):
            g_fun += [T(f"{fn}(name, '{k}')", F(fn, col('name'), K(k)), f'{fn}()',
                        lambda r, k=k: r['meta'].get(k)) for k in keys]
            g_fun += [T(f"{fn}(name)['{k}']", sub(F(fn, col('name')), k), SUBSCRIPT_FP,
                        lambda r, k=k: r['meta'].get(k)) for k in keys]
            g_fun.append(T(f'{fn}(name)', F(fn, col('name')), f'{fn}()', lambda r: r['meta']))
        g_fun += [T(f"meta['{k}']", sub(col('meta'), k), SUBSCRIPT_FP, lambda r, k=k: r['meta'].get(k)) for k in keys]
        self.check_table('commodities', crow, {'meta', 'date', 'name'}, [g_fun])

        for tc in self.unmodelled:
            acc.add('unmodelled_columns', tc)


def explore(acc, text, label, case, legacy=False):
    entries, errors, options = ledgers.load(text, legacy)
    acc.count('ledger_variants')
    Explorer(acc, entries, errors, options, label, case).run()
    return entries


def explore_member(acc, names, text, seed):
    """One family member: as loaded, and (when it contains a pad-generated transaction) in the legacy shape."""
    case = {'kind': 'family', 'names': list(names), 'seed': seed, 'legacy': False}
    entries = explore(acc, text, f'{list(names)}', case)
    if any(isinstance(e, data.Transaction) and e.flag == 'P' for e in entries):
        case = dict(case, legacy=True)
        explore(acc, text, f'{list(names)} [pad postings without metadata]', case, legacy=True)
        acc.count('legacy_variants')


def extras(acc, seed):
    full = ledgers.text_of(ledgers.NAMES, seed)
    assert not ledgers.load(full)[1]
    for legacy in (False, True):
        explore(acc, full, 'FULL-ALPHABET' + (' [pad postings without metadata]' if legacy else ''),
                {'kind': 'full', 'seed': seed, 'legacy': legacy}, legacy=legacy)
    for name, text in EXTRAS.items():
        explore(acc, text, f'EXTRA:{name}', {'kind': 'extra', 'name': name, 'seed': seed, 'legacy': False})
    acc.count('extra_ledgers', 1 + len(EXTRAS))


def spec_text(spec, seed):
    """(label, text) of a ledger named by a replayable spec: {'names': [...]}, {'full': true} or {'extra': name}."""
    if 'names' in spec:
        return f'{list(spec["names"])}', ledgers.text_of(spec['names'], seed)
    if spec.get('full'):
        return 'FULL-ALPHABET', ledgers.text_of(ledgers.NAMES, seed)
    return f'EXTRA:{spec["extra"]}', EXTRAS[spec['extra']]


def reattach_pairs():
    """Ordered pairs (A, B), A != B: all pairs of the n <= 1 family, the full alphabet against every member of
    the n <= 1 family in both directions, and the full alphabet against the ledgers that load with errors."""
    small = [{'names': list(names)} for names, _ in ledgers.family(1, verify=False)]
    rich = [{'full': True}] + [{'extra': name} for name in EXTRAS]
    pairs = [(a, b) for a in small for b in small if a != b]
    pairs += [(a, b) for a in small for b in rich] + [(a, b) for a in rich for b in small]
    pairs += [(a, b) for a in rich for b in rich if a != b]
    return pairs


def explore_reattach(acc, a, b, seed):
    """connect(A); a few queries on A; conn.attach('beancount:', entries=B, errors=B, options=B) -- the call
    beanquery.connect() itself makes and the shell's .reload repeats on its live connection -- then the complete
    per-table / per-column / lookup oracle of B on that connection."""
    la, ta = spec_text(a, seed)
    lb, tb = spec_text(b, seed)
    ea, ra, oa = ledgers.load(ta)
    eb, rb, ob = ledgers.load(tb)
    conn = beanquery.connect('beancount:', entries=ea, errors=ra, options=oa)
    for table in TABLES:
        conn.execute(select(A.Asterisk(), from_=A.Table(table))).fetchall()
    conn.execute(select([A.Target(F('open_date', col('account')), 'c0'),
                         A.Target(F('commodity_meta', col('currency'), K('name')), 'c1')], from_=A.Table('postings'))).fetchall()
    conn.attach('beancount:', entries=eb, errors=rb, options=ob)
    acc.count('reattach_pairs')
    case = {'kind': 'reattach', 'a': a, 'b': b, 'seed': seed}
    Explorer(acc, eb, rb, ob, f'{lb} attached to a connection that had {la} attached before', case,
             conn=conn, fp='reattach').run()


def shard_fn(shard, nshards, n, seed):
    acc = Acc()
    for pi, (a, b) in enumerate(reattach_pairs()):
        if pi % nshards == shard:
            explore_reattach(acc, a, b, seed)
    for index, names, text in ledgers.family_sharded(n, shard, nshards, seed=seed):
        acc.count('ledgers')
        acc.count(f'ledgers_with_{len(names)}_snippets')
        if names:
            acc.add('nontrivial', index)
        explore_member(acc, names, text, seed)
        if index in (1, 40, 400, 4000):
            entries = ledgers.load(text)[0]
            acc.sample({'index': index, 'snippets': list(names), 'body_text': text[len(ledgers.PREAMBLE):],
                        'directives': len(entries), 'postings': len(R.postings_rows(entries)),
                        'example_queries': ['SELECT * FROM #postings', 'SELECT cost_date FROM #postings',
                                            "SELECT any_meta('b-str'), ... FROM #postings",
                                            'SELECT account, open.date, close.date FROM #accounts']})
    if shard == nshards - 1:
        extras(acc, seed)
    return acc


def replay(case):
    acc = Acc()
    acc.MAX_VIOL_PER_FP = 10
    seed = case.get('seed', 0)
    if case['kind'] == 'reattach':
        explore_reattach(acc, case['a'], case['b'], seed)
        return [v for v in acc.violations if v.fingerprint == case.get('fingerprint', v.fingerprint)]
    if case['kind'] == 'family':
        text = ledgers.text_of(case['names'], seed)
        label = f'{case["names"]}'
    elif case['kind'] == 'full':
        text = ledgers.text_of(ledgers.NAMES, seed)
        label = 'FULL-ALPHABET'
    else:
        text = EXTRAS[case['name']]
        label = f'EXTRA:{case["name"]}'
    explore(acc, text, label + (' [pad postings without metadata]' if case.get('legacy') else ''),
            {k: v for k, v in case.items() if k != 'fingerprint'}, legacy=bool(case.get('legacy')))
    return [v for v in acc.violations if v.fingerprint == case.get('fingerprint', v.fingerprint)]


def minimise(violations, seed):
    """Put, for every reported fingerprint, the smallest family member showing it first (the runner records
    the first case per fingerprint): the family is re-walked simplest first, up to two snippets."""
    fps = []
    for v in violations:
        if v.fingerprint not in fps and v.fingerprint != 'reattach':
            fps.append(v.fingerprint)
    found = {}
    for _, names, text in ledgers.family_sharded(2, 0, 1, seed=seed):
        if all(fp in found for fp in fps):
            break
        acc = Acc()
        explore_member(acc, names, text, seed)
        for v in acc.violations:
            if v.fingerprint in fps and v.fingerprint not in found:
                found[v.fingerprint] = v
    return [found[fp] for fp in fps if fp in found] + list(violations)


def run(ctx):
    n = ctx.pick(3, 4)
    acc = run_shards(shard_fn, ctx.jobs, n, ctx.seed, nshards=max(ctx.jobs, 1) * 4)
    if acc.violations:
        acc.violations = minimise(acc.violations, ctx.seed)
    size = ledgers.family_size(n)
    assert acc.n['ledgers'] == size, (acc.n['ledgers'], size)
    columns = sorted(acc.sets['columns'])
    per_table = {t: sorted(c for tt, c in columns if tt == t) for t in TABLES}
    cov = {
        'states': acc.n['ledger_variants'],
        'transitions': acc.n['queries'],
        'traces_validated_against_impl': acc.n['queries'],
        'evaluations': acc.n['cells'],
        'distinct_nontrivial': len(acc.sets['nontrivial']),
        'rule': 'a case is one ledger of the family (a subset of <= n alphabet snippets on the fixed preamble, distinct by '
                'construction) in one shape (as loaded / pad postings without metadata); non-trivial = at least one body '
                'snippet; a transition is one AST SELECT executed on the real tables whose row count and every cell were '
                'compared with the direct traversal; evaluations = cells compared',
        'exhaustive': True,
        'bound': f'all {size} ledgers with <= {n} of the {len(ledgers.ALPHABET)} alphabet snippets x {len(TABLES)} tables x '
                 f'every column (alone, all together, *) x meta functions and x[key] subscripts of every dictionary-valued '
                 f'expression over every key of the ledger; + {1 + len(EXTRAS)} ledgers outside the family (full alphabet, '
                 f'error ledgers, falsy metadata values under mixed-case keys on every level)',
        'completed_n': n,
        'alphabet': ledgers.NAMES,
        'ledgers': acc.n['ledgers'],
        'ledgers_by_size': {str(k): acc.n[f'ledgers_with_{k}_snippets'] for k in range(n + 1)},
        'ledger_variants': acc.n['ledger_variants'],
        'legacy_pad_variants': acc.n['legacy_variants'],
        'extra_ledgers_outside_the_bound': acc.n['extra_ledgers'],
        'reattach_pairs': acc.n['reattach_pairs'],
        'extra_ledgers': sorted(EXTRAS),
        'row_dependent_key_lookups_hitting_a_key': acc.n['row_key_hits'],
        'reattach_rule': 'ordered pairs (A, B), A != B: all pairs of the n <= 1 family + full alphabet and error ledgers against '
                         'the n <= 1 family in both directions; B attached with Connection.attach on a connection that had A, then '
                         'the full oracle of B (fingerprint "reattach")',
        'tables': sorted(acc.sets['tables']),
        'columns_per_table': per_table,
        'columns': len(columns),
        'queries': acc.n['queries'],
        'rows_compared': acc.n['rows'],
        'rows_per_table': {t: acc.n[f'rows:{t}'] for t in TABLES},
        'cells_compared': acc.n['cells'],
        'null_cells': acc.n['null_cells'],
        'cells_with_a_weak_expectation': acc.n['weak_cells'],
        'pad_postings_seen': acc.n['pad_postings'],
        'postings_without_metadata_seen': acc.n['postings_without_metadata'],
        'postings_with_cost_seen': acc.n['postings_with_cost'],
        'directive_types_seen': sorted(acc.sets['directive_types']),
        'distinct_outcomes': len(acc.sets['outcomes']),
        'distinct_loci_compared': len({fp for fp, _ in acc.sets['outcomes']}),
        'value_types_observed': sorted({t for _, t in acc.sets['outcomes']}),
        'unmodelled_columns': sorted(f'{t}.{c}' for t, c in acc.sets['unmodelled_columns']),
        'violating_cases': acc.n['violating_cases'],
        'seed_effect': f'seed only rotates the amount of txn_plain ({1000 + ctx.seed % 50}.00 USD); the family is the same',
        'samples': acc.samples[:6],
    }
    return Result(cov, acc.violations, assumptions=[
        'any_meta(k) with k explicitly NULL on the posting: NULL or the transaction value (on a posting without metadata the property demands NULL)',
        "cost_label without cost: NULL or ''",
        'filename/lineno/location of a posting row: the posting line or the transaction line (NULL too without posting metadata)',
        'description: starts with payee, ends with narration; equals the only one present',
        'entries table: tags/links/description of Note/Document/Event rows: NULL or the directive attribute',
        'accounts and commodities rows are matched by key, other tables in ledger order',
        '* may expand to any subset of the columns; unknown (extension) columns are not judged',
        'cells are compared by (type, value), Decimal exponent ignored, collections by kind (set / frozenset / duplicate-free list)',
        'after a second Connection.attach (what beanquery.connect does once and the shell .reload repeats) the ledger of the connection is '
        'the one attached last: every table and lookup must present it',
        "x['k'] over a NULL dictionary (posting without metadata, unknown account / commodity, no Close) is NULL, like the function forms",
        'metadata values are returned whatever their truth value (0, FALSE, "" are values, not missing keys); keys are looked up exactly '
        '(case-sensitive: Beancount keys may contain upper-case letters); both exercised by the extra ledger falsy_values_mixed_case_keys, '
        'not by the family (whose values are truthy except FALSE on postings, keys lower-case)',
        'pad postings without metadata are obtained by stripping the metadata of the postings of P transactions (Beancount < 3.1 shape); '
        'the currency_accounts plugin gives meta-less postings from text',
    ])
