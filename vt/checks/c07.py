"""C07 -- Result shape and naming: only the selected targets, in order, named by rule.

Technique: bounded-exhaustive enumeration (E-enum, text path -- names depend on source slices) of SELECT
statements, executed on the real implementation; description and rows are checked against the rule of the
property, which needs no evaluator:

    * len(description) == number of SELECT targets; `*` stands for the table's published
      ``wildcard_columns`` in that order (and these must be a sub-sequence of the declared columns);
    * every fetched row has exactly len(description) values;
    * name of target k  =  its alias                                         (``expr AS alias``)
                        =  the declared column name                          (bare column, any letter case)
                        =  a contiguous slice of the statement text lying inside the text region of target k
                           (between the separators around it) such that
                           ``parse("SELECT " + name)`` is a one-target, clause-free SELECT whose expression
                           equals the target's expression                    (anything else);
    * expressions that only GROUP BY, ORDER BY or HAVING introduce appear neither in the description nor
      in the rows (follows from the two length conditions and the names);
    * the names of a statement come from ITS text whatever was executed before on the same connection
      (respelled sequences: the same AST in another spelling right after the first);
    * "one value per described column": when every target is a bare or aliased column of a table whose rows
      are known without a query (harness table; #postings through beancount's data model), the k-th values of
      the rows are the values of the k-th described column (rows compared as multisets of (type, repr)).

Enumerated space
    target lists   every sequence of target kinds {A alias, C bare column, E expression} of length 1..4
                   (120 sequences); the concrete expression / column of a position rotates through a menu
                   (arithmetic, comparison, boolean, BETWEEN, IN, function calls, nested calls, unary minus,
                   constants; aggregates and group keys in the grouped variants)
    spelling       every expression is printed by vt.unparse with minimal or full (redundant) parentheses in
                   the 4 spellings (plain, spread over newlines / tabs, comments between all tokens, tight),
                   surrounded by blanks / newlines / comments; the assignment rotates, the number of rotations
                   is the tier's knob
    hidden targets plain queries: 0..3 hidden ORDER BY expressions, mixed with references to visible targets
                   (index, alias); grouped queries: (hidden GROUP BY keys g, HAVING h, hidden ORDER BY
                   aggregates o) for all g <= 2, h <= 1, o <= 2 with g + h + o <= 3 (quick: lists of 4 targets
                   take every other configuration, alternating with the list, so each configuration still meets
                   half of the 81 four-target sequences)
    extras         DISTINCT, WHERE, LIMIT rotate; duplicate names (same column twice, same alias twice, same
                   expression twice) without positional ORDER BY
    `*`            on every table of a beancount connection (postings, entries, the typed directive tables,
                   accounts, commodities, the null table), on harness tables, on sub-queries (with aliases,
                   expression names and hidden inner targets), without FROM; each alone, with WHERE / LIMIT /
                   DISTINCT and with 1..2 hidden ORDER BY expressions
    table kinds    named targets (A / C / E over type-agnostic expressions) on every ledger table and on a
                   sub-query
    sequences      on ONE connection: statement, the same statement (same AST: same menu entries, aliases,
                   clauses) with every expression / pad / keyword in another spelling, (thorough) the first
                   spelling again; for every one of the 120 kind sequences one plain and one grouped statement
                   (quick; number of hidden targets / grouped configuration rotate with the sequence) or every
                   plain and grouped statement of the first rotation (thorough).  A report on a later step is
                   re-run as the first statement of a connection without history: when it disappears there the
                   fingerprint is ``sequence:<locus>`` (dependence on the history of the connection)
    value          lists of 1..4 different bare / aliased columns of #t and #postings whose names follow EVERY
    alignment      set partition of the positions (1 + 2 + 5 + 15 = 23 name patterns x 2 naming styles; #postings:
                   one style in the quick tier): repeated names by common alias or by aliasing to an earlier bare
                   column, unique names bare or aliased; executed directly (with / without a hidden ORDER BY
                   expression) and as a FROM sub-query from which every uniquely named column alone, all uniquely
                   named columns in reverse order and (no repeated name) `*` are selected
    attributes     un-aliased and aliased attribute / subscript targets on the structured columns of #postings
                   (entry.date, position.units.number, entry.meta['memo'] ...), #accounts (open.date, close.date:
                   two targets ending in the same attribute name), #prices, #balances; blanks / newlines /
                   comments around the dots, letter case, redundant parentheses; 0..1 hidden ORDER BY attribute

Scope / weakest readings
    * aliases are printed in lower case (the parser lower-cases identifiers; the property does not say which
      spelling of a mixed-case alias is the name);
    * a parenthesised bare column is not generated (column name or source text would both be defensible);
    * the slice may carry surrounding parentheses / blanks / comments or not: any slice inside the target's
      region that parses back to the expression is accepted;
    * names of BALANCES / JOURNAL columns and PIVOT BY results are not specified by the property: not generated;
    * from a sub-query with repeated column names only the uniquely named columns are read: which of two
      columns called k the outer `k` means is not decided by the property, and `SELECT *` over such a sub-query
      loses columns (open finding star-identity:duplicate-names of C08);
    * value alignment compares multisets of rows (no statement of that group filters, groups or limits; the
      property does not speak about row order);
    * duplicate names are never combined with positional ORDER BY / GROUP BY (finding 24 of DESIGN.md: the
      positional range is computed from distinct names -- owned by C05 / C03);
    * a statement of the enumeration that is rejected or crashes is reported (fingerprint = exception
      class + innermost beanquery frame): the generator only builds well-typed statements.
"""
import datetime
import decimal
import itertools

import beanquery
from beancount import loader

from beanquery import parser as bq_parser
from beanquery.parser import ast as A

from .. import par
from ..harness import HTable, crash_fingerprint
from ..runner import Result, Violation
from ..unparse import RESERVED, ast_from_json, ast_to_json, same_ast, unparse

LEVEL = 'model_checking'
D = decimal.Decimal
DATE = datetime.date

LEDGER = '''
option "operating_currency" "USD"
2020-01-01 open Assets:Cash USD
2020-01-01 open Assets:Broker
2020-01-01 open Expenses:Food
2020-01-01 open Equity:Opening
2020-01-01 commodity USD
  name: "US Dollar"
2020-01-01 commodity HOOL
2020-01-02 * "Cafe" "Lunch" #trip ^l1
  memo: "m"
  Expenses:Food  10.00 USD
  Assets:Cash   -10.00 USD
2020-01-03 ! "Buy"
  Assets:Broker  2 HOOL {50.00 USD}
  Assets:Cash   -100.00 USD
2020-01-03 price HOOL 55.00 USD
2020-01-04 balance Assets:Cash -110.00 USD
2020-01-05 note Assets:Cash "a note"
2020-01-06 event "location" "Paris"
2020-01-07 document Assets:Cash "/nonexistent/statement.pdf"
2020-01-08 close Expenses:Food
2020-01-09 query "q" "SELECT 1"
2020-01-10 custom "budget" 1
'''

_STATE = {}


def ledger():
    if 'ledger' not in _STATE:
        _STATE['ledger'] = loader.load_string(LEDGER)
    return _STATE['ledger']


def fresh_connection():
    """A connection without history (beancount tables only; nothing was executed on it)."""
    entries, errors, options = ledger()
    return beanquery.connect('beancount:', entries=entries, errors=errors, options=options)


def connection():
    """One connection per process: beancount tables + harness tables t (6 typed columns) and u."""
    if 'conn' not in _STATE:
        conn = fresh_connection()
        rows = [
            (1, 2, 'ab', D('1.5'), True, DATE(2020, 1, 1)),
            (2, 2, 'Ab', D('2.25'), False, DATE(2020, 2, 29)),
            (3, 1, None, None, None, None),
            (None, 7, 'c', D('0'), True, DATE(2019, 12, 31)),
            (1, 2, 'ab', D('1.5'), True, DATE(2020, 1, 1)),
        ]
        conn.tables['t'] = HTable([('i', int), ('j', int), ('s', str), ('d', D), ('b', bool), ('dt', DATE)], rows, name='t')
        conn.tables['u'] = HTable([('k', int), ('name', str)], [(1, 'x'), (2, None)], name='u')
        _STATE['conn'] = conn
    return _STATE['conn']


# ---------------------------------------------------------------------------------------------------------
# menus over the harness table t(i int, j int, s str, d decimal, b bool, dt date)

def col(n):
    return A.Column(n)


def K(v):
    return A.Constant(v)


def F(name, *args):
    return A.Function(name, list(args))


PLAIN_EXPRS = [
    A.Add(col('i'), K(1)),
    A.Mul(A.Add(col('i'), col('j')), K(2)),
    F('upper', col('s')),
    A.Neg(col('i')),
    A.Greater(col('i'), col('j')),
    A.Mod(F('length', col('s')), K(2)),
    A.Between(col('i'), K(0), col('j')),
    A.Not(col('b')),
    A.In(col('i'), K([1, 2])),
    A.Match(col('s'), K('a')),
    A.Sub(A.Sub(col('i'), col('j')), K(10)),
    A.Sub(col('i'), A.Sub(col('j'), K(1))),
    F('year', col('dt')),
    K(1),
    K('x y'),
    A.IsNull(col('s')),
    A.And([col('b'), A.Greater(col('i'), K(0))]),
    A.Or([A.Not(col('b')), A.IsNotNull(col('dt')), A.Less(col('i'), col('j'))]),
    A.Div(col('d'), K(D('2.0'))),
    A.Add(F('length', F('upper', col('s'))), A.Mul(col('i'), A.Sub(col('j'), K(1)))),
    A.Neg(A.Neg(col('j'))),
    A.NotEqual(F('coalesce', col('s'), K('')), K("it's")),
]
PLAIN_COLS = ['i', 's', 'd', 'b', 'dt', 'j']
PLAIN_HIDDEN_ORDER = [A.Mul(col('j'), K(3)), F('lower', col('s')), A.Sub(col('j'), col('i')), F('month', col('dt'))]
PLAIN_WHERE = [None, A.Greater(col('j'), K(0)), A.Or([col('b'), A.IsNull(col('b'))])]

AGG_EXPRS = [
    F('count', A.Asterisk()),
    F('sum', col('i')),
    A.Sub(F('max', col('i')), F('min', col('j'))),
    F('sum', A.Add(col('i'), col('j'))),
    F('count', col('s')),
    A.Neg(F('sum', col('d'))),
    A.Mul(F('sum', col('j')), K(2)),
    F('first', col('s')),
    A.Greater(F('max', col('j')), K(0)),
]
KEY_COLS = ['s', 'b', 'j', 'dt']
KEY_EXPRS = [A.Mod(col('j'), K(2)), F('upper', col('s')), A.IsNull(col('i')), F('year', col('dt'))]
HIDDEN_KEYS = [A.Mod(col('i'), K(2)), F('length', col('s')), A.Add(col('j'), K(100))]
HAVING = [A.Greater(F('count', A.Asterisk()), K(0)), A.IsNotNull(F('max', col('j'))), A.GreaterEq(F('sum', col('j')), K(0))]
AGG_HIDDEN_ORDER = [F('max', col('dt')), A.Add(F('count', col('d')), K(1)), F('min', col('j'))]

ALIASES = ['a', 'total', 'x_1', 'n', 'my_alias', 'z9']

# blanks / comments put around target expressions and separators
PADS = ['', ' ', '  ', '\n', '\t', ' /* c */ ', '/**/', ' ; eol\n', '\n\t ', ' /* a, b FROM */ ']

STYLE_PLANS = [(p, s) for p in ('minimal', 'full') for s in (0, 1, 2, 3)]


class Builder:
    """Assembles the statement text and remembers, per target, kind, expected fixed name or expression and
    the region of the text that belongs to the target."""

    def __init__(self, rot, spell=None):
        self.rot = rot                                  # structure: menu entries, aliases, clauses, letter case
        self.spell = rot if spell is None else spell    # spelling only: pads, parentheses, style of each expression
        self.parts = []
        self.pos = 0
        self.targets = []

    def add(self, text):
        self.parts.append(text)
        self.pos += len(text)

    def pad(self, k):
        self.add(PADS[(self.spell * 7 + k) % len(PADS)])

    def sep(self, k, must=True):
        """Blank that separates two word tokens."""
        p = PADS[(self.spell * 3 + k) % len(PADS)]
        self.add(p if p else ' ')

    def expr_text(self, e, k):
        parens, style = STYLE_PLANS[(self.spell + k * 3) % len(STYLE_PLANS)]
        return unparse(e, parens, style, salt=self.spell + k, ends=False)

    def target(self, k, kind, expr=None, column=None, alias=None, raw=None):
        """raw: hand-made source text of ``expr`` (for texts the printer refuses, e.g. the column `open`)."""
        start = self.pos
        self.pad(k)
        if kind == 'C':
            spelled = column.upper() if (self.rot + k) % 3 == 0 else column
            self.add(spelled)
        elif raw is not None:
            self.add(raw)
        else:
            self.add(self.expr_text(expr, k))
        if kind == 'A':
            self.sep(k + 1)          # never empty: "j" + "AS" must not fuse
        else:
            self.pad(k + 1)
        end = self.pos
        rec = {'kind': kind, 'region': [start, end]}
        if kind == 'A':
            self.add('AS' if (self.rot + k) % 2 else 'as')
            self.sep(k)
            self.add(alias)
            self.pad(k + 2)
            rec['alias'] = alias
        elif kind == 'C':
            rec['column'] = column
        if kind != 'C':
            rec['expr'] = expr
        self.targets.append(rec)

    def text(self):
        return ''.join(self.parts)


def clause_expr(b, e, k):
    """Expression inside a trailing clause (spelling rotates as well)."""
    b.add(b.expr_text(e, k))


def build_plain(kinds, rot, nhidden, order_visible, extras, spell=None):
    """Non-aggregate statement over #t.  kinds: string over 'ACE'.  spell: spelling rotation when it is not rot
    (same statement, other blanks / comments / parentheses / style)."""
    b = Builder(rot, spell)
    b.add('SELECT' if rot % 2 == 0 else 'select')
    b.sep(0)
    if extras.get('distinct'):
        b.add('DISTINCT')
        b.sep(1)
    for k, kind in enumerate(kinds):
        if k:
            b.add(',')
        e = PLAIN_EXPRS[(rot + k * 5) % len(PLAIN_EXPRS)]
        c = PLAIN_COLS[(rot + k) % len(PLAIN_COLS)]
        if kind == 'C':
            b.target(k, 'C', column=c)
        elif kind == 'A':
            # aliases name expressions and, every other time, plain columns
            b.target(k, 'A', expr=(e if (rot + k) % 2 else col(c)), alias=ALIASES[(rot + k) % len(ALIASES)])
        else:
            b.target(k, 'E', expr=e)
    b.sep(2)
    b.add('FROM')
    b.sep(3)
    b.add('#t')
    w = extras.get('where')
    if w is not None:
        b.sep(4)
        b.add('WHERE')
        b.sep(5)
        clause_expr(b, w, 6)
    items = []
    for h in range(nhidden):
        items.append(('hidden', PLAIN_HIDDEN_ORDER[(rot + h) % len(PLAIN_HIDDEN_ORDER)]))
    if order_visible:
        # a reference to a visible target: by index, or by alias when there is one
        aliases = [t['alias'] for t in b.targets if t['kind'] == 'A']
        ref = ('alias', aliases[rot % len(aliases)]) if aliases and rot % 2 else ('index', 1 + rot % len(kinds))
        items.insert(min(len(items), rot % 3), ref)
    if items:
        b.sep(7)
        b.add('ORDER')
        b.sep(8)
        b.add('BY')
        b.sep(9)
        for n, (what, x) in enumerate(items):
            if n:
                b.add(',')
                b.pad(n)
            if what == 'hidden':
                clause_expr(b, x, 10 + n)
            else:
                b.add(str(x))
            if (rot + n) % 2:
                b.sep(11)
                b.add('DESC')
    if extras.get('limit') is not None:
        b.sep(12)
        b.add('LIMIT')
        b.sep(13)
        b.add(str(extras['limit']))
    return b


def build_grouped(kinds, rot, g, h, o, spell=None):
    """Aggregate statement over #t: key targets + aggregate targets, g hidden keys, h HAVING, o hidden ORDER BY aggregates."""
    b = Builder(rot, spell)
    b.add('SELECT')
    b.sep(0)
    keys = []          # GROUP BY items referring to visible key targets
    used_cols, used_exprs = set(), set()
    for k, kind in enumerate(kinds):
        if k:
            b.add(',')
        is_key = (rot + k) % 3 == 0 if kind != 'C' else True
        if kind == 'C':
            c = KEY_COLS[(rot + k) % len(KEY_COLS)]
            while c in used_cols:
                c = KEY_COLS[(KEY_COLS.index(c) + 1) % len(KEY_COLS)]
            used_cols.add(c)
            b.target(k, 'C', column=c)
            keys.append(c if (rot + k) % 2 else str(k + 1))
        else:
            if is_key:
                n = (rot + k) % len(KEY_EXPRS)
                while n in used_exprs:
                    n = (n + 1) % len(KEY_EXPRS)
                used_exprs.add(n)
                e = KEY_EXPRS[n]
            else:
                e = AGG_EXPRS[(rot + k * 2) % len(AGG_EXPRS)]
            if kind == 'A':
                alias = ALIASES[(rot + k) % len(ALIASES)]
                b.target(k, 'A', expr=e, alias=alias)
                if is_key:
                    keys.append(alias if (rot + k) % 2 else str(k + 1))
            else:
                b.target(k, 'E', expr=e)
                if is_key:
                    keys.append(str(k + 1))
    b.sep(2)
    b.add('FROM')
    b.sep(3)
    b.add('#t')
    hidden_keys = [HIDDEN_KEYS[(rot + n) % len(HIDDEN_KEYS)] for n in range(g)]
    if h and not keys and not hidden_keys:
        return None          # HAVING needs a GROUP BY clause
    if keys or hidden_keys:
        b.sep(4)
        b.add('GROUP')
        b.sep(5)
        b.add('BY')
        b.sep(6)
        items = [('ref', x) for x in keys]
        for n, e in enumerate(hidden_keys):
            items.insert((rot + n) % (len(items) + 1), ('hidden', e))
        for n, (what, x) in enumerate(items):
            if n:
                b.add(',')
                b.pad(n)
            if what == 'hidden':
                clause_expr(b, x, 20 + n)
            else:
                b.add(x)
        if h:
            b.sep(7)
            b.add('HAVING')
            b.sep(8)
            clause_expr(b, HAVING[rot % len(HAVING)], 30)
    if o:
        b.sep(9)
        b.add('ORDER')
        b.sep(10)
        b.add('BY')
        b.sep(11)
        for n in range(o):
            if n:
                b.add(',')
            clause_expr(b, AGG_HIDDEN_ORDER[(rot + n) % len(AGG_HIDDEN_ORDER)], 40 + n)
            if (rot + n) % 2 == 0:
                b.sep(12)
                b.add('DESC')
    return b


def sequence_unit(label, nhidden, builders):
    """The same statement in several spellings, to be executed one after the other on one connection."""
    return ('sequence', label, [b.text() for b in builders], [b.targets for b in builders], nhidden)


def named_statements(nrot_plain, nrot_grouped, seed=0, thin=False):
    """('named', label, text, targets, nhidden) or ('sequence', label, texts, target lists, nhidden).  The seed
    shifts which menu entry / spelling meets which kind sequence; the set of kind sequences x hidden
    configurations does not depend on it.

    Respelled sequences: a statement is followed, on the same connection, by the same statement (same AST) in
    another spelling of every expression, pad and keyword (the spelling rotation shifted by 1, which changes
    the style of every expression) and, thorough only, by the first spelling again.  Thorough: every statement
    of the first rotation; quick: for every kind sequence one plain statement (the number of hidden targets
    rotates with the sequence) and one grouped statement (the configuration rotates with the sequence)."""
    seqs = [''.join(s) for n in (1, 2, 3, 4) for s in itertools.product('ACE', repeat=n)]
    shifts = (1,)
    rot = seed * 13
    for si, kinds in enumerate(seqs):
        for r in range(nrot_plain):
            for nh in (0, 1, 2, 3):
                rot += 1
                extras = {'distinct': rot % 5 == 0, 'where': PLAIN_WHERE[rot % len(PLAIN_WHERE)], 'limit': [None, 0, 2, 100][rot % 4]}
                b = build_plain(kinds, rot, nh, order_visible=(rot % 3 == 0), extras=extras)
                if r == 0 and (not thin or nh == si % 4):
                    again = [build_plain(kinds, rot, nh, order_visible=(rot % 3 == 0), extras=extras, spell=rot + d) for d in shifts]
                    yield sequence_unit(('plain', kinds, nh), nh, [b] + again + ([b] if not thin else []))
                else:
                    yield ('named', ('plain', kinds, nh), b.text(), b.targets, nh)
        ngrouped = 0
        for r in range(nrot_grouped):
            for ci, (g, h, o) in enumerate(itertools.product((0, 1, 2), (0, 1), (0, 1, 2))):
                if g + h + o > 3:
                    continue
                if thin and len(kinds) == 4 and (ci + si) % 2:
                    continue          # quick: length-4 lists take every other configuration, alternating with the list
                rot += 1
                b = build_grouped(kinds, rot, g, h, o)
                if b is None:
                    continue
                ngrouped += 1
                if r == 0 and (not thin or ngrouped == 1 + si % 5):
                    again = [build_grouped(kinds, rot, g, h, o, spell=rot + d) for d in shifts]
                    yield sequence_unit(('grouped', kinds, (g, h, o)), g + h + o, [b] + again + ([b] if not thin else []))
                else:
                    yield ('named', ('grouped', kinds, (g, h, o)), b.text(), b.targets, g + h + o)


def duplicate_statements():
    dup = [
        ("SELECT i, i FROM #t", [('C', 'i'), ('C', 'i')]),
        ("SELECT i, j, i, I FROM #t ORDER BY j * 2 DESC", [('C', 'i'), ('C', 'j'), ('C', 'i'), ('C', 'i')]),
        ("SELECT i AS a, s AS a FROM #t", [('A', 'a'), ('A', 'a')]),
        ("SELECT i AS a, s AS a, d AS a FROM #t ORDER BY upper(s), j", [('A', 'a'), ('A', 'a'), ('A', 'a')]),
        ("SELECT i AS s, s FROM #t", [('A', 's'), ('C', 's')]),
        ("SELECT i + 1, i + 1 FROM #t", [('E', A.Add(col('i'), K(1))), ('E', A.Add(col('i'), K(1)))]),
        ("SELECT i + 1, i  +  1, (i + 1) FROM #t ORDER BY j", [('E', A.Add(col('i'), K(1)))] * 3),
        ("SELECT count(*), count(*) FROM #t", [('E', F('count', A.Asterisk()))] * 2),
        ("SELECT s, s, sum(i) AS n FROM #t GROUP BY 1, 2 HAVING count(*) > 0", [('C', 's'), ('C', 's'), ('A', 'n')]),
        ("SELECT 1, 1, '1' FROM #t", [('E', K(1)), ('E', K(1)), ('E', K('1'))]),
    ]
    for text, spec in dup:
        targets = []
        # regions: split at top-level commas of the target list (no commas inside these hand-written targets)
        head = text[:text.index(' FROM')]
        pos = len('SELECT')
        for piece, (kind, x) in zip(head[pos:].split(','), spec):
            rec = {'kind': kind, 'region': [pos, pos + len(piece)]}
            if kind == 'A':
                rec['alias'] = x
                rec['region'][1] = pos + piece.upper().index(' AS ') + 1
            elif kind == 'C':
                rec['column'] = x
            else:
                rec['expr'] = x
            targets.append(rec)
            pos += len(piece) + 1
        yield ('named', ('duplicates', len(spec)), text, targets, None)


# ---------------------------------------------------------------------------------------------------------
# `*` and table kinds

def wildcard_statements(conn, thorough):
    """('wildcard', label, text, table name or ('subquery', expected names), number of hidden)"""
    for name, table in conn.tables.items():
        cols = list(table.columns)
        frm = f'#{name}'
        yield ('wildcard', ('table', name, 'alone'), f'SELECT * FROM {frm}', name, 0)
        yield ('wildcard', ('table', name, 'spread'), f'select\n*\n/* all */ from {frm} ; done', name, 0)
        yield ('wildcard', ('table', name, 'distinct-limit'), f'SELECT DISTINCT * FROM {frm} LIMIT 3', name, 0) if _hashable(table) else \
            ('wildcard', ('table', name, 'limit'), f'SELECT * FROM {frm} LIMIT 3', name, 0)
        if cols:
            c1 = cols[0]
            c2 = cols[min(1, len(cols) - 1)]
            yield ('wildcard', ('table', name, 'where'), f'SELECT * FROM {frm} WHERE {c1} IS NOT NULL OR {c1} IS NULL', name, 0)
            yield ('wildcard', ('table', name, 'hidden-order-1'), f'SELECT * FROM {frm} ORDER BY {c1} IS NULL', name, 1)
            yield ('wildcard', ('table', name, 'hidden-order-2'), f'SELECT * FROM {frm} ORDER BY {c2} IS NULL DESC, NOT ({c1} IS NULL)', name, 2)
    yield ('wildcard', ('default-table', 'postings', 'no-from'), 'SELECT *', 'postings', 0)
    yield ('wildcard', ('default-table', 'postings', 'no-from-hidden'), 'SELECT * ORDER BY account, number', 'postings', 2)
    yield ('wildcard', ('default-table', 'postings', 'from-expression'), 'SELECT * FROM year = 2020 WHERE number > 0', 'postings', 0)
    subs = [
        ('SELECT i, s FROM #t', ['i', 's']),
        ('SELECT i AS a, s AS b, d FROM #t', ['a', 'b', 'd']),
        ('SELECT i + 1, upper(s) AS u FROM #t', ['i + 1', 'u']),
        ('SELECT i FROM #t ORDER BY j, upper(s)', ['i']),
        ('SELECT s, count(*) AS n FROM #t GROUP BY s, j % 2 HAVING sum(j) >= 0 ORDER BY max(j)', ['s', 'n']),
        # un-aliased expression targets keep the letter case of their source text as column names of the sub-query
        ('SELECT s, SUM(i), COUNT(*), Max(j) - MIN(j) FROM #t GROUP BY s', ['s', 'SUM(i)', 'COUNT(*)', 'Max(j) - MIN(j)']),
        ("SELECT s, UPPER(s), 'Total', s ~ 'Ab', I + J FROM #t", ['s', 'UPPER(s)', "'Total'", "s ~ 'Ab'", 'I + J']),
        ('SELECT * FROM #t', ['i', 'j', 's', 'd', 'b', 'dt']),
        ('SELECT * FROM (SELECT j AS q, i FROM #t ORDER BY s)', ['q', 'i']),
        ('SELECT date, account AS acc, number FROM #postings ORDER BY flag', ['date', 'acc', 'number']),
        ('SELECT * FROM #prices', None),
        ('SELECT *', None),
    ]
    for inner, names in subs:
        if names is None:
            tname = 'prices' if 'prices' in inner else 'postings'
            names = list(conn.tables[tname].wildcard_columns)
        yield ('wildcard', ('subquery', inner, 'alone'), f'SELECT * FROM ({inner})', ('subquery', names), 0)
        yield ('wildcard', ('subquery', inner, 'limit'), f'SELECT DISTINCT * FROM ( {inner} ) LIMIT 2', ('subquery', names), 0)
        first = names[0]
        if ' ' not in first:
            yield ('wildcard', ('subquery', inner, 'hidden-order'), f'SELECT * FROM ({inner}) ORDER BY {first} IS NULL', ('subquery', names), 1)


def _hashable(table):
    """DISTINCT needs hashable rows; directive-valued columns (accounts.open holds a dict) are not, although
    their declared type is (TypeError from uniquify: C05's business) -> DISTINCT only on harness tables."""
    return isinstance(table, HTable)


def table_kind_statements(conn, seed=0):
    """Named targets (type-agnostic expressions) on every table kind: A, C, E mixes with hidden ORDER BY."""
    sources = [(f'#{name}', list(table.wildcard_columns)) for name, table in conn.tables.items() if list(table.wildcard_columns)]
    sources.append(('(SELECT i AS a, s AS x, d FROM #t ORDER BY j)', ['a', 'x', 'd']))
    sources.append(('(SELECT s, count(*) AS n, max(i) FROM #t GROUP BY s)', ['s', 'n']))
    rot = seed * 7
    for frm, cols in sources:
        cols = [c for c in cols if c not in RESERVED]       # accounts.open / accounts.close are words of the FROM grammar
        c1, c2 = cols[0], cols[min(1, len(cols) - 1)]
        e1 = A.IsNull(col(c1))
        e2 = A.And([A.IsNotNull(col(c2)), A.Not(A.IsNull(col(c1)))])
        e3 = A.Or([A.IsNull(col(c2)), A.IsNull(col(c1))])
        for kinds in ('C', 'E', 'A', 'CE', 'EC', 'AEC', 'ECA', 'CAEE', 'EEEE'):
            for nh in (0, 1, 2):
                rot += 1
                b = Builder(rot)
                b.add('SELECT')
                b.sep(0)
                menu = [e1, e2, e3, A.Not(e1)]
                for k, kind in enumerate(kinds):
                    if k:
                        b.add(',')
                    if kind == 'C':
                        b.target(k, 'C', column=(c1 if k % 2 == 0 else c2))
                    elif kind == 'A':
                        b.target(k, 'A', expr=(menu[(rot + k) % 4] if rot % 2 else col(c2)), alias=ALIASES[(rot + k) % len(ALIASES)])
                    else:
                        b.target(k, 'E', expr=menu[(rot + k) % 4])
                b.sep(1)
                b.add('FROM')
                b.sep(2)
                b.add(frm)
                if nh:
                    b.add(' ORDER BY ')
                    hidden = [A.Not(A.Not(A.IsNull(col(c2)))), A.And([A.IsNull(col(c1)), A.IsNull(col(c2))])][:nh]
                    for n, e in enumerate(hidden):
                        if n:
                            b.add(', ')
                        clause_expr(b, e, 50 + n)
                yield ('named', ('table-kind', frm[:24], kinds, nh), b.text(), b.targets, nh)


# ---------------------------------------------------------------------------------------------------------
# attribute / subscript targets on the structured columns of the ledger tables

DOTS = ['.', ' . ', '.', '\n.\t', '/* c */.', ' ./**/', '.', ' ; eol\n. ', '\t.', '. ']

STRUCTURED = [
    # FROM, bare columns, attribute paths / subscripts (all exist on the pinned tree; checked by the run itself:
    # a rejected statement is reported)
    ('#postings', ['account', 'number'], [('entry', 'date'), ('position', 'units', 'number'), ('entry', 'flag'), ('position', 'units', 'currency'),
                                          ('position', 'cost', 'date'), ('entry', 'narration'), ('meta', ['memo']), ('entry', 'meta', ['memo'])]),
    ('#accounts', ['account'], [('open', 'date'), ('close', 'date'), ('open', 'meta'), ('open', 'currencies'), ('open', 'meta', ['filename'])]),
    ('#prices', ['date', 'currency'], [('amount', 'number'), ('amount', 'currency')]),
    ('#balances', ['account', 'date'], [('amount', 'number'), ('amount', 'currency'), ('discrepancy', 'number')]),
]


def path_ast(path):
    e = col(path[0])
    for step in path[1:]:
        e = A.Subscript(e, step[0]) if isinstance(step, list) else A.Attribute(e, step)
    return e


def path_text(path, rot, parenthesise=False):
    """Source text of an attribute path: blanks / newlines / comments around the dots, rotating letter case."""
    out = [path[0].upper() if rot % 4 == 1 else path[0]]
    for n, step in enumerate(path[1:]):
        if isinstance(step, list):
            q = '"' if (rot + n) % 2 else "'"
            out.append(['[', ' [ ', '\t['][(rot + n) % 3] + q + step[0] + q + [']', ' ]'][(rot + n) % 2])
        else:
            out.append(DOTS[(rot * 3 + n) % len(DOTS)] + (step.upper() if rot % 4 == 2 else step))
    text = ''.join(out)
    return '(' + text + ')' if parenthesise else text


def attribute_statements(seed=0, nrot=1):
    """Un-aliased (E) and aliased (A) attribute / subscript targets mixed with bare columns (C), with 0..1 hidden
    ORDER BY attribute; includes two targets that end in the same attribute name (open.date, close.date)."""
    rot = seed * 5
    for frm, columns, paths in STRUCTURED:
        for kinds in ('E', 'EE', 'A', 'AE', 'EA', 'CE', 'EEC', 'EAEC', 'EEEE'):
            for nh in (0, 1):
                for r in range(nrot):
                    rot += 1
                    b = Builder(rot)
                    b.add('SELECT')
                    b.sep(0)
                    n = 0
                    for k, kind in enumerate(kinds):
                        if k:
                            b.add(',')
                        if kind == 'C':
                            b.target(k, 'C', column=columns[k % len(columns)])
                            continue
                        path = paths[(n + (rot if len(kinds) > 2 else 0)) % len(paths)]
                        n += 1
                        raw = path_text(path, rot + k, parenthesise=(rot + k) % 7 == 0)
                        if kind == 'A':
                            b.target(k, 'A', expr=path_ast(path), alias=ALIASES[(rot + k) % len(ALIASES)], raw=raw)
                        else:
                            b.target(k, 'E', expr=path_ast(path), raw=raw)
                    b.sep(1)
                    b.add('FROM')
                    b.sep(2)
                    b.add(frm)
                    if nh:
                        hidden = paths[(rot + 1) % len(paths)]
                        hidden = hidden if not isinstance(hidden[-1], list) and hidden[-1] not in ('meta', 'currencies') else paths[0]
                        b.add(' ORDER BY ' + path_text(hidden, rot + 9) + ' IS NULL')
                    yield ('named', ('attribute', frm, kinds, nh), b.text(), b.targets, nh)


# ---------------------------------------------------------------------------------------------------------
# value alignment: the k-th value of a row is the value of the k-th described column

VALUE_SOURCES = {
    # key: (FROM, columns used, hidden ORDER BY expression of the inner / direct statement)
    't': ('#t', ['i', 's', 'j', 'd', 'dt', 'b'], 'j * 3'),
    'postings': ('#postings', ['date', 'account', 'number', 'narration'], 'flag'),
}


def source_rows(conn, key):
    """Rows of the source restricted to VALUE_SOURCES[key] columns, from the harness table itself / from
    beancount's own data model (never from a query)."""
    if key == 't':
        table = conn.tables['t']
        index = [n for n, _ in table.cols]
        return [tuple(row[index.index(c)] for c in VALUE_SOURCES['t'][1]) for row in table.rows]
    from beancount.core import data
    entries = ledger()[0]
    return [(e.date, p.account, p.units.number, e.narration) for e in entries if isinstance(e, data.Transaction) for p in e.postings]


def partitions(n):
    """All set partitions of range(n) as restricted growth strings (1, 2, 5, 15 for n = 1..4)."""
    def rec(prefix, top):
        if len(prefix) == n:
            yield tuple(prefix)
            return
        for c in range(top + 2):
            yield from rec(prefix + [c], max(top, c))
    yield from rec([], -1)


def value_statements(thorough):
    """('values', label, text, spec, nhidden); spec = {'source', 'targets': [{'kind', 'alias' | 'column'}],
    'cols': [index into the source's column list per output position]}.

    Inner lists: n = 1..4 bare / aliased columns (all different, so every position has its own values), the
    names following EVERY set partition of the positions: the positions of a class of size >= 2 share one name
    (style 0: a common alias; style 1: the first is a bare column and the others are aliased to its name), the
    positions of singleton classes have unique names (style 0: bare column; style 1: alias and bare column
    alternate).  Forms: the list itself (direct, with or without a hidden ORDER BY expression); from the list
    as a sub-query: every uniquely named column alone, all uniquely named columns in reverse order, and `*`
    when no name is repeated."""
    for key, (frm, cols, hidden) in VALUE_SOURCES.items():
        count = 0
        for n in (1, 2, 3, 4):
            for part in partitions(n):
                for style in ((0, 1) if key == 't' or thorough else (0,)):
                    count += 1
                    shift = count % len(cols)
                    pos_cols = [(p + shift) % len(cols) for p in range(n)]
                    sizes = [part.count(c) for c in part]
                    items, targets = [], []
                    for p in range(n):
                        c = cols[pos_cols[p]]
                        if sizes[p] > 1:
                            first = part.index(part[p])
                            if style == 0:
                                name, aliased = f'k{part[p]}', True
                            else:
                                name, aliased = cols[pos_cols[first]], p != first
                        else:
                            aliased = style == 1 and p % 2 == 0
                            name = f'u{p}' if aliased else c
                        items.append(f'{c} AS {name}' if aliased else c)
                        targets.append({'kind': 'A', 'alias': name} if aliased else {'kind': 'C', 'column': c})
                    names = [t.get('alias', t.get('column')) for t in targets]
                    unique = [p for p in range(n) if names.count(names[p]) == 1]
                    with_hidden = count % 2 == 0
                    inner = f'SELECT {", ".join(items)} FROM {frm}' + (f' ORDER BY {hidden}' if with_hidden else '')
                    lab = (key, ''.join(map(str, part)), style)
                    yield ('values', ('direct',) + lab, inner, {'source': key, 'where': 'direct', 'targets': targets, 'cols': pos_cols}, int(with_hidden))

                    def outer(ps, what):
                        sel = ', '.join(names[p] for p in ps)
                        return ('values', ('subquery',) + lab + (what,), f'SELECT {sel} FROM ({inner})',
                                {'source': key, 'where': 'subquery', 'targets': [{'kind': 'C', 'column': names[p]} for p in ps], 'cols': [pos_cols[p] for p in ps]}, 0)
                    for p in unique:
                        if n > 1:
                            yield outer([p], f'column-{p + 1}')
                    if len(unique) >= 2:
                        yield outer(unique[::-1], 'reversed')
                    if len(unique) == n:
                        yield ('values', ('subquery',) + lab + ('star',), f'SELECT * FROM ({inner})',
                               {'source': key, 'where': 'subquery', 'targets': [{'kind': 'C', 'column': x} for x in names], 'cols': pos_cols}, 0)


def typed_key(row):
    return tuple((type(v).__name__, repr(v)) for v in row)


def check_values(conn, label, spec, names, rows, out):
    where = spec.get('where', 'direct')
    if len(names) != len(spec['targets']):
        out.append(('shape:description-length', f'description has {len(names)} columns {names!r}, the statement has {len(spec["targets"])} targets'))
        return
    check_named('', spec['targets'], names, out)
    try:
        expected = sorted(typed_key(tuple(r[c] for c in spec['cols'])) for r in source_rows(conn, spec['source']))
        got = sorted(typed_key(tuple(r)) for r in rows)
    except Exception as exc:        # noqa: BLE001 -- implementation values that cannot be printed / compared
        out.append((f'values:{where}:unprintable', f'rows cannot be compared ({type(exc).__name__}: {exc})'))
        return
    if got != expected:
        bad = next((k for k in range(len(names)) if sorted(r[k] for r in got if len(r) > k) != sorted(r[k] for r in expected)), None)
        out.append((f'values:{where}:column-alignment',
                    f'rows do not carry the values of the described columns {names!r}'
                    + (f' (column {bad + 1}, {names[bad]!r}, holds {[r[bad][1] for r in got if len(r) > bad][:4]} ..., the source column '
                       f'{VALUE_SOURCES[spec["source"]][1][spec["cols"][bad]]!r} holds {[r[bad][1] for r in expected][:4]} ...)' if bad is not None else '')
                    + f': {len(got)} rows, expected {len(expected)}'))


# ---------------------------------------------------------------------------------------------------------
# oracle

_REPARSE = {}


def reparse(name):
    """parse("SELECT " + name) -> the expression of a one-target, clause-free SELECT, or a reason string."""
    if name not in _REPARSE:
        try:
            st = bq_parser.parse('SELECT ' + name)
        except Exception as exc:    # noqa: BLE001
            res = f'does not parse ({type(exc).__name__})'
        else:
            if not isinstance(st, A.Select) or not isinstance(st.targets, list) or len(st.targets) != 1:
                res = 'parses to more than one target'
            elif st.targets[0].name is not None or any(x is not None for x in (
                    st.from_clause, st.where_clause, st.group_by, st.order_by, st.pivot_by, st.limit, st.distinct)):
                res = 'parses to a statement with an alias or further clauses'
            else:
                res = st.targets[0].expression
        _REPARSE[name] = res
    return _REPARSE[name]


def check_named(text, targets, names, out):
    for k, (t, name) in enumerate(zip(targets, names)):
        kind = t['kind']
        if kind == 'A':
            if name != t['alias']:
                out.append(('name:alias', f'target {k + 1} is named {name!r}, expected its alias {t["alias"]!r}'))
        elif kind == 'C':
            if name != t['column']:
                out.append(('name:column', f'target {k + 1} is named {name!r}, expected the column name {t["column"]!r}'))
        else:
            if not isinstance(name, str):
                out.append(('name:expression-slice', f'target {k + 1} is named {name!r}, expected a slice of the statement text'))
                continue
            s, e = t['region']
            at = text.find(name, s)
            if not name or at < 0 or at + len(name) > e:
                out.append(('name:expression-slice', f'target {k + 1} is named {name!r}, which is not a contiguous slice of the '
                                                     f'target\'s own source text {text[s:e]!r}'))
                continue
            got = reparse(name)
            if isinstance(got, str):
                out.append(('name:expression-reparse', f'target {k + 1} is named {name!r}, which {got}; expected text that parses back to {t["expr"]!r}'))
            elif not same_ast(got, t['expr']):
                out.append(('name:expression-reparse', f'target {k + 1} is named {name!r}, which parses to {got!r}; expected {t["expr"]!r}'))


def check_statement(conn, unit, acc=None):
    """Execute one statement and apply the oracle; returns [(fingerprint, message)]."""
    group, label, text, spec, nhidden = unit
    out = []
    try:
        cur = conn.execute(text)
        desc = cur.description
        rows = cur.fetchall()
    except Exception as exc:     # noqa: BLE001
        return [(f'rejected:{crash_fingerprint(exc)}', f'{type(exc).__name__}: {exc}')]
    if desc is None:
        return [('shape:no-description', f'the executed SELECT has no description (None); {len(rows)} row(s)')]
    names = [d[0] for d in desc]
    if group == 'wildcard':
        if isinstance(spec, tuple):
            expected = list(spec[1])
            kind = 'subquery'
        else:
            table = conn.tables[spec]
            expected = list(table.wildcard_columns)
            kind = type(table).__name__
            declared = list(table.columns)
            it = iter(declared)
            if not all(c in it for c in expected):
                out.append(('wildcard:not-declaration-order', f'wildcard columns {expected!r} of table {spec!r} are not a sub-sequence of its declared columns {declared!r}'))
        if names != expected:
            fp = 'shape:description-length' if len(names) != len(expected) else f'wildcard:{kind}'
            out.append((fp, f'`*` gives columns {names!r}, expected the table\'s default columns {expected!r}'))
        nexp = len(expected)
        if acc is not None:
            acc.add('wildcard_table_kinds', kind)
    elif group == 'values':
        nexp = len(spec['targets'])
        check_values(conn, label, spec, names, rows, out)
    else:
        nexp = len(spec)
        if len(names) != nexp:
            out.append(('shape:description-length', f'description has {len(names)} columns {names!r}, the statement has {nexp} targets'
                                                    + (f' (and {nhidden} hidden GROUP BY / HAVING / ORDER BY expressions)' if nhidden else '')))
        else:
            check_named(text, spec, names, out)
    bad = [r for r in rows if len(r) != len(names)]
    if bad:
        out.append(('shape:row-length', f'a row has {len(bad[0])} values {tuple(bad[0])!r}, the description has {len(names)} columns'))
    if len(names) != nexp and not bad and rows and len(rows[0]) != nexp:
        out.append(('shape:row-length', f'rows have {len(rows[0])} values, the statement has {nexp} targets'))
    if acc is not None:
        acc.count('rows_checked', len(rows))
        acc.count('statements_with_rows' if rows else 'statements_without_rows')
        acc.count('names_checked', len(names))
        acc.add('description_lengths', len(names))
    return out


def check_sequence(conn, unit, acc=None, upto=None):
    """The spellings of one statement one after the other on ``conn``; returns [(fingerprint, message, step)].
    A report on a later step that does not appear when that spelling is the first statement of a connection
    without history is a dependence on the statements executed before: fingerprint ``sequence:...``."""
    group, label, texts, specs, nhidden = unit
    res = []
    for step, (text, spec) in enumerate(zip(texts, specs)):
        if upto is not None and step > upto:
            break
        found = check_statement(conn, ('named', label, text, spec, nhidden), acc)
        if found and step:
            try:
                alone = {fp for fp, _ in check_statement(fresh_connection_with_tables(conn), ('named', label, text, spec, nhidden))}
            except Exception:       # noqa: BLE001
                alone = set()
            found = [(fp if fp in alone else f'sequence:{fp}',
                      msg if fp in alone else f'{msg} -- only after {texts[step - 1]!r} was executed on the same connection', ) for fp, msg in found]
        res.extend((fp, f'{text!r}: {msg}', step) for fp, msg in found)
    return res


def fresh_connection_with_tables(conn):
    new = fresh_connection()
    for name in ('t', 'u'):
        new.tables[name] = conn.tables[name]
    return new


def jsonable_targets(spec):
    if not isinstance(spec, list):
        return spec
    return [{k: (ast_to_json(v) if k == 'expr' else v) for k, v in t.items()} for t in spec]


def unjson_targets(spec):
    if not isinstance(spec, list) or (spec and not isinstance(spec[0], dict)):
        return tuple(spec) if isinstance(spec, list) else spec
    return [{k: (ast_from_json(v) if k == 'expr' else v) for k, v in t.items()} for t in spec]


def units(tier, seed=0):
    thorough = tier == 'thorough'
    conn = connection()
    yield from named_statements(*((1, 1) if not thorough else (20, 6)), seed, thin=not thorough)
    yield from duplicate_statements()
    yield from wildcard_statements(conn, thorough)
    yield from table_kind_statements(conn, seed)
    yield from attribute_statements(seed, 3 if thorough else 1)
    yield from value_statements(thorough)


_UNITS = None       # built once in the parent, inherited by the forked workers


def shard_fn(shard, nshards, tier, seed):
    acc = par.Acc()
    conn = connection()
    for i, u in enumerate(_UNITS if _UNITS is not None else units(tier, seed)):
        if i % nshards != shard:
            continue
        group, label, text, spec, nhidden = u
        acc.count(f'group[{group}:{label[0]}]')
        if group == 'sequence':
            texts, specs = text, spec
            text, spec = texts[0], specs[0]
            acc.count('statements', len(texts))
            acc.count('sequences')
            acc.count('sequence_steps_after_the_first', len(texts) - 1)
            acc.count('sequence_steps_spelled_differently_from_the_previous', sum(1 for a, b in zip(texts, texts[1:]) if a != b))
            acc.count('sequence_expression_targets_spelled_differently_from_the_previous', sum(
                1 for k in range(1, len(texts)) for ta, tb in zip(specs[k - 1], specs[k])
                if ta['kind'] != 'C' and texts[k - 1][ta['region'][0]:ta['region'][1]].strip() != texts[k][tb['region'][0]:tb['region'][1]].strip()))
            for x in texts:
                acc.add('texts', hash(x))
        else:
            acc.count('statements')
            acc.add('texts', hash(text))
        if group in ('named', 'sequence'):
            for t in spec:
                acc.count(f'targets[{t["kind"]}]')
            acc.add('kind_sequences', ''.join(t['kind'] for t in spec))
            acc.count(f'hidden[{nhidden}]')
        if group == 'values':
            acc.add('value_name_patterns', tuple(label[1:4]))
            acc.count(f'value_statements[{spec["where"]}]')
        if i % 10 == 0 and nhidden:
            # non-vacuity only (never part of the verdict): does the compiler really carry invisible targets here?
            try:
                q = conn.compile(bq_parser.parse(text))
                inv = sum(1 for t in q.c_targets if t.name is None)
                acc.count('sampled_statements_with_hidden_clauses')
                acc.count('sampled_statements_where_compiler_has_invisible_targets', 1 if inv else 0)
                acc.count('sampled_invisible_targets', inv)
            except Exception:      # noqa: BLE001 -- internals may change; this is only a counter
                acc.count('sampled_compile_introspection_failed')
        if group == 'sequence':
            for fp, msg, step in check_sequence(conn, u, acc):
                acc.violation(fp, msg, {'group': group, 'label': repr(label), 'texts': texts, 'specs': [jsonable_targets(x) for x in specs],
                                        'step': step, 'nhidden': nhidden})
            continue
        for fp, msg in check_statement(conn, u, acc):
            acc.violation(fp, f'{text!r}: {msg}', {'group': group, 'label': repr(label), 'text': text, 'spec': jsonable_targets(spec), 'nhidden': nhidden})
        if i % 499 == 0:
            acc.sample({'text': text[:240], 'targets': [t['kind'] for t in spec] if isinstance(spec, list) else spec}, limit=1)
    return acc


def replay(case):
    conn = connection()
    if case['group'] == 'sequence':
        u = ('sequence', ('replay',), case['texts'], [unjson_targets(x) for x in case['specs']], case.get('nhidden'))
        return [Violation(fp, msg, case) for fp, msg, step in check_sequence(conn, u, upto=case['step']) if step == case['step']]
    spec = case['spec']
    if case['group'] == 'wildcard':
        spec = ('subquery', spec[1]) if isinstance(spec, list) else spec
    else:
        spec = unjson_targets(spec)
    u = (case['group'], ('replay',), case['text'], spec, case.get('nhidden'))
    return [Violation(fp, f'{case["text"]!r}: {msg}', case) for fp, msg in check_statement(conn, u)]


def run(ctx):
    global _UNITS
    conn = connection()
    _UNITS = list(units(ctx.tier, ctx.seed))
    total = par.run_shards(shard_fn, ctx.jobs, ctx.tier, ctx.seed, nshards=ctx.jobs * 4)
    _UNITS = None
    n, s = total.n, total.sets
    cov = {
        'states': len(s['texts']),
        'transitions': n['names_checked'] + n['rows_checked'],
        'traces_validated_against_impl': n['statements'],
        'evaluations': n['statements'],
        'distinct_nontrivial': len(s['texts']),
        'rule': 'a case is one SELECT statement text executed on the real connection; enumerated: all 120 kind sequences over {alias, bare '
                'column, expression} of length 1..4 x hidden-target configurations x spelling rotations, duplicates, `*` on every table kind, '
                'named targets on every table kind, respelled two/three-statement sequences on one connection, value alignment of bare/aliased '
                'column lists for every name pattern (set partition) directly and through a sub-query; distinct & non-trivial = distinct statement texts (every statement has >= 1 target)',
        'exhaustive': True,
        'bound': f'target lists of 1..4 targets; 0..3 hidden targets; spelling rotations plain/grouped = {(1, 1) if ctx.quick else (20, 6)}; '
                 f'rotation offset from VERIF_SEED = {ctx.seed}',
        'kind_sequences_visited': len(s['kind_sequences']),
        'respelled_sequences': {k: n[k] for k in ('sequences', 'sequence_steps_after_the_first', 'sequence_steps_spelled_differently_from_the_previous',
                                                  'sequence_expression_targets_spelled_differently_from_the_previous')},
        'value_alignment': {'name_patterns_(source,partition,style)': len(s['value_name_patterns']),
                            'statements_direct': n['value_statements[direct]'], 'statements_through_subquery': n['value_statements[subquery]'],
                            'sources': {k: v[1] for k, v in VALUE_SOURCES.items()}},
        'targets_by_kind': {k[8:-1]: v for k, v in sorted(n.items()) if k.startswith('targets[')},
        'statements_by_hidden_count': {k[7:-1]: v for k, v in sorted(n.items()) if k.startswith('hidden[')},
        'statements_by_group': {k[6:-1]: v for k, v in sorted(n.items()) if k.startswith('group[')},
        'wildcard_table_kinds': sorted(s['wildcard_table_kinds']),
        'description_lengths_seen': sorted(s['description_lengths']),
        'names_checked': n['names_checked'],
        'rows_checked': n['rows_checked'],
        'statements_with_rows': n['statements_with_rows'],
        'statements_without_rows': n['statements_without_rows'],
        'non_vacuity_sample_of_compiled_queries': {k: n[k] for k in ('sampled_statements_with_hidden_clauses', 'sampled_statements_where_compiler_has_invisible_targets',
                                                                      'sampled_invisible_targets', 'sampled_compile_introspection_failed')},
        'tables': {name: list(t.wildcard_columns) for name, t in conn.tables.items()},
        'violating_cases': n['violating_cases'],
        'samples': total.samples[:8],
    }
    if len(s['kind_sequences']) < 120:
        raise AssertionError(f'only {len(s["kind_sequences"])} of the 120 kind sequences were generated')
    return Result(cov, total.violations, assumptions=[
        'aliases are printed in lower case; a parenthesised bare column is not generated',
        'an expression name may be any slice of the target\'s own source region (with or without surrounding parentheses / blanks / comments) '
        'that parses back to the expression',
        '`*` is compared with the table\'s published wildcard_columns, which must be a sub-sequence of the declared columns',
        'BALANCES / JOURNAL / PIVOT BY column names are not specified by the property and are not generated',
        'duplicate names are not combined with positional references (DESIGN finding 24 belongs to C05/C03)',
        'from a sub-query with repeated column names only uniquely named columns are read by name; `*` over it is the open C08 finding '
        'star-identity:duplicate-names and is not generated',
        'value alignment: rows are compared as multisets with the rows of the harness table / with the postings of beancount\'s own data model',
        'respelled sequences share the process connection with all other statements of the worker (any earlier statement is history too)',
    ])
