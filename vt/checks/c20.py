"""C20 -- Thread isolation: concurrent queries give the same results as serial execution.

Technique: stateless model checking of the real implementation under a controlled scheduler
(E-sched, vt/explore/sched.py): 2 and 3 real threads, each executing one pre-parsed statement
(compile + execute + fetchall + description), every interleaving of their scheduling points explored
systematically (depth-first over schedules, preemption bounded for 3 threads, never random).

Scheduling points (nothing in /repo is touched)
  (i)   the BQL function ``vy(x)`` registered by this module in ``query_compile.FUNCTIONS`` with
        ``pass_row=True`` (impure, hence never constant-folded); it yields to the scheduler and returns x.
        It stands between sub-expressions of the targets (targets are evaluated left to right), inside
        aggregates, in WHERE clauses (one point per scanned row) and in sub-queries;
  (i')  the PURE BQL function ``vc(x)``: constant-folded, hence evaluated BY THE COMPILER; a point during compilation
        (before placeholders are bound and columns resolved: targets compile left to right, FROM first, WHERE last);
  (iv)  inside PARSING: the semantic actions identifier / integer / string of beanquery.parser.BQLSemantics are wrapped
        at run time; for the short text statements pa / pb / pc every such token is a point;
  (ii)  a harness table whose iterator yields to the scheduler before every row;
  (iii) thorough tier: a point before every source line executed in <repo>/beanquery/*.py
        (sys.settrace installed in each harness thread).
Outside an exploration ``point()`` is a no-op: the same statements run serially give the references.

Menu       bal2 (``balance`` twice per row, vy between), agg (two aggregates, GROUP BY), insub (IN
           sub-query with a named placeholder inside), fromsub (FROM sub-query), named / pos1 / pos2
           (placeholders), ent (the #entries table), oc (FROM OPEN ON .. CLOSE ON ..), ht (harness table).
           oc1..oc4 (FROM OPEN/CLOSE/CLEAR with different windows, compile point after FROM) and b*/j* (BALANCES /
           JOURNAL pairs with a compile point inside FROM) are explored as pairs only.
           xa/xb (conn.execute()) and xc (conn.cursor().execute()): harness points between execute(), description,
           fetchone() and fetchall() in the worker.  tx/tx2/pr/pr2/nt: scans of #transactions / #prices / #notes, with a
           serial re-run after the concurrent phase.
           ao/aa/am/ap: first statements of a fresh shared connection over an instrumented ledger ('sharedx').
           gp/cv: per-row price lookups (getprice, convert) over ledgers quoting the same pair at different prices.
           dv/ds: inexact Decimal division, compared digit for digit with the main-thread serial reference.
           fa/fb, fs/fs2/fh, fd/fd2: vy() as a later ARGUMENT of root / substr / date_add (points inside an argument
           list, same overload, different values), pairs on all three configurations.
           tagg / tagg2 / tplain are passed AS TEXT (same text in both threads), as pairs only.
           The parsed AST of a statement is SHARED by all threads that execute it; each thread passes its own parameters.
Configs    shared: one Connection for all threads; separate: one Connection per thread over the same
           entries; different: one Connection per thread over different ledgers.
Oracle     property: "the same results as when executed one after another".  For every thread the
           observation (rows by (type, value), description names and datatypes, or the exception) must
           be one that the thread obtains in SOME serial order of the same executions started from the same
           fresh state (all n! orders are run; for history-independent statements -- on the current tree all
           of the menu, on the pinned tree all but pos2 -- this is the single result of running the thread alone).  No deadlock.  Every failing
           schedule is re-executed twice from fresh state and must reproduce decisions and observations
           exactly, otherwise the run aborts with a harness error (nondeterminism is never a verdict).
Findings   fingerprint ``balance-cache-shared`` = "only the running-balance columns of a row are wrong".  It was
           raised by the pinned tree: the module-level ``lru_cache(maxsize=1)`` on the ``balance`` column was shared
           by all threads and connections; schedule [0,0,1,...]: T0 evaluates ``balance`` for a row, is paused at the
           vy() between the two references, T1 evaluates ``balance`` (evicting the single entry), T0's second
           reference misses the cache and adds the posting again (2 USD instead of 1 USD, carried to all later
           rows).  Fixed in /repo by 006c8af (state kept in the row context); re-introducing the cache in a scratch
           worktree is reported again on every run.  On the pinned tree a shared AST with two positional placeholders
           was renamed in place by the compiler (fixed since, C09): at line granularity the outcome depended on the schedule (the second execution
           failed serially, both succeeded when both threads passed the name check before either renamed) but no
           thread ever saw wrong rows; that history dependence belongs to C09 and is accepted by the oracle above.
Non-vacuity on a correct tree every tuple has exactly one outcome, so each run also explores a deliberately racy
           harness table (CanaryTable): it must be flagged when shared and not flagged when not shared.
State      every execution starts from fresh Connections / tables and, for statements with placeholders
           (which the compiler of the pinned tree renamed in place), from a fresh copy of the pristine AST shared by the
           threads of that execution.  ASTs without placeholders are shared by all executions and checked
           to be unmodified at the end.
"""
import decimal
import itertools
import json
import os
import re
import textwrap
import threading

import beanquery
from beancount import loader
from beancount.core import amount, data, inventory, position
from beanquery import parser, query_compile, query_env
from beanquery.parser import ast as A

from ..explore import sched
from ..harness import HTable, crash_fingerprint
from ..par import Acc, run_shards
from ..runner import REPO, Result, Violation, jsonable


def _application_sigint(signum, frame):
    raise KeyboardInterrupt


def _embedding_environment():
    """The statements run in threads of an application that has its own SIGINT handler (graceful shutdown), as servers
    embedding the library do: process-wide state (signal handlers, which only the main thread may set) that execute()
    touched would then fail or differ in worker threads but not serially in the main thread."""
    import signal
    if threading.current_thread() is threading.main_thread() and signal.getsignal(signal.SIGINT) is not _application_sigint:
        signal.signal(signal.SIGINT, _application_sigint)


_embedding_environment()

LEVEL = 'model_checking'

BALANCE_FP = 'balance-cache-shared'


# ---------------------------------------------------------------------------------------------
# scheduling points (i) and (ii)

def _register_vy():
    if any(getattr(f, '_c20', False) for f in query_compile.FUNCTIONS.get('vy', [])):
        return

    @query_env.function([int], int, pass_row=True, name='vy')
    def vy(row, x):
        sched.point(('vy', x))
        return x
    query_compile.FUNCTIONS['vy'][-1]._c20 = True

    # PURE function: with constant arguments it is constant-folded, i.e. evaluated by the compiler.  Its body is a
    # scheduling point DURING COMPILATION (FROM is compiled first, then the targets left to right, then WHERE).
    @query_env.function([int], int, name='vc')
    def vc(x):
        sched.point(('vc', x))
        return x
    query_compile.FUNCTIONS['vc'][-1]._c20 = True


_register_vy()


# Scheduling points INSIDE PARSING (iv): the semantic actions of beanquery.parser.BQLSemantics are ordinary methods
# called by the TatSu parser while a text is being parsed.  They are wrapped at run time (class attributes; /repo is
# not touched; restored by run()/replay()): the wrapper is a scheduling point -- only for threads that switched it on
# (the bodies of the PARSE_MENU statements), a no-op everywhere else -- and then calls the original action.
PARSE_ACTIONS = ('identifier', 'integer', 'string')
_parse_tl = threading.local()
_parse_saved = {}


def install_parse_points():
    from beanquery.parser import BQLSemantics
    for name in PARSE_ACTIONS:
        if name in _parse_saved:
            continue
        orig = BQLSemantics.__dict__[name]
        _parse_saved[name] = orig

        def wrapper(self, value, _orig=orig, _name=name):
            if getattr(_parse_tl, 'on', False):
                sched.point(('parse', _name, value))
            return _orig(self, value)
        wrapper.__name__ = name
        setattr(BQLSemantics, name, wrapper)


def restore_parse_points():
    from beanquery.parser import BQLSemantics
    for name, orig in list(_parse_saved.items()):
        setattr(BQLSemantics, name, orig)
        del _parse_saved[name]


class SchedTable(HTable):
    """Harness table: a scheduling point before every row."""

    def __iter__(self):
        self.scans += 1
        for i, row in enumerate(self.rows):
            sched.point(('row', self.name, i))
            yield row


class SchedEntries(list):
    """The ledger handed to beanquery.connect() in the 'sharedx' configuration: iterating it is a scheduling point
    before every Open directive (3 per harness ledger), whoever iterates -- a table scan or anything beanquery
    derives lazily from the ledger on first use."""

    def __iter__(self):
        for i, entry in enumerate(list.__iter__(self)):
            if isinstance(entry, data.Open):
                sched.point(('entries', i))
            yield entry


class _RacyCol(query_compile.EvalColumn):
    """Deliberately thread-unsafe column of the canary table: read, yield, write on a counter of the table."""
    __slots__ = ('table',)

    def __init__(self, table):
        super().__init__(int)
        self.table = table

    def __call__(self, row):
        v = self.table.counter
        sched.point(('canary', v))
        self.table.counter = v + 1
        return v


class CanaryTable(HTable):
    """Non-vacuity canary (harness only, no beanquery state involved): two scans of ONE table object race on its
    counter.  The check requires that the explorer + oracle flag it in the shared configuration and do not flag it
    when every thread has its own table; otherwise the run aborts with a harness error."""

    def __init__(self):
        super().__init__([('c', int)], [(0,), (0,)], name='canary')
        self.columns = {'c': _RacyCol(self)}
        self.counter = 0


# ---------------------------------------------------------------------------------------------
# ledgers, statements

def _ledger(n1, n2, n3, eur_account):
    return textwrap.dedent(f"""
      2020-01-01 open Assets:A
      2020-01-01 open Assets:B
      2020-01-01 open Income:X
      2020-01-02 * "n1"
        Assets:A  {n1} USD
        Income:X -{n1} USD
      2020-01-03 * "n2"
        Assets:A  {n2} USD
        Income:X -{n2} USD
      2020-01-04 * "n3"
        {eur_account}  {n3} EUR
        Income:X -{n3} EUR
      2020-01-02 price EUR {n1}.25 USD
      2020-01-04 price EUR {n2}.5 USD
      2020-01-02 note Assets:A "note {n1}"
      2020-01-04 note Assets:B "note {n3}"
      2020-01-03 event "location" "L{n2}"
    """)


LEDGERS = [_ledger(1, 2, 3, 'Assets:B'), _ledger(10, 20, 30, 'Assets:A'), _ledger(100, 200, 300, 'Assets:B')]
HT_ROWS = [[(1, 'a'), (2, 'b')], [(10, 'c'), (20, 'd')], [(100, 'e'), (200, 'f')]]

# id -> (text, parameter variants per thread slot or None, names of result columns derived from `balance`)
MENU = {
    'bal2': ("SELECT vy(0) AS y0, balance AS b1, vy(1) AS y1, balance AS b2 WHERE account ~ 'Assets'", None, ('b1', 'b2')),
    # vy(2): one point per selected row during the scan; vy(1): one point per group while the groups are finalised
    'agg': ("SELECT account, sum(position) AS s, vy(1) * sum(number) AS n WHERE account ~ 'Assets' AND vy(2) = 2 "
            "GROUP BY account", None, ()),
    'insub': ("SELECT narration, vy(1) AS y WHERE account ~ 'Assets' AND account IN "
              "(SELECT account WHERE currency = %(cur)s AND account ~ 'Assets' AND vy(2) = 2)",
              [{'cur': 'EUR'}, {'cur': 'USD'}, {'cur': 'EUR'}], ()),
    'fromsub': ("SELECT vc(1) AS c, a, vy(1) AS y, n FROM (SELECT account AS a, number AS n WHERE account ~ 'Assets:A' AND vy(2) = 2)", None, ()),
    'named': ("SELECT vc(1) AS c, account, number, vy(1) AS y WHERE number > %(lo)s AND currency = %(cur)s",
              [{'lo': 0, 'cur': 'USD'}, {'lo': 1, 'cur': 'EUR'}, {'lo': 1, 'cur': 'USD'}], ()),
    'pos1': ("SELECT account, vy(1) AS y, number * %s AS m WHERE account ~ 'Assets'", [(2,), (3,), (5,)], ()),
    'pos2': ("SELECT account, vy(1) AS y, vc(1) AS c, number * %s AS m WHERE number > %s", [(2, 0), (3, 1), (5, 0)], ()),
    'ent': ("SELECT vc(1) AS c, vy(1) AS y, date, narration FROM #entries WHERE type = 'transaction'", None, ()),
    'oc': ("SELECT account, sum(position) AS s FROM OPEN ON 2020-01-03 CLOSE ON 2020-01-05 "
           "WHERE account ~ 'Assets' AND vy(1) = 1 GROUP BY account", None, ()),
    'ht': ("SELECT vc(1) AS c, x, vy(1) AS y, s FROM #ht WHERE x > 0", None, ()),
}
IDS = list(MENU)
# Statements passed to execute() AS TEXT (parsed inside the thread; parsing has no scheduling point and costs 20-90 ms,
# hence few of them and only as pairs): the same / an equal text in both threads reaches anything keyed by statement
# text.  vy(1) stands in an aggregate target evaluated while the groups are finalised: count(*) of the row is read
# before the point, sum(number) after it.
TEXT_MENU = {
    'tagg': ("SELECT account, count(*) AS n, vy(1) * sum(number) AS s, last(narration) AS l WHERE account ~ 'Assets' "
             "GROUP BY account", None, ()),
    'tagg2': ("SELECT currency, count(*) AS n, vy(1) * sum(number) AS s WHERE account ~ 'Income' GROUP BY currency", None, ()),
    'tplain': ("SELECT account, vy(1) AS y, number WHERE account ~ 'Assets:A'", None, ()),
}
# Short texts whose PARSING is interleaved: every identifier / integer / string literal is a scheduling point (iv).
PARSE_MENU = {
    'pa': ("SELECT account WHERE number > 1", None, ()),
    'pb': ("SELECT account WHERE currency = 'EUR'", None, ()),
    'pc': ("SELECT x, s FROM #ht", None, ()),
}
PARSE_PAIRS = [('pa', 'pa'), ('pa', 'pb'), ('pb', 'pb'), ('pa', 'pc')]
TEXT_MENU.update(PARSE_MENU)
MENU.update(TEXT_MENU)
# FROM-qualified statements with DIFFERENT windows (fed as ASTs).  The compiler applies OPEN / CLOSE / CLEAR when the
# FROM clause is compiled, the table reads them when iteration starts: vc(1) in WHERE is a compile-time point AFTER the
# FROM clause; oc4 has row-level points before a lazily executed IN (SELECT ... FROM CLOSE ON ...).
FROM_MENU = {
    'oc1': ("SELECT account, sum(position) AS s FROM OPEN ON 2020-01-03 CLOSE ON 2020-01-05 "
            "WHERE vc(1) = 1 AND account ~ 'Assets' AND vy(1) = 1 GROUP BY account", None, ()),
    'oc2': ("SELECT account, number FROM CLOSE ON 2020-01-04 CLEAR WHERE vc(1) = 1 AND account ~ 'Assets|Equity'", None, ()),
    'oc3': ("BALANCES FROM OPEN ON 2020-01-04 WHERE vc(1) = 1 AND account ~ 'Assets|Equity'", None, ()),
    'oc4': ("SELECT vy(1) AS y, account, account IN (SELECT account FROM CLOSE ON 2020-01-03 WHERE number > 0) AS m "
            "WHERE account ~ 'Assets'", None, ()),
}
FROM_PAIRS = [(cfg, p) for cfg in ('shared',) for p in itertools.combinations(FROM_MENU, 2)] + \
             [('separate', ('oc1', 'oc2')), ('separate', ('oc2', 'oc4'))]
# BALANCES / JOURNAL are translated to a SELECT built from a template that is re-parsed by every compilation (40-150 ms:
# few pairs).  `FROM vc(1) = 1` is constant-folded while the FROM clause is compiled: a point between the compilation
# of the FROM clause and of the WHERE clause / account pattern of the translated statement.
TEMPLATE_MENU = {
    'b1': ("BALANCES FROM vc(1) = 1 WHERE account ~ 'Assets'", None, ()),
    'b2': ("BALANCES FROM vc(1) = 1 WHERE account ~ 'Income'", None, ()),
    'bc1': ("BALANCES AT cost FROM vc(1) = 1 WHERE account ~ 'Assets:A'", None, ()),
    'bc2': ("BALANCES AT cost FROM vc(1) = 1 WHERE account ~ 'Assets:B'", None, ()),
    'j1': ("JOURNAL 'Assets:A' FROM vc(1) = 1", None, ('balance',)),
    'j2': ("JOURNAL 'Assets:B' FROM vc(1) = 1", None, ('balance',)),
    'ju1': ("JOURNAL 'Assets' AT units FROM vc(1) = 1", None, ('units(balance)',)),
    'ju2': ("JOURNAL 'Income' AT units FROM vc(1) = 1", None, ('units(balance)',)),
}
TEMPLATE_PAIRS = [(cfg, p) for cfg in ('shared', 'different') for p in (('b1', 'b2'), ('bc1', 'bc2'), ('j1', 'j2'), ('ju1', 'ju2'))]
# Points INSIDE an argument list: vy(..) is a later ARGUMENT of a function with several arguments, so a thread can be
# parked between the evaluation of the first and of the last argument of one call.  The two statements of a pair call
# the SAME overload with different argument values.
ARG_MENU = {
    'fa': ("SELECT root(account, vy(2)) AS r WHERE account ~ 'Assets:A'", None, ()),
    'fb': ("SELECT root(account, vy(1)) AS r WHERE account ~ 'Income'", None, ()),
    'fs': ("SELECT substr(account, vy(0), vy(6)) AS t WHERE account ~ 'Assets:A'", None, ()),
    'fs2': ("SELECT substr(narration, vy(1), vy(2)) AS t WHERE account ~ 'Assets:B|Income'", None, ()),
    'fh': ("SELECT substr(s, vy(0), vy(1)) AS t FROM #ht", None, ()),
    'fd': ("SELECT date_add(date, vy(1)) AS d WHERE account ~ 'Assets:A'", None, ()),
    'fd2': ("SELECT date_add(date, vy(7)) AS d WHERE account ~ 'Income'", None, ()),
}
ARG_PAIRS = [(cfg, p) for cfg in ('shared', 'separate', 'different') for p in (('fa', 'fb'), ('fs', 'fs2'), ('fs', 'fh'), ('fd', 'fd2'))]
# Worker styles.  'conn': cur = conn.execute(stmt) -- the Connection shortcut -- then a scheduling point, description,
# a point, fetchone(), a point, fetchall(): another thread can run between a thread's execute() and its reading of the
# cursor it got back.  'cursor': the same reads and points on conn.cursor().execute(stmt).  Default (all other
# statements): conn.cursor().execute() + fetchall() + description without harness points in between.
CURSOR_MENU = {
    'xa': ("SELECT account, number WHERE account ~ 'Assets:A'", None, ()),
    'xb': ("SELECT narration, date WHERE account ~ 'Income'", None, ()),
    'xc': ("SELECT account, currency WHERE account ~ 'Assets:B|Income'", None, ()),
}
STYLE = {'xa': 'conn', 'xb': 'conn', 'xc': 'cursor'}
CURSOR_PAIRS = [(cfg, p) for cfg in ('shared',) for p in (('xa', 'xa'), ('xa', 'xb'), ('xa', 'xc'), ('xc', 'xc'))] + \
               [('separate', ('xa', 'xb'))]
# The generic directive tables of the beancount source (#transactions, #prices, #notes, ...): vy() gives a point
# between the rows of a scan.  After the concurrent phase every statement is re-run serially on its connection and
# must still give the fresh result (POST_CHECK: nothing the concurrent scans left behind may pollute later queries).
TABLE_MENU = {
    'tx': ("SELECT date, vy(1) AS y, narration FROM #transactions", None, ()),
    'tx2': ("SELECT narration, vy(1) AS y FROM #transactions WHERE vy(2) = 2 AND date > 2020-01-02", None, ()),
    'pr': ("SELECT date, vy(1) AS y, currency, amount FROM #prices", None, ()),
    'pr2': ("SELECT currency, vy(1) AS y FROM #prices WHERE date > 2020-01-02", None, ()),
    'nt': ("SELECT date, vy(1) AS y, account, comment FROM #notes", None, ()),
}
TABLE_PAIRS = [(cfg, p) for cfg in ('shared',) for p in (('tx', 'tx'), ('tx', 'tx2'), ('pr', 'pr'), ('pr', 'pr2'), ('nt', 'nt'),
                                                         ('tx', 'pr'))] + \
              [(cfg, p) for cfg in ('separate', 'different') for p in (('tx', 'tx2'), ('pr', 'pr2'))]
# First statements of a FRESH shared connection that need the account information (open/close directives, account
# types), in the 'sharedx' configuration: one Connection over an instrumented ledger (SchedEntries) so that there are
# scheduling points inside anything computed from the ledger on first use.
ACCT_MENU = {
    'ao': ("SELECT account, open_date(account) AS o, close_date(account) AS c WHERE account ~ 'Assets:A'", None, ()),
    'aa': ("SELECT account FROM #accounts", None, ()),
    'am': ("SELECT account, open_meta(account, 'lineno') AS l WHERE account ~ 'Assets:B|Income'", None, ()),
    'ap': ("SELECT account, possign(position, account) AS p WHERE account ~ 'Income'", None, ()),
}
ACCT_PAIRS = [('sharedx', p) for p in (('ao', 'ao'), ('ao', 'aa'), ('ao', 'am'), ('aa', 'aa'), ('ap', 'ao'), ('ap', 'aa'))]
# Inexact Decimal arithmetic: the serial reference is computed in the main thread of the process, the explored
# executions in worker threads; cells are compared digit for digit (Decimal.as_tuple()).
DEC_MENU = {
    'dv': ("SELECT account, number / 3 AS q, safediv(number, 7) AS f, vy(1) AS y WHERE account ~ 'Assets'", None, ()),
    'ds': ("SELECT account, sum(number) / 7 AS q WHERE account ~ 'Assets' AND vy(1) = 1 GROUP BY account", None, ()),
}
DEC_PAIRS = [(cfg, p) for cfg in ('shared', 'different') for p in (('dv', 'dv'), ('dv', 'ds'))]
# Per-row price lookups: the three harness ledgers quote EUR/USD on the same dates at DIFFERENT prices; vy(1) is a
# point between the rows (and between compilation and the first lookup).
PRICE_MENU = {
    'gp': ("SELECT date, vy(1) AS y, getprice('EUR', 'USD', date) AS p WHERE account ~ 'Assets'", None, ()),
    'cv': ("SELECT account, vy(1) AS y, convert(position, 'USD', date) AS v WHERE currency = 'EUR'", None, ()),
}
PRICE_PAIRS = [(cfg, p) for cfg in ('different', 'shared') for p in (('gp', 'gp'), ('cv', 'cv'), ('gp', 'cv'))]
MENU.update(PRICE_MENU)
MENU.update(ACCT_MENU)
MENU.update(DEC_MENU)
MENU.update(FROM_MENU)
MENU.update(TEMPLATE_MENU)
MENU.update(ARG_MENU)
MENU.update(CURSOR_MENU)
MENU.update(TABLE_MENU)
TEXT_PAIRS = [('tagg', 'tagg'), ('tagg', 'tagg2'), ('tagg', 'tplain'), ('tplain', 'tplain')]
CANARY = ('canary', 'canary')
MENU['canary'] = ("SELECT c FROM #canary", None, ())      # not part of IDS: explored separately, see run()
CONFIGS = ['shared', 'separate', 'different']
CONFIGS_ALL = CONFIGS + ['sharedx']       # sharedx: see ACCT_MENU
# Thorough tier, 2 preemptions at line granularity for the pairs touching state shared between executions, with
# the line points restricted to the modules that hold that state (a full-module product would be ~10^6 schedules):
# the module-level `balance` cache (query_env / query_execute) and the shared AST rewritten by the compiler.
LINE2 = [
    ('line:query_env.py,query_execute.py', 'shared', ('bal2', 'bal2')),
    ('line:compiler.py', 'shared', ('pos2', 'pos2')),
]

_ENV = {}


def env(seed=0):
    """Ledgers loaded and statements parsed once per process (inherited through fork)."""
    if _ENV.get('seed') != seed:
        _ENV.clear()
        _ENV['seed'] = seed
        _ENV['ledgers'] = []
        for text in LEDGERS:
            entries, errors, options = loader.load_string(text)
            if errors:
                raise sched.HarnessError(f'harness ledger does not load: {errors}')
            _ENV['ledgers'].append((entries, errors, options))
        _ENV['ast'] = {k: parser.parse(v[0]) for k, v in MENU.items()}
        _ENV['pristine'] = {k: copy_ast(a) for k, a in _ENV['ast'].items()}
        _ENV['has_ph'] = {k: any(isinstance(n, A.Placeholder) for n in a.walk()) for k, a in _ENV['ast'].items()}
        # VERIF_SEED only rotates the ordinary multiplier values, never the structure (row counts, points)
        rot = [2, 3, 5, 7, 11]
        _ENV['mult'] = [rot[(seed + i) % len(rot)] for i in range(3)]
    return _ENV


def copy_ast(node):
    """Structural copy of an AST (nodes and lists rebuilt; parse positions and leaf values shared)."""
    if isinstance(node, A.Node):
        import dataclasses
        return type(node)(**{f.name: copy_ast(getattr(node, f.name)) if f.name != 'parseinfo' else node.parseinfo
                             for f in dataclasses.fields(node)})
    if isinstance(node, list):
        return [copy_ast(x) for x in node]
    return node


def params_for(sid, slot, e):
    variants = MENU[sid][1]
    if variants is None:
        return None
    p = variants[slot % len(variants)]
    if sid in ('pos1', 'pos2'):
        p = (e['mult'][slot % 3],) + tuple(p[1:])
    return p


def new_conn(e, ledger, instrumented=False):
    entries, errors, options = e['ledgers'][ledger]
    if instrumented:
        entries = SchedEntries(entries)
    conn = beanquery.connect('beancount:', entries=entries, errors=errors, options=options)
    conn.tables['ht'] = SchedTable([('x', int), ('s', str)], HT_ROWS[ledger], name='ht')
    conn.tables['canary'] = CanaryTable()
    return conn


# ---------------------------------------------------------------------------------------------
# observations

def _num(d):
    """Decimals digit for digit (sign, digits, exponent): 0.3333 with 28 digits is not 0.3333 with 34."""
    return tuple(d.as_tuple()) if isinstance(d, decimal.Decimal) else d


def canon(v):
    if isinstance(v, inventory.Inventory):
        return ('Inventory', tuple(sorted((p.units.currency, _num(p.units.number), repr(p.cost)) for p in v)))
    if isinstance(v, position.Position):
        return ('Position', v.units.currency, _num(v.units.number), repr(v.cost))
    if isinstance(v, amount.Amount):
        return ('Amount', v.currency, _num(v.number))
    if isinstance(v, decimal.Decimal):
        return ('Decimal', _num(v))
    if isinstance(v, (list, tuple)):
        return (type(v).__name__, tuple(canon(i) for i in v))
    if isinstance(v, (set, frozenset)):
        return (type(v).__name__, tuple(sorted((canon(i) for i in v), key=repr)))
    return (type(v).__name__, v)


def show(v):
    if isinstance(v, (inventory.Inventory, position.Position, amount.Amount)):
        return str(v)
    return repr(v)


class Obs:
    """What one thread saw: description + rows, comparable by (type, value)."""

    def __init__(self, description, rows):
        self.desc = tuple((d.name, getattr(d.datatype, '__name__', repr(d.datatype))) for d in description)
        self.rows = [tuple(r) for r in rows]
        self._key = ('OK', self.desc, tuple(tuple(canon(v) for v in r) for r in self.rows))

    def key(self):
        return self._key

    def text(self):
        return '[' + ', '.join('(' + ', '.join(show(v) for v in r) + ')' for r in self.rows) + ']'


_ADDR = re.compile(r'0x[0-9a-fA-F]+|\b\d{7,}\b')


def okey(res):
    if isinstance(res, sched.Exc):
        # object addresses / id() values in a message differ between executions from fresh state: not an observation
        return ('EXC', res.type, _ADDR.sub('#', res.msg))
    return res.key() if isinstance(res, Obs) else ('NONE', repr(res))


def otext(res):
    if isinstance(res, Obs):
        return res.text()
    return repr(res)


# ---------------------------------------------------------------------------------------------
# one work item = (mode, config, statement ids); a world = fresh state for one execution

class Item:
    def __init__(self, mode, config, ids, bound, seed=0, sub=(0, 1), cap=None):
        self.mode, self.config, self.ids, self.bound = mode, config, tuple(ids), bound
        self.seed, self.sub, self.cap = seed, tuple(sub), cap
        install_parse_points()
        self.e = env(seed)
        # mode: 'yield' (points (i)+(ii) only) | 'line' (every line of beanquery/*.py) | 'line:a.py,b.py' (those files)
        bq = os.path.join(os.path.realpath(REPO), 'beanquery', '')
        if not os.path.realpath(beanquery.__file__).startswith(bq):
            raise sched.HarnessError(f'beanquery is imported from {beanquery.__file__}, not from {bq}')
        if mode == 'yield':
            self.trace_files = None
        elif mode == 'line':
            self.trace_files = (bq,)
        else:
            self.trace_files = tuple(bq + name for name in mode.split(':', 1)[1].split(','))

    def label(self):
        return f'{self.mode}/{self.config}/{"+".join(self.ids)}/p{self.bound}'

    def world(self):
        e, n = self.e, len(self.ids)
        if self.config == 'shared':
            conns = [new_conn(e, 0)] * n
        elif self.config == 'sharedx':
            conns = [new_conn(e, 0, instrumented=True)] * n
        elif self.config == 'separate':
            conns = [new_conn(e, 0) for _ in range(n)]
        else:
            conns = [new_conn(e, i % len(e['ledgers'])) for i in range(n)]
        asts = {}
        for sid in self.ids:
            if sid not in asts:
                if sid in TEXT_MENU:
                    asts[sid] = MENU[sid][0]            # the text itself: execute() parses it
                else:
                    asts[sid] = copy_ast(e['pristine'][sid]) if e['has_ph'][sid] else e['ast'][sid]
        # kept for the serial re-run after the concurrent phase (post_check)
        self.last = [(conns[i], asts[sid], params_for(sid, i, e)) for i, sid in enumerate(self.ids)]
        return [self._body(conns[i], asts[sid], params_for(sid, i, e), sid in PARSE_MENU, STYLE.get(sid))
                for i, sid in enumerate(self.ids)]

    @staticmethod
    def _body(conn, stmt, params, parse_points=False, style=None):
        def body():
            _parse_tl.on = parse_points
            try:
                if style is None:
                    cur = conn.cursor()
                    cur.execute(stmt, params)
                    rows = cur.fetchall()
                    return Obs(cur.description, rows)
                cur = conn.execute(stmt, params) if style == 'conn' else conn.cursor().execute(stmt, params)
                sched.point(('cursor', 'executed'))
                description = cur.description
                sched.point(('cursor', 'description read'))
                first = cur.fetchone()
                sched.point(('cursor', 'fetchone done'))
                rows = ([first] if first is not None else []) + cur.fetchall()
                return Obs(description, rows)
            finally:
                _parse_tl.on = False
        return body

    def post_check(self, alone):
        """Serial re-run of every statement on its connection of the LAST world, after its threads are done: must equal
        the fresh result.  -> list of (fingerprint, what)."""
        bad = []
        for i, (conn, stmt, params) in enumerate(self.last):
            try:
                cur = conn.cursor()
                cur.execute(stmt, params)
                r = Obs(cur.description, cur.fetchall())
            except Exception as exc:
                r = sched.Exc(exc)
            if okey(r) != okey(alone[i]):
                bad.append((f'polluted:{self.ids[i]}', f'[{self.ids[i]}: {MENU[self.ids[i]][0]}] re-run serially on the same connection '
                            f'AFTER the concurrent phase: got {otext(r)}, fresh result {otext(alone[i])}'))
        return bad

    def serial(self):
        """acceptable[i] = observations of thread i over all serial orders; alone[i] = run from fresh state."""
        n = len(self.ids)
        acceptable = [dict() for _ in range(n)]
        alone = [None] * n
        for perm in itertools.permutations(range(n)):
            bodies = self.world()
            for pos, i in enumerate(perm):
                try:
                    r = bodies[i]()
                except Exception as exc:
                    r = sched.Exc(exc)
                acceptable[i].setdefault(okey(r), r)
                if pos == 0 and alone[i] is None:
                    alone[i] = r
        return acceptable, alone

    def case(self, out, fp):
        return {'mode': self.mode, 'config': self.config, 'ids': list(self.ids), 'bound': self.bound, 'seed': self.seed,
                'picks': list(out.picks), 'trace': list(out.trace), 'fingerprint': fp,
                'statements': [MENU[s][0] for s in self.ids],
                'params': [jsonable(params_for(s, i, self.e)) for i, s in enumerate(self.ids)]}


def classify(item, i, got, alone):
    """fingerprint (defect locus) and a description of the difference for thread i."""
    sid = item.ids[i]
    if isinstance(got, sched.Exc):
        return f'crash:{crash_fingerprint(got.exc)}', f'raised {got.type}: {got.msg}'
    if not isinstance(got, Obs):
        return f'no-result:{sid}', f'produced no result ({got!r})'
    if not isinstance(alone, Obs):
        return f'no-exception:{sid}', f'returned rows where the serial execution raises {alone!r}'
    if got.desc != alone.desc:
        return f'description:{sid}', f'description {got.desc!r}, serial {alone.desc!r}'
    cols = set()
    if len(got.rows) == len(alone.rows):
        for rg, ra in zip(got.key()[2], alone.key()[2]):
            for (name, _), vg, va in zip(got.desc, rg, ra):
                if vg != va:
                    cols.add(name)
        if cols and cols <= set(MENU[sid][2]):
            return BALANCE_FP, f'wrong running balance in column(s) {sorted(cols)}'
        return f'rows:{sid}', f'wrong values in column(s) {sorted(cols)}'
    return f'rows:{sid}', f'{len(got.rows)} rows, serial {len(alone.rows)}'


def describe(out):
    """Readable schedule: who ran, where it was paused."""
    tagat = {}
    for k, t, tag in (out.tags or []):
        tagat[k] = (t, tag)
    parts = []
    prev = None
    for k, t in enumerate(out.trace):
        if t != prev:
            if prev is not None:
                if k in tagat:
                    tg = tagat[k][1]
                    where = f'{tg[0]}({tg[1]})' if tg and tg[0] == 'vy' else (f'{tg[1]}:{tg[2]}' if tg and tg[0] == 'line' else
                                                                             f'{tg}')
                    npts = sum(1 for kk, (tt, _) in tagat.items() if tt == prev and kk <= k)
                    parts.append(f'T{prev} paused at its point #{npts} [{where}]')
                else:
                    parts.append(f'T{prev} finished')
            parts.append(f'T{t} runs')
            prev = t
    parts.append(f'T{prev} finished')
    return '; '.join(parts)


def check_outcome(item, out, acceptable, alone):
    """-> list of (fingerprint, what) for one explored execution."""
    bad = []
    if out.deadlock:
        bad.append(('deadlock', f'threads {out.deadlock} blocked forever'))
    for i, res in enumerate(out.results):
        if out.deadlock and res is None:
            continue
        if okey(res) not in acceptable[i]:
            fp, diff = classify(item, i, res, alone[i])
            bad.append((fp, f'thread {i} [{item.ids[i]}: {MENU[item.ids[i]][0]}'
                            + (f' params={params_for(item.ids[i], i, item.e)!r}' if MENU[item.ids[i]][1] else '')
                            + f'] {diff}: got {otext(res)}, serial result {otext(alone[i])}'))
    return bad


def run_item(item, acc, on_violation=None):
    acceptable, alone = item.serial()
    hist_dep = sum(1 for a in acceptable if len(a) > 1)
    if hist_dep:
        acc.add('history_dependent', (item.config, item.ids))
    kw = dict(trace_files=item.trace_files)
    outkey = ('outcomes', item.mode, item.config, item.ids, item.bound)
    joint = lambda o: tuple(okey(r) for r in o.results)   # noqa: E731

    post = all(sid in TABLE_MENU for sid in item.ids)
    best = {}     # fingerprint -> the KEEP_PER_FP simplest failing schedules of this work item [(rank, out, what)]

    def visit(out):
        acc.count('evaluations', len(out.results))
        acc.add(outkey, hash(joint(out)))
        bad = check_outcome(item, out, acceptable, alone)
        if post:
            acc.count('post_checks', len(item.ids))
            bad += item.post_check(alone)
        if not bad:
            return
        acc.count('violating_schedules')
        first_switch = next((k for k, t in enumerate(out.trace) if t != out.trace[0]), len(out.trace))
        rank = (len(item.ids), item.mode != 'yield', out.preemptions, out.switches, first_switch, len(out.trace),
                CONFIGS_ALL.index(item.config), tuple(out.picks))
        for fp, what in bad:
            acc.count('violating|' + fp)
            lst = best.setdefault(fp, [])
            lst.append((rank, out, what))
            lst.sort(key=lambda x: x[0])
            del lst[KEEP_PER_FP:]

    st = sched.explore(item.world, visit, preemption_bound=item.bound, shard=item.sub, max_schedules=item.cap, **kw)
    # A failing schedule is reported only after it reproduced exactly (decisions and observations), twice, from
    # fresh state.  The simplest failing schedules of each fingerprint are the ones replayed and reported.
    for fp, lst in sorted(best.items()):
        for rank, out, what in lst:
            reps = sched.confirm(item.world, out, joint, times=2, record_tags=True, **kw)
            acc.count('confirm_replays', 2)
            if fp.startswith('polluted:') and fp not in [f for f, _ in item.post_check(alone)]:
                raise sched.HarnessError(f'{fp} after schedule {out.trace} did not reproduce in the replay')
            msg = (f'config={item.config} threads={list(item.ids)} points={item.mode} schedule(thread ids)={out.trace} '
                   f'({out.preemptions} preemption(s): {describe(reps[0])}): {what}')
            acc.add('viol', (rank[:-1], fp, msg, json.dumps(item.case(out, fp), sort_keys=True)))
            if on_violation:
                on_violation(fp, msg, out)
    # shared ASTs without placeholders must not have been modified by anybody
    for sid in set(item.ids):
        if item.e['ast'][sid] != item.e['pristine'][sid]:
            raise sched.HarnessError(f'the shared AST of {sid} was modified by an execution; it must be copied per execution')
    pre = f'{item.mode}|{item.config}|{len(item.ids)}'
    acc.count('schedules', st.schedules)
    acc.count('decisions', st.decisions)
    acc.count('points', st.points)
    acc.count('preempting', st.preempting)
    acc.count('pruned_by_bound', st.pruned)
    acc.count('deadlocks', st.deadlocks)
    acc.count('sched|' + pre, st.schedules)
    acc.add('items|' + pre, item.ids)
    acc.add('maxpoints', st.max_points)
    acc.add('maxpoints|' + item.mode, st.max_points)
    if st.capped:
        acc.add('capped', (item.label(), item.sub[0], st.unexplored))
    if st.horizon_hit:
        acc.add('horizon', item.label())
    return st


# ---------------------------------------------------------------------------------------------
# enumeration of work items (deterministic), sub-sharding of the large ones

class ThreadOnlyFailure(Exception):
    """A statement that succeeds when the main thread executes it fails when a worker thread executes it, with no other
    thread running: the result depends on which thread executes it (1 thread, 0 preemptions)."""

    def __init__(self, item, sid, out):
        super().__init__(sid)
        self.item, self.sid, self.out = item, sid, out


def count_points(mode, sid, seed):
    """Points of one statement run alone under the scheduler (1 thread), per parameter slot: max."""
    best = 0
    for slot in range(3):
        it = Item(mode, 'separate', [sid] * (slot + 1), None, seed)
        body = it.world()[slot]
        out = sched.run_schedule([body], trace_files=it.trace_files)
        if isinstance(out.results[0], sched.Exc):
            # alone in a worker thread it fails: does it also fail alone in the main thread?
            try:
                it.world()[slot]()
            except Exception:
                raise sched.HarnessError(f'menu statement {sid} fails when run alone: {out.results[0]!r}')
            raise ThreadOnlyFailure(it, sid, out)
        best = max(best, out.npoints)
    return best


def quick_triples(triples):
    """Deterministic subset for the quick tier: every (a,a,a) and a greedy maximum cover so that every pair of
    different statements meets in at least one triple of three different statements."""
    chosen = [t for t in triples if len(set(t)) == 1]
    distinct = [t for t in triples if len(set(t)) == 3]
    pairs_of = {t: {frozenset(p) for p in itertools.combinations(t, 2)} for t in distinct}
    uncovered = set().union(*pairs_of.values()) if distinct else set()
    while uncovered:
        best = max(distinct, key=lambda t: (len(pairs_of[t] & uncovered), -distinct.index(t)))
        chosen.append(best)
        uncovered -= pairs_of[best]
    return chosen


def plan(ctx):
    """-> list of Item specs (tuples), big ones split in sub-shards of roughly equal size."""
    seed = ctx.seed
    pts = {sid: count_points('yield', sid, seed) for sid in IDS}
    specs = []

    def add(mode, config, ids, bound, est, per_shard, cap=None):
        nsub = max(1, min(64, -(-est // per_shard)))
        for s in range(nsub):
            specs.append((mode, config, tuple(ids), bound, seed, (s, nsub), cap))

    pairs = list(itertools.combinations_with_replacement(IDS, 2))
    triples = list(itertools.combinations_with_replacement(IDS, 3))
    if ctx.quick:
        triples = quick_triples(triples)
    # text statements first: two parses (20-100 ms each) per execution make them the slowest items
    pts.update({sid: count_points('yield', sid, seed) for sid in TEXT_MENU})
    for config in ('shared', 'separate'):
        for ids in TEXT_PAIRS + PARSE_PAIRS:
            add('yield', config, ids, None, sched.interleavings(*[pts[s] + 1 for s in ids]), 20)
    pts.update({sid: count_points('yield', sid, seed) for sid in list(FROM_MENU) + list(TEMPLATE_MENU)})
    for config, ids in TEMPLATE_PAIRS + FROM_PAIRS:
        add('yield', config, ids, None, sched.interleavings(*[pts[s] + 1 for s in ids]), 20)
    pts.update({sid: count_points('yield', sid, seed) for sid in list(ARG_MENU) + list(CURSOR_MENU) + list(TABLE_MENU)})
    pts.update({sid: count_points('yield', sid, seed) for sid in list(ACCT_MENU) + list(DEC_MENU)})
    pts.update({sid: count_points('yield', sid, seed) for sid in PRICE_MENU})
    for config, ids in ARG_PAIRS + CURSOR_PAIRS + TABLE_PAIRS + ACCT_PAIRS + DEC_PAIRS + PRICE_PAIRS:
        add('yield', config, ids, None, sched.interleavings(*[pts[s] + 1 for s in ids]), 600)
    for config in CONFIGS:
        for ids in pairs:
            add('yield', config, ids, None, sched.interleavings(*[pts[s] + 1 for s in ids]), 600)
    subset = set(quick_triples(triples))
    for config in CONFIGS:
        for ids in triples:
            if config == 'separate' and ids not in subset:
                continue
            p = sum(pts[s] for s in ids)
            add('yield', config, ids, 2, 6 * (1 + 2 * p + 2 * p * p), 1500)
    lpts = {}
    if ctx.thorough:
        lpts = {sid: count_points('line', sid, seed) for sid in IDS}
        # 'separate' lies between 'shared' (everything shared) and 'different' (nothing shared, differing data):
        # line granularity is explored in those two
        for config in ('shared', 'different'):
            for ids in pairs:
                add('line', config, ids, 1, 2 + sum(lpts[s] for s in ids), 500)
        for mode, config, ids in LINE2:
            n = [count_points(mode, sid, seed) for sid in ids]
            lpts[f'{mode} {"+".join(ids)}'] = n
            est = 2 * n[0] * n[1] + 2 * (n[0] + n[1])
            add(mode, config, ids, 2, est, 2500, cap=LINE2_CAP)
    return specs, pts, lpts


KEEP_PER_FP = 3
LINE2_CAP = 6000     # executions per sub-shard of a 2-preemption line-granularity item


def shard_fn(shard, nshards, specs):
    acc = Acc()
    for index, spec in enumerate(specs):
        if index % nshards != shard:
            continue
        item = Item(*spec)
        run_item(item, acc)
        acc.count('work_items')
    return acc


# ---------------------------------------------------------------------------------------------

def replay(case):
    try:
        return _replay(case)
    finally:
        restore_parse_points()


def _replay(case):
    """Re-execute one recorded schedule (twice), compare with the serial references."""
    item = Item(case['mode'], case['config'], case['ids'], case.get('bound'), case.get('seed', 0))
    acceptable, alone = item.serial()
    kw = dict(trace_files=item.trace_files)
    print(f'replaying {item.label()}: schedule (thread ids) {case["trace"]}')
    for i, sid in enumerate(item.ids):
        print(f'  thread {i}: {MENU[sid][0]}  params={params_for(sid, i, item.e)!r}\n     serial result: {otext(alone[i])}')
    vs = []
    try:
        outs = [sched.run_schedule(item.world(), case['picks'], record_tags=True, **kw) for _ in range(2)]
        if outs[0].trace != case['trace']:
            raise sched.HarnessError(f'decisions {outs[0].trace} differ from the recorded ones')
    except sched.HarnessError as e:
        print(f'  the recorded schedule no longer fits the program ({e});\n  re-exploring this work item instead')
        acc = Acc()
        run_item(item, acc)
        found = sorted(acc.sets.get('viol', ()))
        for rank, fp, msg, cj in found:
            if fp == case['fingerprint']:
                vs.append(Violation(fp, msg, json.loads(cj)))
                break
        return vs
    if [okey(r) for r in outs[0].results] != [okey(r) for r in outs[1].results] or outs[0].trace != outs[1].trace:
        raise sched.HarnessError('the two replays of the schedule disagree: harness nondeterminism')
    out = outs[0]
    print(f'  schedule: {describe(out)}')
    for i, r in enumerate(out.results):
        print(f'  thread {i} observed: {otext(r)}')
    for fp, what in check_outcome(item, out, acceptable, alone):
        vs.append(Violation(fp, f'config={item.config} threads={list(item.ids)} schedule={out.trace}: {what}', case))
    return vs


def canary(ctx):
    """The explorer and the oracle must flag the deliberately racy harness table when it is shared, and only then."""
    res = {}
    for config in ('shared', 'separate'):
        acc = Acc()
        st = run_item(Item('yield', config, CANARY, None, ctx.seed), acc)
        outs = [len(v) for k, v in acc.sets.items() if isinstance(k, tuple) and k[0] == 'outcomes']
        res[config] = {'schedules': st.schedules, 'violating_schedules': acc.n['violating_schedules'], 'distinct_outcomes': sum(outs)}
    if not res['shared']['violating_schedules'] or res['shared']['distinct_outcomes'] < 2:
        raise sched.HarnessError(f'canary: the race on a shared harness table was not detected: {res}')
    if res['separate']['violating_schedules']:
        raise sched.HarnessError(f'canary: a violation was flagged although nothing is shared: {res}')
    return res


def free_running_smoke(ctx, rounds=3):
    """Unscheduled real threads released together (point() is a no-op for them).  Decides nothing: with
    the GIL's 5 ms switch interval a sub-millisecond query is almost never preempted, which is exactly why the
    controlled scheduler is needed.  Reported only as a count."""
    import threading
    runs = deviations = 0
    for config in CONFIGS:
        for ids in itertools.combinations_with_replacement(IDS, 2):
            item = Item('yield', config, ids, None, ctx.seed)
            acceptable, _ = item.serial()
            for _ in range(rounds):
                bodies = item.world()
                res = [None] * len(bodies)
                gate = threading.Barrier(len(bodies))

                def work(i):
                    gate.wait(10)
                    try:
                        res[i] = bodies[i]()
                    except Exception as exc:
                        res[i] = sched.Exc(exc)
                ths = [threading.Thread(target=work, args=(i,), daemon=True) for i in range(len(bodies))]
                for t in ths:
                    t.start()
                for t in ths:
                    t.join(30)
                    if t.is_alive():
                        raise sched.HarnessError('free-running smoke thread did not finish')
                runs += 1
                deviations += any(okey(r) not in acceptable[i] for i, r in enumerate(res))
    return {'runs': runs, 'runs_deviating_from_serial': deviations}


def run(ctx):
    try:
        return _run(ctx)
    except ThreadOnlyFailure as e:
        r = e.out.results[0]
        fp = f'thread-only-failure:{type(r.exc).__name__ if hasattr(r, "exc") else "error"}'
        what = (f'statement {e.sid} ({MENU[e.sid][0]!r}) executed alone in a worker thread gives {r!r} although the main thread executes it without error '
                '(an application-level SIGINT handler is installed, as in servers embedding the library)')
        cov = {'states': 1, 'transitions': e.out.npoints, 'traces_validated_against_impl': 1, 'evaluations': 1, 'distinct_nontrivial': 2, 'exhaustive': False,
               'rule': 'the exploration stopped at the planning stage: a menu statement fails in every worker thread', 'samples': []}
        return Result(cov, [Violation(fp, what, e.item.case(e.out, fp))], assumptions=[])
    finally:
        restore_parse_points()


def _run(ctx):
    import threading
    import time
    t0 = time.time()
    facts = sched.selftest()
    # the canary statements run on the real library too: when the library itself is broken for every threaded execution
    # the canary cannot tell its race apart from that failure.  Its verdict is then postponed: the exploration below
    # reports the library's violations; only if it reports none is the canary's failure a harness error.
    canary_error = None
    try:
        canary_result = canary(ctx)
    except sched.HarnessError as e:
        canary_error, canary_result = e, {'inconclusive': str(e)}
    t1 = time.time()
    env(ctx.seed)
    specs, pts, lpts = plan(ctx)
    t2 = time.time()
    if threading.active_count() != 1:
        raise sched.HarnessError('threads alive before forking the workers')
    total = run_shards(shard_fn, ctx.jobs, specs, nshards=max(1, len(specs)))     # one work item per pool task, in plan order
    t3 = time.time()

    smoke = free_running_smoke(ctx)
    phases = {'explorer_selftest_and_canary': round(t1 - t0, 1), 'parse_and_plan': round(t2 - t1, 1), 'exploration': round(t3 - t2, 1),
              'free_running_smoke': round(time.time() - t3, 1)}

    violations = []
    best = {}
    for rank, fp, msg, cj in sorted(total.sets.get('viol', ())):
        best.setdefault(fp, []).append((msg, cj))
    for fp, lst in best.items():
        n = total.n.get('violating|' + fp, 0)
        for msg, cj in lst[:1]:
            violations.append(Violation(fp, f'{msg}  [{n} violating schedule(s) in this run; the reported one is the simplest and reproduced twice from fresh state]', json.loads(cj)))

    if canary_error is not None and not violations:
        raise canary_error

    per_config = {}
    outcome_sets = {k: v for k, v in total.sets.items() if isinstance(k, tuple) and k[0] == 'outcomes'}
    modes = sorted({k[1] for k in outcome_sets}, key=lambda m: (m != 'yield', m))
    for mode in modes:
        for config in CONFIGS_ALL:
            for n in (2, 3):
                pre = f'{mode}|{config}|{n}'
                if not total.n.get('sched|' + pre):
                    continue
                outs = {k: len(v) for k, v in outcome_sets.items() if k[1] == mode and k[2] == config and len(k[3]) == n}
                per_config[f'{mode}/{config}/{n}threads'] = {
                    'tuples': len(total.sets['items|' + pre]),
                    'schedules': total.n['sched|' + pre],
                    'distinct_outcomes_total': sum(outs.values()),
                    'tuples_with_more_than_one_outcome': sorted('+'.join(k[3]) + f'/p{k[4]}' for k, v in outs.items() if v > 1),
                }
    capped = sorted(total.sets.get('capped', ()))
    horizon = sorted(total.sets.get('horizon', ()))
    exhaustive = not capped and not horizon
    nsched = total.n['schedules']
    samples = []
    for rank, fp, msg, cj in sorted(total.sets.get('viol', ()))[:3]:
        samples.append({'fingerprint': fp, 'schedule': json.loads(cj)['trace'], 'threads': json.loads(cj)['ids']})
    samples.append({'menu': {k: v[0] for k, v in MENU.items()}})
    cov = {
        'states': nsched,
        'transitions': total.n['decisions'],
        'traces_validated_against_impl': nsched + total.n['confirm_replays'],
        'evaluations': total.n['evaluations'],
        'distinct_nontrivial': total.n['preempting'],
        'rule': 'a case is one complete schedule (sequence of scheduling decisions) of one (points, configuration, statement '
                'tuple) work item, executed on real threads; every thread observation (rows + description or exception) is '
                'compared with the serial references; distinct = distinct choice sequences (each interleaving is executed '
                'exactly once); non-trivial = schedules with at least one preemption (a thread is switched out at a point '
                'although it could continue)',
        'exhaustive': exhaustive,
        'bound': ('2 threads: ALL interleavings of the vy()/table-row points for all %d statement pairs x 3 configurations; '
                  '3 threads: all schedules with <= 2 preemptions for %d triples (shared and different configurations; the quick '
                  'subset in the separate configuration); text statements: all interleavings of %s incl. parse points; FROM-qualified and BALANCES/JOURNAL pairs: %s'
                  % (len(total.sets['items|yield|shared|2']), len(total.sets['items|yield|shared|3']), TEXT_PAIRS + PARSE_PAIRS,
                     [f'{c}:{"+".join(i)}' for c, i in FROM_PAIRS + TEMPLATE_PAIRS + ARG_PAIRS + CURSOR_PAIRS + TABLE_PAIRS + ACCT_PAIRS + DEC_PAIRS + PRICE_PAIRS]))
                 + ('; line granularity (sys.settrace, a point before every line of beanquery/*.py): all schedules with <= 1 '
                    'preemption for all pairs in the shared and different configurations; <= 2 preemptions with line points restricted to the modules '
                    'holding the shared state for %s (at most %d executions per sub-shard)'
                    % ([f'{m} {c} {"+".join(i)}' for m, c, i in LINE2], LINE2_CAP) if ctx.thorough else ''),
        'caps_hit': [f'{label} sub-shard {s}: {u} prefixes unexplored' for label, s, u in capped][:40],
        'caps_hit_count': len(capped),
        'horizon_hit': horizon,
        'work_items': total.n['work_items'],
        'scheduling_points_executed': total.n['points'],
        'schedules_with_preemption': total.n['preempting'],
        'alternatives_pruned_by_preemption_bound': total.n['pruned_by_bound'],
        'max_points_in_one_execution': max(total.sets.get('maxpoints', {0})),
        'max_points_by_granularity': {m: max(total.sets.get('maxpoints|' + m, {0})) for m in modes},
        'points_per_statement_alone': pts,
        'line_points_per_statement_alone': lpts,
        'per_configuration': per_config,
        'violating_schedules': total.n['violating_schedules'],
        'violating_schedules_by_fingerprint': {k.split('|', 1)[1]: v for k, v in total.n.items() if k.startswith('violating|')},
        'confirm_replays': total.n['confirm_replays'],
        'deadlocks': total.n['deadlocks'],
        'post_phase_serial_reruns_compared': total.n['post_checks'],
        'history_dependent_tuples': sorted('%s:%s' % (c, '+'.join(i)) for c, i in total.sets.get('history_dependent', ())),
        'free_running_smoke_test_decides_nothing': smoke,
        'phase_wall_s': phases,
        'non_vacuity_canary': canary_result,
        'explorer_selftest': {k: list(v) if isinstance(v, tuple) else v for k, v in facts.items()},
        'configurations': CONFIGS_ALL,
        'samples': samples,
    }
    return Result(cov, violations, assumptions=[
        'a thread may observe any result it obtains in some serial order of the same executions (weakest reading of "the same '
        'results as when executed one after another"); for history-independent statements this is the result of running alone',
        'preemption inside one source line (quick tier: between two harness points) and CPython-internal races are not modelled',
        'each execution starts from fresh connections; statements with placeholders start from a fresh copy of the parsed AST '
        'shared by the threads of that execution; process-wide state of beanquery (registries, caches) is carried over',
        'a result row is compared by (type, value) per cell, inventories by their positions; description by (name, datatype)',
    ])
