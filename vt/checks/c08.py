"""C08 -- Subqueries compose: FROM (subquery) / IN (subquery) equal their materialised forms.

Technique: bounded-exhaustive exploration (E-enum) over a menu of inner queries x a menu of outer
queries generated from the inner query's output columns, nested to depth 2 and 3, on harness tables.

Oracle A (the differential the property states): run the inner query on the real implementation,
  register a harness table holding its result rows under its output names and datatypes, run the outer
  query over that table; rows AND description (names, datatypes) must equal those of the nested
  statement.  `SELECT * FROM (q)` must return q's rows and description unchanged.
Oracle B: the whole nested statement is also evaluated by the reference interpreter vt.ref.select.
IN / NOT IN (subquery), in targets (before / after other targets) and in WHERE, with the subquery
  reading the outer table, another table, an empty table, a table with NULLs, and nested inside
  another subquery: reference = membership in the single output column, NULL when x is NULL or the
  subquery returns no row.
Text sweep: inner queries with expression-named and duplicate-named outputs (names depend on the
  source text, so these statements are parsed).
"""
import datetime
import decimal
import itertools

import beanquery
from beanquery.parser import ast

from ..harness import HTable, connect, select, F, C, col, crash_fingerprint, typed
from ..par import Acc, run_shards, mine
from ..ref import select as refselect
from ..ref.expr import RefError
from ..runner import Result, jsonable

LEVEL = 'model_checking'
A = ast
ASC, DESC = A.Ordering.ASC, A.Ordering.DESC


def variants(L):
    """Data variants of table t: the fixed 6-row table (None) + ALL row sequences of length <= L over the
    9-letter alphabet {k in NULL,a,b} x {v in NULL,v1,v2}."""
    out = [None]
    for n in range(0, L + 1):
        out += list(itertools.product(range(9), repeat=n))
    return out


def base_tables(seed, variant=None):
    a, b = [(1, 2), (2, 7), (5, 12)][seed % 3]
    t = [(0, 'a', a), (1, 'b', b), (2, None, None), (3, 'a', b), (4, 'b', a), (5, 'a', None)]
    if variant is not None:
        alpha = list(itertools.product([None, 'a', 'b'], [None, a, b]))
        t = [(i,) + alpha[x] for i, x in enumerate(variant)]
    u = [(a, 'a'), (None, 'y'), (a, 'a'), (9, None)]
    return {
        't': ([('id', int), ('k', str), ('v', int)], t),
        'u': ([('j', int), ('s', str)], u),
        'e': ([('j', int), ('s', str)], []),
    }


def make_conn(tabs, extra=None):
    hts = {n: HTable(cols, rows, name=n) for n, (cols, rows) in tabs.items()}
    if extra:
        hts.update(extra)
    return connect(postings=hts['t'], **hts)


def reftabs(tabs):
    return {n: ([c for c, _ in cols], rows, dict(cols)) for n, (cols, rows) in tabs.items()}


def inner_menu():
    id_, k, v, j, s = col('id'), col('k'), col('v'), col('j'), col('s')
    cnt = F('count', A.Asterisk())
    m = [
        ('plain3', select([(id_, None), (k, None), (v, None)], from_='t')),
        ('plain2', select([(k, None), (v, None)], from_='t')),
        ('two-ints', select([(id_, 'a'), (A.Sub(C(9), v), 'b')], from_='t')),
        ('two-strs', select([(k, 'a'), (F('str', v), 'b')], from_='t')),
        ('plain1', select([(v, None)], from_='t')),
        ('aliased', select([(v, 'a'), (k, 'b')], from_='t')),
        ('star', select(A.Asterisk(), from_='t')),
        ('filter-int', select([(id_, None), (v, None)], from_='t', where=A.Greater(v, C(1)))),
        ('filter-null', select([(id_, None), (k, None)], from_='t', where=A.IsNull(k))),
        ('filter-false', select([(id_, None), (k, None), (v, None)], from_='t', where=A.Equal(C(1), C(2)))),
        ('exprs', select([(A.Add(v, C(1)), 'a'), (F('upper', k), 'b'), (id_, None)], from_='t')),
        ('agg', select([(k, None), (F('sum', v), 's'), (cnt, 'c')], from_='t', group_by=A.GroupBy([k], None))),
        ('agg-hidden-key', select([(F('sum', v), 's'), (cnt, 'c')], from_='t', group_by=A.GroupBy([k], None))),
        ('agg-having', select([(k, None), (cnt, 'c')], from_='t', group_by=A.GroupBy([k], A.Greater(cnt, C(1))))),
        ('agg-total', select([(cnt, 'c'), (F('max', v), 'mx')], from_='t')),
        ('order-hidden', select([(k, None)], from_='t', order_by=[A.OrderBy(v, DESC), A.OrderBy(id_, ASC)])),
        ('order-hidden-expr', select([(id_, None), (k, None)], from_='t', order_by=[A.OrderBy(A.Neg(v), ASC), A.OrderBy(id_, DESC)])),
        ('order-visible', select([(v, None), (id_, None)], from_='t', order_by=[A.OrderBy(1, DESC), A.OrderBy(2, ASC)])),
        ('distinct', select([(k, None)], from_='t', distinct=True)),
        ('distinct2', select([(k, None), (v, None)], from_='t', distinct=True)),
        ('limit', select([(id_, None), (v, None)], from_='t', limit=2)),
        ('order-limit', select([(id_, None), (v, None)], from_='t', order_by=[A.OrderBy(v, DESC), A.OrderBy(id_, ASC)], limit=3)),
        ('limit0', select([(id_, None), (v, None)], from_='t', limit=0)),
        ('other-table', select([(j, None), (s, None)], from_='u')),
        ('other-table-distinct', select([(j, 'jj')], from_='u', distinct=True)),
        ('empty-table', select([(j, None), (s, None)], from_='e')),
        ('agg-empty', select([(s, None), (cnt, 'c')], from_='e', group_by=A.GroupBy([s], None))),
        ('bool-col', select([(id_, None), (A.Greater(v, C(1)), 'big')], from_='t')),
        ('in-subq-col', select([(id_, None), (A.In(v, select([(j, None)], from_='u')), 'm')], from_='t')),
        ('where-in-subq', select([(id_, None), (v, None)], from_='t', where=A.In(v, select([(j, None)], from_='u')))),
    ]
    return m


def outer_menu(names, types):
    """Outer statements over the inner query's output columns (generic in names/types)."""
    cols = [col(n) for n in names]
    out = [('star', lambda sub: select(A.Asterisk(), from_=sub))]
    out.append(('all-reversed', lambda sub: select([(c, None) for c in reversed(cols)], from_=sub)))
    for n, t in zip(names, types):
        c = col(n)
        out.append((f'col', lambda sub, c=c: select([(c, None)], from_=sub)))
        out.append((f'col-alias', lambda sub, c=c: select([(c, 'z')], from_=sub)))
        out.append((f'where-notnull', lambda sub, c=c: select([(x, None) for x in cols], from_=sub, where=A.IsNotNull(c))))
        out.append((f'order-desc', lambda sub, c=c: select([(x, None) for x in cols], from_=sub, order_by=[A.OrderBy(c, DESC)]) if t is not bool else None))
        out.append((f'distinct', lambda sub, c=c: select([(c, None)], from_=sub, distinct=True)))
        out.append((f'group-count', lambda sub, c=c: select([(c, None), (F('count', A.Asterisk()), 'n')], from_=sub, group_by=A.GroupBy([c], None))))
        out.append((f'count-col', lambda sub, c=c: select([(F('count', c), 'n'), (F('count', A.Asterisk()), 'm')], from_=sub)))
        if t is int:
            out.append(('int-expr', lambda sub, c=c: select([(A.Add(c, C(1)), 'p'), (A.Neg(c), 'q')], from_=sub)))
            out.append(('int-where', lambda sub, c=c: select([(x, None) for x in cols], from_=sub, where=A.Greater(c, C(1)))))
            out.append(('int-sum', lambda sub, c=c: select([(F('sum', c), 's'), (F('min', c), 'mn'), (F('last', c), 'la')], from_=sub)))
        if t is str:
            out.append(('str-expr', lambda sub, c=c: select([(F('upper', c), 'p'), (F('length', c), 'q')], from_=sub)))
            out.append(('str-where', lambda sub, c=c: select([(x, None) for x in cols], from_=sub, where=A.Match(c, C('a')))))
    # keys on one inner column while another one is selected (hidden ORDER BY / GROUP BY keys)
    for (n1, t1), (n2, t2) in itertools.permutations(list(zip(names, types)), 2):
        c1, c2 = col(n1), col(n2)
        if t2 is not bool:
            out.append(('hidden-order', lambda sub, c1=c1, c2=c2: select([(c1, None)], from_=sub, order_by=[A.OrderBy(c2, DESC)])))
        out.append(('hidden-group', lambda sub, c1=c1, c2=c2: select([(c1, None), (F('count', A.Asterisk()), 'n')], from_=sub, group_by=A.GroupBy([c1, c2], None))))
        if t1 is int and t2 is int:
            out.append(('hidden-order-expr', lambda sub, c1=c1, c2=c2: select([(A.Add(c1, C(1)), 'p')], from_=sub, order_by=[A.OrderBy(A.Add(c2, C(1)), ASC)])))
            out.append(('hidden-group-expr', lambda sub, c1=c1, c2=c2: select([(A.Neg(c1), 'p'), (F('count', A.Asterisk()), 'n')], from_=sub, group_by=A.GroupBy([col('p'), A.Neg(c2)], None))))
    out.append(('limit1', lambda sub: select([(c, None) for c in cols], from_=sub, limit=1)))
    out.append(('order-pos', lambda sub: select([(c, None) for c in cols], from_=sub, order_by=[A.OrderBy(1, DESC)]) if types[0] is not bool else None))
    return out


def show(node):
    try:
        from ..unparse import unparse
        return unparse(node)
    except Exception:
        return repr(node)


def desc_of(cur):
    return [(d.name, d.datatype) for d in cur.description]


def check_nested(conn, tabs, iname, inner, oname, mk, acc, depth, case):
    stmt = mk(inner)
    if stmt is None:
        return
    acc.count('executions')
    acc.count(f'depth{depth}')
    # oracle A: materialised form
    try:
        icur = conn.execute(inner)
        irows = icur.fetchall()
        idesc = desc_of(icur)
    except Exception as e:
        acc.violation(f'crash:{crash_fingerprint(e)}', f'inner {show(inner)} raised {type(e).__name__}: {e}', case)
        return
    if len({n for n, _ in idesc}) != len(idesc):
        return    # duplicate names: not addressable by name, handled by the text sweep
    mat = HTable(idesc, irows, name='mat')
    conn2 = make_conn(tabs, extra={'mat': mat})
    try:
        mcur = conn2.execute(mk('mat'))
        mrows, mdesc = mcur.fetchall(), desc_of(mcur)
    except Exception as e:
        acc.count('materialised_form_rejected')
        mrows = mdesc = None
        mexc = e
    try:
        cur = conn.execute(stmt)
        rows, desc = cur.fetchall(), desc_of(cur)
    except Exception as e:
        if mrows is None and type(e) is type(mexc):
            acc.count('both_rejected')
            return
        acc.violation(f'crash:{crash_fingerprint(e)}', f'{show(stmt)} raised {type(e).__name__}: {e} (materialised form: {"ok" if mrows is not None else repr(mexc)})', case)
        return
    if mrows is None:
        acc.violation(f'nested-accepted:{oname}', f'{show(stmt)} is accepted but the same outer query over the materialised inner result raises {mexc!r}', case)
        return
    if [tuple(map(typed, r)) for r in rows] != [tuple(map(typed, r)) for r in mrows]:
        acc.violation(f'rows:{oname}|{iname}', f'{show(stmt)}: got {rows!r}; over the materialised inner result {irows!r}: {mrows!r}', case)
        return
    if desc != mdesc:
        acc.violation(f'description:{oname}', f'{show(stmt)}: description {desc!r}, materialised form {mdesc!r}', case)
        return
    if oname == 'star' and (desc != idesc or [tuple(map(typed, r)) for r in rows] != [tuple(map(typed, r)) for r in irows]):
        acc.violation('star-identity', f'SELECT * FROM ({show(inner)}): rows/description differ from the inner query', case)
        return
    acc.count('rows_compared', len(rows))
    # oracle B: reference interpreter on the whole nested statement
    try:
        _, exp, _ = refselect.execute(stmt, [], [], None, tables=reftabs(tabs))
        acc.count('ref_compared')
        if [tuple(map(typed, r)) for r in rows] != [tuple(map(typed, r)) for r in exp]:
            acc.violation(f'ref-rows:{oname}|{iname}', f'{show(stmt)}: got {rows!r}, reference {exp!r}', case)
            return
    except RefError:
        acc.count('ref_unsupported')
    acc.add('outcomes', repr(rows)[:60])
    if not rows:
        acc.count('empty_results')


def wrappers():
    """Depth-3 constructions: wrap an inner query once more before handing it to the outer menu."""
    return [
        ('wrap-star', lambda inner, names, types: select(A.Asterisk(), from_=inner)),
        ('wrap-cols', lambda inner, names, types: select([(col(n), None) for n in names], from_=inner)),
        ('wrap-filter', lambda inner, names, types: select([(col(n), None) for n in names], from_=inner, where=A.IsNotNull(col(names[0])))),
        ('wrap-limit', lambda inner, names, types: select([(col(n), None) for n in reversed(names)], from_=inner, limit=2)),
        # `*` at two nesting levels over sub-queries of DIFFERENT shape (reversed column order / first column only)
        ('wrap-star-reversed', lambda inner, names, types: select([(col(n), None) for n in reversed(names)], from_=select(A.Asterisk(), from_=inner))),
        # a DISTINCT wrapper that merely forwards the inner columns (its de-duplication must survive)
        ('wrap-distinct-star', lambda inner, names, types: select(A.Asterisk(), from_=select(A.Asterisk(), from_=inner), distinct=True)),
        ('wrap-distinct-cols', lambda inner, names, types: select([(col(n), None) for n in names], from_=select([(col(n), None) for n in names], from_=inner), distinct=True)),
        ('wrap-star-first', lambda inner, names, types: select([(col(names[0]), None)], from_=select(A.Asterisk(), from_=inner))),
    ]


def jobs(seed):
    tabs = base_tables(seed)
    conn = make_conn(tabs)
    out = []
    for iname, inner in inner_menu():
        try:
            cur = conn.execute(inner)
        except Exception:
            out.append((2, iname, None, -1))      # reported by run_job
            continue
        d = desc_of(cur)
        names, types = [n for n, _ in d], [t for _, t in d]
        for oi, (oname, mk) in enumerate(outer_menu(names, types)):
            out.append((2, iname, None, oi))
        for wi, (wname, wrap) in enumerate(wrappers()):
            for oi, (oname, mk) in enumerate(outer_menu(*wrapped_shape(wname, names, types))):
                out.append((3, iname, wi, oi))
    return out


def wrapped_shape(wname, names, types):
    """Column names and types of the wrapper's result, from those of the wrapped query."""
    if wname in ('wrap-limit', 'wrap-star-reversed'):
        return list(reversed(names)), list(reversed(types))
    if wname == 'wrap-star-first':
        return names[:1], types[:1]
    return names, types


def run_job(job, seed, acc, variant=None):
    depth, iname, wi, oi = job
    tabs = base_tables(seed, variant)
    conn = make_conn(tabs)
    inner = dict(inner_menu())[iname]
    try:
        cur = conn.execute(inner)
    except Exception as e:
        acc.count('executions')
        acc.violation(f'crash:{crash_fingerprint(e)}', f'inner query {show(inner)} raised {type(e).__name__}: {e}',
                      {'kind': 'nested', 'job': list(job), 'seed': seed, 'variant': list(variant) if variant is not None else None})
        return
    d = desc_of(cur)
    names, types = [n for n, _ in d], [t for _, t in d]
    if wi is not None:
        wname, wrap = wrappers()[wi]
        names2, types2 = wrapped_shape(wname, names, types)
        inner = wrap(inner, names, types)
        names, types = names2, types2
        iname = f'{wname}({iname})'
    oname, mk = outer_menu(names, types)[oi]
    check_nested(conn, tabs, iname, inner, oname, mk, acc, depth, {'kind': 'nested', 'job': list(job), 'seed': seed, 'variant': list(variant) if variant is not None else None})


# ---- IN (subquery) ------------------------------------------------------------------------

def in_statements():
    id_, k, v, j, s = col('id'), col('k'), col('v'), col('j'), col('s')
    subs = {
        'same-table': select([(v, None)], from_='t', where=A.Greater(id_, C(2))),
        'same-table-nofrom': select([(v, None)], where=A.Greater(id_, C(2))),
        'other-table': select([(j, None)], from_='u'),
        'other-table-distinct': select([(j, None)], from_='u', distinct=True),
        'empty-table': select([(j, None)], from_='e'),
        'empty-by-where': select([(j, None)], from_='u', where=A.Equal(C(1), C(2))),
        'all-null-rows': select([(j, None)], from_='u', where=A.IsNull(j)),          # rows, but only NULL values: not "no row"
        'all-null-expr': select([(A.Add(j, C(None)) if False else F('int', s), 'n')], from_='u'),   # int('a') is NULL for every row
        # LIMIT cuts the sub-query's own rows (duplicates included): the membership list is exactly its output column
        'limit-over-duplicates': select([(v, None)], from_='t', order_by=[A.OrderBy(v, ASC), A.OrderBy(id_, ASC)], limit=3),
        'limit-desc': select([(v, None)], from_='t', order_by=[A.OrderBy(k, DESC), A.OrderBy(id_, ASC)], limit=2),
        'limit-no-order': select([(v, None)], from_='t', limit=2),
        'null-and-values': select([(j, None)], from_='u', where=A.Or([A.IsNull(j), A.Greater(j, C(0))])),
        'agg': select([(F('max', j), 'm')], from_='u'),
        'from-subquery': select([(col('jj'), None)], from_=select([(j, 'jj')], from_='u', where=A.IsNotNull(j))),
        'nested-in': select([(v, None)], from_='t', where=A.In(v, select([(j, None)], from_='u'))),
        'str': select([(s, None)], from_='u'),
    }
    # left operands of other types than the usual int / str: membership needs no comparison operator for the type
    lefts = {
        'bool': (A.Greater(v, C(1)), select([(A.Greater(j, C(1)), 'b')], from_='u')),
        'bool-col-expr': (A.IsNull(k), select([(A.IsNull(s), 'b')], from_='u')),
        'decimal-in-int': (A.Mul(v, C(decimal.Decimal('1.0'))), select([(j, None)], from_='u')),
        'str-in-int': (k, select([(j, None)], from_='u')),
        'int-in-str': (v, select([(s, None)], from_='u')),
        'null-literal': (C(None), select([(j, None)], from_='u')),
        # the left operand itself contains a membership test (over a list, over another sub-query)
        'left-in-list': (A.In(k, C(['a', 'Ab'])), select([(A.Greater(j, C(1)), 'b')], from_='u')),
        'left-in-subquery': (A.In(v, select([(j, None)], from_='u')), select([(A.IsNull(s), 'b')], from_='u')),
        'left-notin-subquery': (A.NotIn(v, select([(j, None)], from_='u', where=A.IsNotNull(j))), select([(A.Greater(j, C(1)), 'b')], from_='u')),
        'date': (F('date_add', C(datetime.date(2020, 1, 1)), v), select([(F('date_add', C(datetime.date(2020, 1, 1)), j), 'd')], from_='u')),
    }
    out = []
    for sn, sub in list(subs.items()) + [(n, sb) for n, (_, sb) in lefts.items()]:
        x = lefts[sn][0] if sn in lefts else (k if sn == 'str' else v)
        for op in (A.In, A.NotIn):
            out.append((f'{sn}|{op.__name__}|target-last', select([(id_, None), (x, 'x'), (op(x, sub), 'm')], from_='t')))
            out.append((f'{sn}|{op.__name__}|target-first', select([(op(x, sub), 'm'), (id_, None), (k, None)], from_='t')))
            out.append((f'{sn}|{op.__name__}|target-middle', select([(id_, None), (op(x, sub), 'm'), (k, None), (v, None)], from_='t')))
            out.append((f'{sn}|{op.__name__}|where', select([(id_, None), (k, None)], from_='t', where=op(x, sub))))
            out.append((f'{sn}|{op.__name__}|where-and', select([(id_, None), (v, None)], from_='t', where=A.And([A.IsNotNull(k), op(x, sub)]))))
            out.append((f'{sn}|{op.__name__}|two-subqueries', select([(id_, None), (op(x, sub), 'm'), (A.In(id_, select([(j, None)], from_='u')), 'n'), (v, None)], from_='t')))
            out.append((f'{sn}|{op.__name__}|agg-where', select([(k, None), (F('count', A.Asterisk()), 'n')], from_='t', where=op(x, sub), group_by=A.GroupBy([k], None))))
    # a sub-SELECT WITHOUT a FROM clause reads the enclosing query's table: here that table is itself a FROM sub-query, which
    # is then scanned by the outer query and, overlapping, by the IN sub-query
    inner_t = select([(id_, 'a'), (v, 'b')], from_='t')
    nofrom = select([(col('a'), None)], where=A.Greater(col('a'), C(1)))
    nofrom_b = select([(col('b'), None)], where=A.IsNotNull(col('b')))
    for op in (A.In, A.NotIn):
        out.append((f'nofrom-over-subquery|{op.__name__}|where', select([(col('a'), None), (col('b'), None)], from_=inner_t, where=op(col('a'), nofrom))))
        out.append((f'nofrom-over-subquery|{op.__name__}|target-last', select([(col('a'), None), (op(col('b'), nofrom_b), 'm')], from_=inner_t)))
        out.append((f'nofrom-over-subquery|{op.__name__}|agg-where', select([(F('count', A.Asterisk()), 'n')], from_=inner_t, where=op(col('a'), nofrom))))
    # the enclosing query reads another table than the sub-query, which itself nests an IN sub-query
    nested = select([(v, None)], from_='t', where=A.In(v, select([(j, None)], from_='u')))
    nested2 = select([(v, None)], from_='t', where=A.In(id_, select([(id_, None)], from_='t', where=A.In(v, select([(j, None)], from_='u')))))
    for nn, sub in (('nested', nested), ('nested2', nested2)):
        for op in (A.In, A.NotIn):
            out.append((f'outer-u-{nn}|{op.__name__}|where', select([(j, None), (s, None)], from_='u', where=op(j, sub))))
            out.append((f'outer-u-{nn}|{op.__name__}|target-first', select([(op(j, sub), 'm'), (j, None), (s, None)], from_='u')))
            out.append((f'outer-u-{nn}|{op.__name__}|target-middle', select([(j, None), (op(j, sub), 'm'), (s, None)], from_='u', order_by=[A.OrderBy(j, DESC)])))
            out.append((f'outer-subq-{nn}|{op.__name__}|where', select([(col('jj'), None)], from_=select([(j, 'jj'), (s, 'ss')], from_='u'), where=op(col('jj'), sub))))
            out.append((f'outer-subq-{nn}|{op.__name__}|target-first', select([(op(col('jj'), sub), 'm'), (col('ss'), None)], from_=select([(j, 'jj'), (s, 'ss')], from_='u'))))
    return out


def check_in(tag, stmt, seed, acc, variant=None):
    tabs = base_tables(seed, variant)
    conn = make_conn(tabs)
    acc.count('executions')
    acc.count('in_statements')
    case = {'kind': 'in', 'tag': tag, 'seed': seed, 'variant': list(variant) if variant is not None else None}
    try:
        _, exp, _ = refselect.execute(stmt, [], [], None, tables=reftabs(tabs))
    except RefError:
        acc.count('ref_unsupported')
        return
    try:
        rows = conn.execute(stmt).fetchall()
    except Exception as e:
        acc.violation(f'crash:{crash_fingerprint(e)}', f'{show(stmt)} raised {type(e).__name__}: {e}', case)
        return
    acc.count('rows_compared', len(rows))
    if [tuple(map(typed, r)) for r in rows] != [tuple(map(typed, r)) for r in exp]:
        sn, op, place = tag.split('|')
        acc.violation(f'in:{place}|{sn}', f'{show(stmt)}: got {rows!r}, reference {exp!r}', case)
        return
    acc.count('in_null_cells', sum(1 for r in exp for x in r if x is None))
    acc.add('outcomes', repr(rows)[:60])
    # ONE cursor executing the same statement again after the data changed (rows of t reversed and cut, u emptied): the
    # sub-query is evaluated on the data as it is at each execution
    try:
        cur = conn.cursor()
        first = cur.execute(stmt).fetchall()
        tabs2 = {n: (cols, list(rows_)) for n, (cols, rows_) in tabs.items()}
        tabs2['t'] = (tabs['t'][0], list(reversed(tabs['t'][1]))[:4])
        tabs2['u'] = (tabs['u'][0], [])
        for n in ('t', 'u'):
            conn.tables[n].rows = tabs2[n][1]
        conn.tables['postings'].rows = tabs2['t'][1]
        second = cur.execute(stmt).fetchall()
        _, exp2, _ = refselect.execute(stmt, [], [], None, tables=reftabs(tabs2))
    except RefError:
        exp2 = second = None
    except Exception as e:
        acc.violation(f'crash:{crash_fingerprint(e)}', f'executing {show(stmt)} twice on one cursor raised {type(e).__name__}: {e}', case)
        return
    finally:
        for n in ('t', 'u'):
            conn.tables[n].rows = tabs[n][1]
        conn.tables['postings'].rows = tabs['t'][1]
    if exp2 is not None:
        acc.count('executions', 2)
        if [tuple(map(typed, x)) for x in first] != [tuple(map(typed, x)) for x in exp] or \
           [tuple(map(typed, x)) for x in second] != [tuple(map(typed, x)) for x in exp2]:
            acc.violation('same-cursor-re-execution-after-data-change', f'{show(stmt)} executed twice on one cursor, the data changed in between: second result {second!r}, reference on the new data {exp2!r}', case)
            return
    # one compiled statement executed twice: a sub-query's rows are produced anew by every execution
    try:
        from beanquery import query_execute
        compiled = conn.compile(stmt)
        again = [query_execute.execute_query(compiled)[1] for _ in range(2)]
    except Exception as e:
        acc.violation(f'crash:{crash_fingerprint(e)}', f'compiling {show(stmt)} once and executing it twice raised {type(e).__name__}: {e}', case)
        return
    acc.count('executions', 2)
    for i, r in enumerate(again):
        if [tuple(map(typed, x)) for x in r] != [tuple(map(typed, x)) for x in exp]:
            acc.violation('compiled-statement-re-execution', f'{show(stmt)} compiled once: execution {i + 1} gives {r!r}, reference {exp!r}', case)
            return


# ---- text sweep: expression-named and duplicate-named inner outputs -----------------------

TEXTS = [
    ('expr-name', 'SELECT v + 1, upper(k) FROM #t', None),
    ('expr-name-agg', 'SELECT k, sum(v), count(*) FROM #t GROUP BY k', None),
    ('expr-name-spaces', 'SELECT  v  *  2 , k FROM #t WHERE v IS NOT NULL', None),
    # names that are the source text of an expression keep their letter case, quotes and blanks
    ('expr-name-upper', 'SELECT k, SUM(v), Count(*) FROM #t GROUP BY k', None),
    ('expr-name-string', "SELECT k = 'Ab', v + 1, UPPER(k) FROM #t", None),
    ('expr-name-constants', "SELECT 'Tag', 42, k, 2020-01-02, TRUE FROM #t", None),
    ('expr-name-nested-star', 'SELECT * FROM (SELECT v + 1, UPPER(k), id FROM #t)', None),
    # structured and collection datatypes coming out of a sub-query on a Beancount-backed connection
    ('ledger-inventory', 'SELECT account, sum(position), units(sum(position)), cost(sum(position)), count(*) FROM #postings GROUP BY account', 'ledger'),
    ('ledger-row-types', 'SELECT date, balance, position, units(position), weight, meta, tags, links, other_accounts, number FROM #postings', 'ledger'),
    ('ledger-entries', 'SELECT id, type, meta, tags, links, date FROM #entries', 'ledger'),
    ('ledger-attributes', 'SELECT account, open.date, close.date, open.meta FROM #accounts', 'ledger'),
    ('ledger-star-entries', 'SELECT * FROM #entries', 'ledger'),
    ('ledger-star-postings', 'SELECT * FROM #postings WHERE number > 0', 'ledger'),
    ('dup-names', 'SELECT id AS a, k AS a FROM #t', 'duplicate'),
    ('dup-columns', 'SELECT v, v FROM #t', 'duplicate'),
    ('dup-three', 'SELECT id AS a, k AS b, v AS a FROM #t', 'duplicate'),
]


def check_text(tag, text, kind, seed, acc):
    if kind == 'ledger':
        from .. import sample_ledger
        conn = sample_ledger.connect()
    else:
        conn = make_conn(base_tables(seed))
    case = {'kind': 'text', 'tag': tag, 'seed': seed}
    acc.count('executions')
    acc.count('text_statements')
    try:
        icur = conn.execute(text)
        irows, idesc = icur.fetchall(), desc_of(icur)
        cur = conn.execute(f'SELECT * FROM ({text})')
        rows, desc = cur.fetchall(), desc_of(cur)
    except Exception as e:
        acc.violation(f'crash:{crash_fingerprint(e)}', f'SELECT * FROM ({text}) raised {type(e).__name__}: {e}', case)
        return
    if desc != idesc or [tuple(map(typed, r)) for r in rows] != [tuple(map(typed, r)) for r in irows]:
        fp = 'star-identity:duplicate-names' if kind == 'duplicate' else 'star-identity:expression-names'
        acc.violation(fp, f'SELECT * FROM ({text}): description {desc!r} rows {rows[:3]!r}; the inner query gives description {idesc!r} rows {irows[:3]!r}', case)
        return
    acc.count('rows_compared', len(rows))


# ---- sub-queries on a Beancount-backed connection: the enclosing query's OPEN / CLOSE / CLEAR must not leak -----------

def ledger_statements():
    import datetime
    acc, num, date_ = col('account'), col('number'), col('date')
    subs = {
        'from-filter': select([(acc, None)], from_=A.From(A.Equal(col('year'), C(2019)), None, None, None), where=A.Greater(num, C(100))),
        'from-date-filter': select([(acc, None)], from_=A.From(A.GreaterEq(date_, C(datetime.date(2019, 2, 1))), None, None, None)),
        # (a sub-query WITHOUT a FROM clause inherits the enclosing query's current table, qualifiers included: whether
        #  "the subquery" then means the text run alone or in that context is not specified -> not generated here)
        'own-close': select([(acc, None)], from_=A.From(None, None, datetime.date(2019, 2, 1), None)),
        'from-subquery': select([(col('a'), None)], from_=select([(acc, 'a')], from_=A.From(A.Equal(col('month'), C(1)), None, None, None))),
        # three SELECT levels: the middle one has its own FROM clause AND nests another IN sub-query
        'nested-in': select([(acc, None)], from_=A.From(A.Equal(col('year'), C(2019)), None, None, None),
                            where=A.In(acc, select([(acc, None)], from_=A.From(A.GreaterEq(date_, C(datetime.date(2019, 1, 1))), None, None, None), where=A.Greater(num, C(0))))),
        'nested-in-own-close': select([(acc, None)], from_=A.From(None, None, datetime.date(2019, 3, 1), None),
                                      where=A.In(acc, select([(acc, None)], from_=A.From(A.Equal(col('year'), C(2019)), None, None, None)))),
    }
    outers = {
        'plain': None,
        'open': A.From(None, datetime.date(2019, 2, 1), None, None),
        'close': A.From(None, None, datetime.date(2019, 2, 2), None),
        'open-close-clear': A.From(None, datetime.date(2019, 1, 10), datetime.date(2019, 3, 1), True),
        'clear': A.From(None, None, None, True),
        'filter-close': A.From(A.Equal(col('year'), C(2019)), None, True, None),
    }
    out = []
    for (sn, sub), (on, frm) in itertools.product(subs.items(), outers.items()):
        for op in (A.In, A.NotIn):
            out.append((f'{sn}|{on}|{op.__name__}|target', sub, select([(acc, None), (op(acc, sub), 'm')], from_=frm)))
            out.append((f'{sn}|{on}|{op.__name__}|where', sub, select([(acc, None), (num, None)], from_=frm, where=op(acc, sub))))
    return out


def check_ledger(acc_, only=None):
    """x IN (subquery) on ledger tables == membership in the subquery's own output (run alone on a fresh connection),
    whatever OPEN / CLOSE / CLEAR the enclosing query carries."""
    from .. import sample_ledger
    for tag, sub, stmt in ledger_statements():
        if only is not None and tag != only:
            continue
        acc_.count('executions')
        acc_.count('ledger_in_statements')
        case = {'kind': 'ledger-in', 'tag': tag}
        try:
            members = [r[0] for r in sample_ledger.connect().execute(sub).fetchall()]
            # the enclosing query without the IN expression gives the rows and the left operands
            base = select([(col('account'), None), (col('number'), None)], from_=stmt.from_clause)
            baserows = sample_ledger.connect().execute(base).fetchall()
            got = sample_ledger.connect().execute(stmt).fetchall()
        except Exception as e:
            acc_.violation(f'crash:{crash_fingerprint(e)}', f'{show(stmt)} raised {type(e).__name__}: {e}', case)
            continue
        neg = '|NotIn|' in tag

        def member(x):
            if x is None or not members:
                return None
            return (x not in members) if neg else (x in members)
        if tag.endswith('|target'):
            exp = [(a, member(a)) for a, n in baserows]
        else:
            exp = [(a, n) for a, n in baserows if member(a) is True]
        if [tuple(map(typed, r)) for r in got] != [tuple(map(typed, r)) for r in exp]:
            sn, on, opn, place = tag.split('|')
            acc_.violation(f'ledger-in:{on}|{sn}', f'{show(stmt)}: got {got[:6]!r}; membership in the sub-query\'s own output {sorted(set(members))!r} gives {exp[:6]!r}', case)
            continue
        acc_.count('rows_compared', len(got))


def check_ledger_unhashable(acc_, only=None):
    """IN / NOT IN with an UNHASHABLE left operand (metadata dict, Inventory) that does occur in the sub-query's column."""
    from .. import sample_ledger
    acct, meta, num = col('account'), col('meta'), col('number')
    inv_sub = select([(F('sum', col('position')), 's')], from_=A.Table('postings'), group_by=A.GroupBy([acct], None))
    inv_outer = select([(acct, 'a'), (F('sum', col('position')), 'total')], from_=A.Table('postings'), group_by=A.GroupBy([col('a')], None))
    cases = [
        ('meta', select([(meta, None)], from_=A.Table('postings'), where=A.Greater(num, C(0))), select([(acct, None), (meta, 'x')], from_=A.Table('postings')), meta),
        ('inventory', inv_sub, select([(col('a'), None), (col('total'), 'x')], from_=inv_outer), col('total')),
    ]
    for name, sub, base, left in cases:
        for op in (A.In, A.NotIn):
            tag = f'{name}|{op.__name__}'
            if only is not None and tag != only:
                continue
            acc_.count('executions')
            acc_.count('ledger_in_statements')
            case = {'kind': 'ledger-unhashable', 'tag': tag}
            stmt = A.Select([A.Target(base.targets[0].expression, None), A.Target(op(left, sub), 'm')], base.from_clause, None, None, None, None, None, None)
            try:
                members = [r[0] for r in sample_ledger.connect().execute(sub).fetchall()]
                baserows = sample_ledger.connect().execute(base).fetchall()
                got = sample_ledger.connect().execute(stmt).fetchall()
            except Exception as e:
                acc_.violation(f'crash:{crash_fingerprint(e)}', f'{show(stmt)} raised {type(e).__name__}: {e}', case)
                continue

            def member(x):
                if x is None or not members:
                    return None
                found = any(x == y for y in members if y is not None)
                return (not found) if op is A.NotIn else found
            exp = [(a, member(x)) for a, x in baserows]
            if [(a, m) for a, m in got] != exp:
                acc_.violation(f'ledger-in:unhashable|{name}', f'{show(stmt)}: got {got[:5]!r}; membership by equality in the sub-query\'s own output gives {exp[:5]!r}', case)
                continue
            acc_.count('rows_compared', len(got))
            acc_.add('outcomes', repr(sorted(set(m for _, m in exp), key=repr)))


def shard_fn(shard, nshards, seed, tier):
    acc = Acc()
    js = jobs(seed)
    ins = in_statements()
    vs = variants(1 if tier == 'quick' else 2)
    idx = 0
    for variant in vs:
        for i, job in enumerate(js):
            if tier == 'quick' and job[0] == 3 and job[2] not in (0, 2, 4, 5):
                continue
            idx += 1
            if mine(idx, shard, nshards):
                run_job(job, seed, acc, variant)
                if idx % 4001 == 0:
                    acc.sample({'job': list(job), 'variant': variant})
        for i, (tag, stmt) in enumerate(ins):
            idx += 1
            if mine(idx, shard, nshards):
                check_in(tag, stmt, seed, acc, variant)
                if idx % 3001 == 0:
                    acc.sample({'in': show(stmt), 'variant': variant})
    acc.add('variants', len(vs))
    if shard == 0:
        for tag, text, kind in TEXTS:
            check_text(tag, text, kind, seed, acc)
    if shard == 1 % nshards:
        check_ledger(acc)
        check_ledger_unhashable(acc)
    return acc


def replay(c):
    acc = Acc()
    if c['kind'] == 'nested':
        run_job(tuple(c['job']), c['seed'], acc, tuple(c['variant']) if c.get('variant') is not None else None)
    elif c['kind'] == 'ledger-in':
        check_ledger(acc, only=c['tag'])
    elif c['kind'] == 'ledger-unhashable':
        check_ledger_unhashable(acc, only=c['tag'])
    elif c['kind'] == 'in':
        for tag, stmt in in_statements():
            if tag == c['tag']:
                check_in(tag, stmt, c['seed'], acc, tuple(c['variant']) if c.get('variant') is not None else None)
    else:
        for tag, text, kind in TEXTS:
            if tag == c['tag']:
                check_text(tag, text, kind, c['seed'], acc)
    return acc.violations


def run(ctx):
    acc = run_shards(shard_fn, ctx.jobs, ctx.seed, ctx.tier)
    n = acc.n
    cov = {
        'states': n['executions'], 'transitions': n['rows_compared'], 'traces_validated_against_impl': n['executions'],
        'evaluations': n['executions'], 'distinct_nontrivial': len(acc.sets['outcomes']),
        'rule': 'a case = one nested statement (inner x outer [x wrapper]) compared with its materialised form (rows + description) and with the reference interpreter; '
                'or one IN/NOT IN statement compared with the reference; distinct_nontrivial = distinct result row lists',
        'exhaustive': True,
        'bound': f'{len(inner_menu())} inner queries x generated outer menu (10-25 per inner), depth 2 complete; depth 3 with '
                 f'{"4 of 8" if ctx.quick else "all 8"} wrappers; {len(in_statements())} IN statements; {len(TEXTS)} text statements',
        'data_variants_of_t (fixed table + all row sequences of length <= L over 9 letters)': sorted(acc.sets['variants']),
        'depth2': n['depth2'], 'depth3': n['depth3'], 'in_statements': n['in_statements'], 'ledger_in_statements': n['ledger_in_statements'], 'text_statements': n['text_statements'],
        'reference_compared': n['ref_compared'], 'reference_unsupported': n['ref_unsupported'], 'both_rejected': n['both_rejected'],
        'empty_results': n['empty_results'], 'in_null_cells': n['in_null_cells'],
        'samples': acc.samples,
    }
    return Result(cov, acc.violations, assumptions=['materialised differential is the property\'s own statement', 'vt/ref/select.py for oracle B'])
