"""C03 -- ORDER BY / DISTINCT / LIMIT: stable sorted permutation, NULL first, dedup, cut.

Technique: bounded-exhaustive exploration (E-enum) of statements x tables on the real compiler and
executor against the reference interpreter ``vt.ref.select`` (comparator sort with
``functools.cmp_to_key``: NULL before every value, per-key direction, stable; then projection,
DISTINCT keeping first occurrences, LIMIT).

Tables     ALL row sequences of length <= L over {k in NULL,'a','b'} x {v in NULL,v1,v2} plus a row-id column
           (ties and NULLs everywhere; the id makes stability observable).
ORDER BY   every list of 1..K distinct keys out of 4 candidates (k, v, length(k), -v) x every ASC/DESC
           vector; each list in 5 forms: keys given as output positions, as output names (aliases), as
           selected expressions repeated in ORDER BY, as unselected (hidden) expressions, and mixed;
           x DISTINCT {off,on} x LIMIT {none,0,1,2,> size}.
Aggregate  SELECT k, sum(v) AS s, count(*) AS c ... GROUP BY k ORDER BY lists over {k, s, c, max(v) hidden}.
Sweep 2    every table kind of a Beancount-backed connection x every ordered pair of orderable columns:
           SELECT c1 AS a FROM #tbl ORDER BY c2 [DESC] must be the stable sort of the rows of SELECT c1, c2.
Sweep 3    a target `v IN (subquery1)` combined with ORDER BY `v IN (subquery2)`: the ordering key must be
           the second sub-query's membership, not the first's.
Sweep 4    DISTINCT over rows holding dict / list values (compared by equality), all row sequences of <= 3 (4) rows
           over an 8-letter alphabet mixing NULLs, equal and different unhashable values.
Scope      keys of unorderable types are outside the property.
"""
import itertools

import beanquery
from beanquery.parser import ast

from ..harness import HTable, UTable, connect, select, F, C, col, crash_fingerprint, typed
from ..par import Acc, run_shards, mine
from ..ref import select as refselect
from ..ref.expr import RefError
from ..runner import Result, jsonable, unjson

LEVEL = 'model_checking'
A = ast
ASC, DESC = A.Ordering.ASC, A.Ordering.DESC

KVALS = [None, '', 'b']      # '' and 0: falsy values that are NOT NULL (they sort after NULL, and -3 < 0)


def vvals(seed):
    pool = [-3, 2, -1, 7]
    return [None, 0, pool[seed % len(pool)]] if seed % 2 == 0 else [None, pool[seed % len(pool)], 0]


def tables(L, seed):
    alpha = list(itertools.product(KVALS, vvals(seed)))
    for n in range(0, L + 1):
        for rows in itertools.product(alpha, repeat=n):
            yield [(i,) + r for i, r in enumerate(rows)]


COLS = [('id', int), ('k', str), ('v', int)]


def cand():
    return {
        'k': col('k'),
        'v': col('v'),
        'lk': F('length', col('k')),
        'nv': A.Neg(col('v')),
    }


def key_lists(K):
    names = list(cand())
    out = []
    for n in range(1, K + 1):
        for keys in itertools.permutations(names, n):
            for dirs in itertools.product([ASC, DESC], repeat=n):
                out.append(list(zip(keys, dirs)))
    return out


def repeated_key_lists():
    """Lists that mention a key twice, in the same or in different directions (the first mention decides)."""
    out = []
    for a, b in (('k', 'v'), ('v', 'k'), ('lk', 'nv')):
        for d1, d2 in itertools.product([ASC, DESC], repeat=2):
            out.append([(a, d1), (a, d2)])
            for d3 in (ASC, DESC):
                out.append([(a, d1), (b, d3), (a, d2)])
                out.append([(b, d3), (a, d1), (a, d2)])
    return out


LIMITS_FULL = [(None, None), (True, None), (None, 0), (None, 1), (None, 2), (None, 99), (True, 1), (True, 2)]
LIMITS_SMALL = [(None, None), (True, 2)]


def make(spec, form, distinct, limit):
    """Build the statement for one ORDER BY list in one form."""
    cd = cand()
    if form == 'hidden':
        targets = [(col('k'), 'k')] if distinct else [(col('id'), 'id')]
        ob = [A.OrderBy(cd[kn], d) for kn, d in spec]
    else:
        targets = [] if distinct else [(col('id'), 'id')]
        off = len(targets)
        ob = []
        for i, (kn, d) in enumerate(spec):
            f = form if form != 'mixed' else ('pos', 'name', 'expr', 'hidden')[i % 4]
            if f == 'hidden':
                ob.append(A.OrderBy(cd[kn], d))
                continue
            targets.append((cd[kn], 'c_' + kn))
            if f == 'pos':
                ob.append(A.OrderBy(len(targets), d))
            elif f == 'name':
                ob.append(A.OrderBy(col('c_' + kn), d))
            else:
                ob.append(A.OrderBy(cand()[kn], d))     # a fresh, equal expression
        if not targets:
            targets = [(col('k'), 'k')]
    return select(targets, from_='t', order_by=ob, limit=limit, distinct=distinct)


def statements(K, tier):
    """tier: 'quick' | 'thorough' (full set) | 'large' (reduced set used on the 4-row tables of the thorough tier)."""
    out = []
    for spec in key_lists(K):
        combos = LIMITS_FULL if len(spec) <= 2 else LIMITS_SMALL
        forms = ('pos', 'name', 'expr', 'hidden', 'mixed')
        if len(spec) >= 3 and tier in ('quick', 'large'):
            forms = ('pos', 'hidden', 'mixed')
        if tier == 'large':
            combos = LIMITS_FULL if len(spec) == 1 else (LIMITS_SMALL if len(spec) == 2 else [(None, None)])
        for form in forms:
            if form == 'mixed' and len(spec) < 2:
                continue
            for distinct, limit in combos:
                tag = f'{form}|{len(spec)}|{"".join("D" if d == DESC else "A" for _, d in spec)}|{"distinct" if distinct else ""}|{"limit" if limit is not None else ""}'
                out.append((tag, make(spec, form, distinct, limit)))
    for i, spec in enumerate(repeated_key_lists()):
        for form in ('pos', 'name', 'expr', 'hidden', 'mixed'):
            tag = f'{form}-repeated|{len(spec)}|{"".join("D" if d == DESC else "A" for _, d in spec)}||#{i}'
            out.append((tag, make_repeated(spec, form)))
    return out


def make_repeated(spec, form):
    """Like make(), but a key mentioned twice is selected once and referenced twice."""
    cd = cand()
    targets = [(col('id'), 'id')]
    pos = {}
    ob = []
    for i, (kn, d) in enumerate(spec):
        f = form if form != 'mixed' else ('pos', 'name', 'expr', 'hidden')[i % 4]
        if f == 'hidden':
            ob.append(A.OrderBy(cand()[kn], d))
            continue
        if kn not in pos:
            targets.append((cd[kn], 'c_' + kn))
            pos[kn] = len(targets)
        if f == 'pos':
            ob.append(A.OrderBy(pos[kn], d))
        elif f == 'name':
            ob.append(A.OrderBy(col('c_' + kn), d))
        else:
            ob.append(A.OrderBy(cand()[kn], d))
    return select(targets, from_='t', order_by=ob)


def plain_statements():
    """No ORDER BY: DISTINCT / LIMIT alone and together (LIMIT applies to the de-duplicated rows, in source order)."""
    out = []
    for tname, targets in (('k', [(col('k'), 'k')]), ('kv', [(col('k'), 'k'), (col('v'), 'v')]), ('id', [(col('id'), 'id'), (col('k'), 'k')]),
                           ('expr', [(F('length', col('k')), 'lk')])):
        for distinct in (None, True):
            for limit in (None, 0, 1, 2, 99):
                if distinct is None and limit is None:
                    continue
                out.append((f'plain-{tname}|0||{"distinct" if distinct else ""}|{"limit" if limit is not None else ""}#{limit}',
                            select(targets, from_='t', distinct=distinct, limit=limit)))
        out.append((f'plain-{tname}-where|0||distinct|limit#1', select(targets, from_='t', where=A.IsNotNull(col('v')), distinct=True, limit=1)))
    # duplicated output names: every visible column stays addressable by its POSITION
    for d in (ASC, DESC):
        dn = 'D' if d == DESC else 'A'
        dup = [(col('id'), 'id'), (col('k'), 'x'), (col('v'), 'x')]
        for pos in (1, 2, 3):
            out.append((f'dup-names-pos{pos}|1|{dn}||', select(dup, from_='t', order_by=[A.OrderBy(pos, d)])))
        out.append((f'dup-names-pos32|2|{dn}{dn}||', select(dup, from_='t', order_by=[A.OrderBy(3, d), A.OrderBy(2, d)])))
        out.append((f'dup-columns-pos3|1|{dn}||', select([(col('v'), None), (col('k'), None), (col('v'), None), (col('id'), None)], from_='t', order_by=[A.OrderBy(3, d), A.OrderBy(4, ASC)])))
    # an output alias that re-uses the name of a table column for ANOTHER expression: ORDER BY <name> means the output column
    nv, lk = (A.Neg(col('v')), 'v'), (F('length', col('k')), 'k')
    for d in (ASC, DESC):
        dn = 'D' if d == DESC else 'A'
        for limit in (None, 1):
            lt = 'limit' if limit else ''
            out.append((f'alias-shadows-column-v|1|{dn}||{lt}', select([(col('id'), 'id'), nv], from_='t', order_by=[A.OrderBy(col('v'), d)], limit=limit)))
            out.append((f'alias-shadows-column-k|1|{dn}||{lt}', select([(col('id'), 'id'), lk], from_='t', order_by=[A.OrderBy(col('k'), d)], limit=limit)))
            out.append((f'alias-shadows-column-kv|2|{dn}{dn}||{lt}', select([(col('id'), 'id'), lk, nv], from_='t', order_by=[A.OrderBy(col('k'), d), A.OrderBy(col('v'), d)], limit=limit)))
    return out


def agg_statements():
    s, c = F('sum', col('v')), F('count', A.Asterisk())
    keys = {
        'k': {'pos': 1, 'name': col('k'), 'expr': col('k')},
        's': {'pos': 2, 'name': col('s'), 'expr': F('sum', col('v'))},
        'c': {'pos': 3, 'name': col('c'), 'expr': F('count', A.Asterisk())},
        'mx': {'hidden': F('max', col('v'))},
    }
    out = []
    for n in (1, 2):
        for ks in itertools.permutations(keys, n):
            for dirs in itertools.product([ASC, DESC], repeat=n):
                for form in ('pos', 'name', 'expr'):
                    ob = []
                    for kn, d in zip(ks, dirs):
                        item = keys[kn].get(form, keys[kn].get('hidden'))
                        ob.append(A.OrderBy(item, d))
                    for limit in (None, 1):
                        stmt = select([(col('k'), None), (s, 's'), (c, 'c')], from_='t', group_by=A.GroupBy([col('k')], None), order_by=ob, limit=limit)
                        out.append((f'agg-{form}|{n}|{"".join("D" if d == DESC else "A" for d in dirs)}||{"limit" if limit else ""}', stmt))
    # several grouping keys that are NOT selected, ordered by one of them (first / later) or by two of them
    mi = F('min', col('id'))
    lk, nv = F('length', col('k')), A.Neg(col('v'))
    for gtag, vis, gkeys in (('kv', [], [col('k'), col('v')]), ('k-lk-v', [], [col('k'), lk, col('v')]), ('vis-k+lk-v', [(col('k'), None)], [col('k'), lk, col('v')]),
                             ('vis-k+v-nv-lk', [(col('k'), None)], [col('k'), col('v'), nv, lk])):
        hidden = [g for g in gkeys if not any(g == e for e, _ in vis)]
        for obs in [(h,) for h in hidden] + [(hidden[-1], hidden[0])]:
            for dirs in itertools.product([ASC, DESC], repeat=len(obs)):
                for limit in (None, 2):
                    stmt = select(vis + [(c, 'c'), (mi, 'i')], from_='t', group_by=A.GroupBy(list(gkeys), None),
                                  order_by=[A.OrderBy(o, d) for o, d in zip(obs, dirs)], limit=limit)
                    out.append((f'agg-hidden-keys-{gtag}-{"+".join(str(hidden.index(o)) for o in obs)}|{len(obs)}|{"".join("D" if d == DESC else "A" for d in dirs)}||{"limit" if limit else ""}', stmt))
    # DISTINCT over a grouped query whose grouping key is NOT selected: different groups may give equal visible rows
    gb = A.GroupBy([col('k')], None)
    for tname, targets in (('c', [(c, 'c')]), ('s', [(s, 's')]), ('sc', [(s, 's'), (c, 'c')]), ('kc', [(col('k'), None), (c, 'c')])):
        for limit in (None, 1, 2):
            for ob, otag in ((None, '0|'), ([A.OrderBy(1, DESC)], '1|D')):
                out.append((f'agg-distinct-{tname}|{otag}|distinct|{"limit" if limit else ""}#{limit}',
                            select(targets, from_='t', group_by=gb, order_by=ob, limit=limit, distinct=True)))
    return out


def show(node):
    try:
        from ..unparse import unparse
        return unparse(node)
    except Exception:
        return repr(node)


def run_one(conn, rows, tag, stmt, acc, extra):
    acc.count('executions')
    try:
        names, exp, info = refselect.execute(stmt, [n for n, _ in COLS], rows, dict(COLS))
    except RefError:
        acc.count('ref_unsupported')
        return
    try:
        got = conn.execute(stmt).fetchall()
    except Exception as e:
        acc.violation(f'crash:{crash_fingerprint(e)}', f'{show(stmt)} on {rows!r} raised {type(e).__name__}: {e}', dict(extra, tag=tag, rows=jsonable(rows)))
        return
    acc.count('rows_compared', len(exp))
    if [tuple(map(typed, r)) for r in got] != [tuple(map(typed, r)) for r in exp]:
        form, n, dirs, dis, lim = tag.split('#')[0].split('|')
        pat = 'uniform' if len(set(dirs)) <= 1 else 'mixed-directions'
        acc.violation(f'order:{form}|keys={n}|{pat}|{dis}|{lim}', f'{show(stmt)} on rows {rows!r}: got {got!r}, reference {exp!r}',
                      dict(extra, tag=tag, rows=jsonable(rows)))
        return
    acc.count('distinct_removed', info.get('distinct_removed', 0))
    acc.count('limit_cut', info.get('limit_cut', 0))
    acc.add('direction_patterns', tag.split('|')[2])
    if len(exp) >= 2:
        acc.count('results_with_2plus_rows')
        if exp != sorted(exp, key=lambda r: repr(r)):
            pass
    acc.add('outcomes', repr(exp)[:60])


def sweep1(shard, nshards, L, K, tier, seed, only_len=None):
    acc = Acc()
    stmts = statements(K, tier) + agg_statements() + plain_statements()
    for idx, rows in enumerate(tables(L, seed)):
        if not mine(idx, shard, nshards):
            continue
        if only_len is not None and len(rows) != only_len:
            continue
        table = HTable(COLS, rows)
        conn = connect(t=table, postings=table)
        acc.count('tables')
        for tag, stmt in stmts:
            run_one(conn, rows, tag, stmt, acc, {'kind': 'stmt', 'K': K, 'tier': tier})
        if idx % 4 == 1:
            # the same statements on a user table whose columns all share one slot-less class (tests/tables.py style)
            utable = UTable(COLS, rows)
            uconn = connect(t=utable, postings=utable)
            acc.count('slotless_column_tables')
            for tag, stmt in stmts:
                run_one(uconn, rows, tag, stmt, acc, {'kind': 'stmt', 'K': K, 'tier': tier, 'slotless': True})
        if idx % 3001 == 7:
            acc.sample({'table': jsonable(rows), 'statement': show(stmts[(idx * 7) % len(stmts)][1])})
    acc.add('nstatements', len(stmts))
    return acc


# ---- sweep 2: table kinds -----------------------------------------------------------------

ORDERABLE = ('int', 'Decimal', 'str', 'date', 'bool')


def orderable_columns(table):
    return [n for n, c in table.columns.items() if getattr(c.dtype, '__name__', '') in ORDERABLE]


def ledger_conn():
    from ..sample_ledger import connect as lconnect
    return lconnect()


def sweep2_pair(conn, tname, c1, c2, acc):
    case = {'kind': 'pair', 'table': tname, 'c1': c1, 'c2': c2}
    frm = A.Table(tname)
    try:
        base = conn.execute(select([(col(c1), 'a'), (col(c2), 'b')], from_=frm)).fetchall()
    except Exception as e:
        acc.violation(f'crash:{crash_fingerprint(e)}', f'SELECT {c1}, {c2} FROM #{tname} raised {e!r}', case)
        return
    acc.count('column_pairs')
    for d in (ASC, DESC):
        import functools
        exp = sorted(base, key=functools.cmp_to_key(lambda x, y: (-1 if d == DESC else 1) * refselect.cmp_null(x[1], y[1])))
        exp = [(r[0],) for r in exp]
        acc.count('executions')
        try:
            got = conn.execute(select([(col(c1), 'a')], from_=frm, order_by=[A.OrderBy(col(c2), d)])).fetchall()
        except Exception as e:
            acc.violation(f'crash:{crash_fingerprint(e)}', f'SELECT {c1} AS a FROM #{tname} ORDER BY {c2} raised {e!r}', case)
            return
        if [tuple(map(typed, r)) for r in got] != [tuple(map(typed, r)) for r in exp]:
            acc.violation('pair:hidden-order-key', f'SELECT {c1} AS a FROM #{tname} ORDER BY {c2} {d.name}: got {got[:6]!r}, stable sort of SELECT {c1}, {c2} by {c2} gives {exp[:6]!r}', case)
            return
        if exp != [(r[0],) for r in base]:
            acc.count('pairs_where_order_changes_rows')


def sweep2(shard, nshards):
    acc = Acc()
    conn = ledger_conn()
    idx = 0
    for tname in sorted(n for n in conn.tables if n):
        cols = orderable_columns(conn.tables[tname])
        for c1, c2 in itertools.permutations(cols, 2):
            idx += 1
            if mine(idx, shard, nshards):
                sweep2_pair(conn, tname, c1, c2, acc)
    return acc


# ---- sweep 3: IN-subquery target vs IN-subquery ordering key -------------------------------

def sweep3(acc, only=None):
    us = {'u_e': [], 'u_1': [(1,)], 'u_12': [(1,), (2,)], 'u_2n': [(2,), (None,)]}
    trows = [(0, 'a', 1), (1, 'b', 2), (2, None, None), (3, 'a', 7), (4, 'b', 1)]
    tabs = {'t': HTable(COLS, trows)}
    for n, r in us.items():
        tabs[n] = HTable([('j', int)], r, name=n)
    conn = connect(postings=tabs['t'], **tabs)
    reftabs = {'t': ([n for n, _ in COLS], trows, dict(COLS))}
    for n, r in us.items():
        reftabs[n] = (['j'], r, {'j': int})
    for u1, u2 in itertools.product(us, repeat=2):
        for d in (ASC, DESC):
            for neg in (False, True):
                tag = f'{u1}|{u2}|{d.name}|{neg}'
                if only is not None and only != tag:
                    continue
                sub1 = select([(col('j'), None)], from_=u1)
                sub2 = select([(col('j'), None)], from_=u2)
                op = A.NotIn if neg else A.In
                stmt = select([(col('id'), None), (A.In(col('v'), sub1), 'm')], from_='t', order_by=[A.OrderBy(op(col('v'), sub2), d)])
                acc.count('executions')
                acc.count('subquery_order_statements')
                names, exp, _ = refselect.execute(stmt, [], [], None, tables=reftabs)
                try:
                    got = conn.execute(stmt).fetchall()
                except Exception as e:
                    acc.violation(f'crash:{crash_fingerprint(e)}', f'{show(stmt)} raised {e!r}', {'kind': 'subq', 'tag': tag})
                    continue
                if [tuple(map(typed, r)) for r in got] != [tuple(map(typed, r)) for r in exp]:
                    fp = 'subquery-order-key' if u1 != u2 or neg else 'subquery-order-key-same'
                    acc.violation(fp, f'{show(stmt)}: got {got!r}, reference {exp!r}', {'kind': 'subq', 'tag': tag})


# ---- sweep 4: DISTINCT over rows holding unhashable values (dict, list) ---------------------------

UCOLS = [('k', str), ('mp', dict), ('ls', list)]
UALPHA = [(None, None, None), ('a', None, None), ('a', {'x': 1}, None), ('a', {'x': 1}, ['p']), (None, {'x': 1}, None),
          ('b', {}, []), ('a', {'x': 2}, ['p']), ('b', None, ['p'])]


def ustatements():
    k, mp, ls = col('k'), col('mp'), col('ls')
    return [
        ('k', select([(k, None)], from_='t', distinct=True)),
        ('mp', select([(mp, None)], from_='t', distinct=True)),
        ('ls', select([(ls, None)], from_='t', distinct=True)),
        ('k,mp', select([(k, None), (mp, None)], from_='t', distinct=True)),
        ('mp,k,ls', select([(mp, None), (k, None), (ls, None)], from_='t', distinct=True)),
        ('k,mp order', select([(k, None), (mp, None)], from_='t', distinct=True, order_by=[A.OrderBy(col('k'), DESC)])),
        ('ls limit', select([(ls, None), (k, None)], from_='t', distinct=True, limit=2)),
    ]


def sweep4(shard, nshards, L):
    acc = Acc()
    stmts = ustatements()
    idx = 0
    for n in range(0, L + 1):
        for rows in itertools.product(UALPHA, repeat=n):
            idx += 1
            if not mine(idx, shard, nshards):
                continue
            sweep4_one(list(rows), stmts, acc)
    return acc


def sweep4_one(rows, stmts, acc, only=None):
    table = HTable(UCOLS, rows)
    conn = connect(t=table, postings=table)
    for tag, stmt in stmts:
        if only is not None and tag != only:
            continue
        acc.count('executions')
        acc.count('unhashable_distinct_statements')
        names, exp, info = refselect.execute(stmt, [n for n, _ in UCOLS], rows, dict(UCOLS))
        try:
            got = conn.execute(stmt).fetchall()
        except Exception as e:
            acc.violation(f'crash:{crash_fingerprint(e)}', f'{show(stmt)} on {rows!r} raised {type(e).__name__}: {e}', {'kind': 'unhashable', 'tag': tag, 'rows': jsonable(rows)})
            continue
        if [tuple(map(typed_u, r)) for r in got] != [tuple(map(typed_u, r)) for r in exp]:
            acc.violation('distinct:unhashable-values', f'{show(stmt)} on rows {rows!r}: got {got!r}, reference (first occurrences by equality) {exp!r}',
                          {'kind': 'unhashable', 'tag': tag, 'rows': jsonable(rows)})
            continue
        acc.count('distinct_removed', info.get('distinct_removed', 0))


# ---- sweep 5: DISTINCT over different rows whose HASHES collide (hash(-1) == hash(-2) in CPython) ------

HCOLS = [('k', str), ('v', int)]
HALPHA = [('a', -1), ('a', -2), ('a', None), (None, -1), (None, -2)]


def hstatements():
    k, v = col('k'), col('v')
    return [
        ('v', select([(v, None)], from_='t', distinct=True)),
        ('k,v', select([(k, None), (v, None)], from_='t', distinct=True)),
        ('v order', select([(v, None)], from_='t', distinct=True, order_by=[A.OrderBy(col('v'), DESC)])),
        ('v,k limit', select([(v, None), (k, None)], from_='t', distinct=True, limit=2)),
        ('v grouped', select([(v, None)], from_='t', distinct=True, group_by=A.GroupBy([col('v'), col('k')], None))),
    ]


def sweep5(shard, nshards, L):
    acc = Acc()
    stmts = hstatements()
    idx = 0
    for n in range(0, L + 1):
        for rows in itertools.product(HALPHA, repeat=n):
            idx += 1
            if mine(idx, shard, nshards):
                sweep5_one(list(rows), stmts, acc)
    return acc


def sweep5_one(rows, stmts, acc, only=None):
    table = HTable(HCOLS, rows)
    conn = connect(t=table, postings=table)
    for tag, stmt in stmts:
        if only is not None and tag != only:
            continue
        acc.count('executions')
        acc.count('hash_collision_distinct_statements')
        try:
            names, exp, info = refselect.execute(stmt, [n for n, _ in HCOLS], rows, dict(HCOLS))
        except RefError:
            acc.count('ref_unsupported')
            continue
        try:
            got = conn.execute(stmt).fetchall()
        except Exception as e:
            acc.violation(f'crash:{crash_fingerprint(e)}', f'{show(stmt)} on {rows!r} raised {type(e).__name__}: {e}', {'kind': 'collide', 'tag': tag, 'rows': jsonable(rows)})
            continue
        if [tuple(map(typed, r)) for r in got] != [tuple(map(typed, r)) for r in exp]:
            acc.violation('distinct:equal-hash-different-rows', f'{show(stmt)} on rows {rows!r}: got {got!r}, reference {exp!r}',
                          {'kind': 'collide', 'tag': tag, 'rows': jsonable(rows)})


def typed_u(v):
    return (type(v).__name__, repr(v))


def replay(c):
    acc = Acc()
    if c['kind'] == 'unhashable':
        sweep4_one([tuple(r) for r in unjson(c['rows'])], ustatements(), acc, only=c['tag'])
        return acc.violations
    if c['kind'] == 'collide':
        sweep5_one([tuple(r) for r in unjson(c['rows'])], hstatements(), acc, only=c['tag'])
        return acc.violations
    if c['kind'] == 'pair':
        sweep2_pair(ledger_conn(), c['table'], c['c1'], c['c2'], acc)
    elif c['kind'] == 'subq':
        sweep3(acc, only=c['tag'])
    else:
        rows = [tuple(r) for r in unjson(c['rows'])]
        table = (UTable if c.get('slotless') else HTable)(COLS, rows)
        conn = connect(t=table, postings=table)
        for tag, stmt in statements(c['K'], 'thorough') + agg_statements() + plain_statements():
            if tag == c['tag']:
                run_one(conn, rows, tag, stmt, acc, {'kind': 'stmt', 'K': c['K'], 'tier': c['tier']})
                break
    return acc.violations


def run(ctx):
    L, K = ctx.pick((3, 3), (4, 3))
    acc = run_shards(sweep1, ctx.jobs, 3, K, ctx.tier, ctx.seed)
    if ctx.thorough:
        # all 6561 tables of exactly 4 rows with a reduced DISTINCT/LIMIT menu (the full menu ran on <= 3 rows)
        acc.merge(run_shards(sweep1, ctx.jobs, 4, K, 'large', ctx.seed, 4))
        # all 2^4 direction vectors of 4-key lists on tables of <= 3 rows
        acc.merge(run_shards(sweep1_k4, ctx.jobs, 3, ctx.seed))
    acc2 = run_shards(sweep2, ctx.jobs)
    acc3 = Acc()
    sweep3(acc3)
    acc3.merge(run_shards(sweep4, ctx.jobs, ctx.pick(3, 4)))
    acc3.merge(run_shards(sweep5, ctx.jobs, ctx.pick(3, 4)))
    n = acc.n
    ex = n['executions'] + acc2.n['executions'] + acc3.n['executions']
    cov = {
        'states': ex, 'transitions': n['rows_compared'] + acc2.n['executions'] + acc3.n['executions'],
        'traces_validated_against_impl': ex, 'evaluations': ex,
        'distinct_nontrivial': len(acc.sets['outcomes']),
        'rule': 'a case = one (statement, table) execution compared with the comparator-sort reference; distinct_nontrivial = distinct expected results',
        'exhaustive': True,
        'bound': f'ALL tables of <= {L} rows over a 9-letter row alphabet x ALL ORDER BY lists of <= {K} keys (of 4) with every direction vector x 5 key forms x DISTINCT/LIMIT combinations'
                 + (' + all 4-key lists on tables of <= 3 rows' if ctx.thorough else ''),
        'tables': n['tables'], 'tables_with_slotless_column_class': n['slotless_column_tables'], 'statements_per_table': sorted(acc.sets['nstatements']),
        'direction_patterns_seen': len(acc.sets['direction_patterns']),
        'results_with_2plus_rows': n['results_with_2plus_rows'], 'distinct_removed_rows': n['distinct_removed'], 'limit_cut_rows': n['limit_cut'],
        'table_kind_sweep': {'column_pairs': acc2.n['column_pairs'], 'pairs_where_order_changes_rows': acc2.n['pairs_where_order_changes_rows']},
        'subquery_order_statements': acc3.n['subquery_order_statements'],
        'distinct_over_unhashable_values_statements': acc3.n['unhashable_distinct_statements'],
        'distinct_over_equal_hash_rows_statements': acc3.n['hash_collision_distinct_statements'],
        'samples': acc.samples,
    }
    return Result(cov, acc.violations + acc2.violations + acc3.violations,
                  assumptions=['reference: functools.cmp_to_key comparator sort (stable), NULL smallest', 'unorderable keys / unhashable rows are outside'])


def sweep1_k4(shard, nshards, L, seed):
    acc = Acc()
    stmts = []
    for spec in key_lists(4):
        if len(spec) != 4:
            continue
        for form in ('name', 'hidden', 'mixed'):
            tag = f'{form}|4|{"".join("D" if d == DESC else "A" for _, d in spec)}||'
            stmts.append((tag, make(spec, form, None, None)))
    for idx, rows in enumerate(tables(L, seed)):
        if not mine(idx, shard, nshards):
            continue
        table = HTable(COLS, rows)
        conn = connect(t=table, postings=table)
        acc.count('tables')
        for tag, stmt in stmts:
            run_one(conn, rows, tag, stmt, acc, {'kind': 'stmt', 'K': 4, 'tier': 'thorough'})
    acc.add('nstatements', len(stmts))
    return acc
