"""C12 -- Inventory aggregation is a homomorphism; the running balance is the prefix sum.

Technique: bounded-exhaustive enumeration (E-enum) of the real implementation against a reference that
only uses beancount's own data model (Inventory.add_position/add_amount/add_inventory/reduce,
beancount.core.convert, prices.build_price_map) over a direct traversal of the loaded entries.

Space     every bookable ledger of vt.ledgers12 (all sequences of <= n transactions over 9 templates:
          cash USD, cash EUR, lot, second lot, partial sale, conversion @ price, expense, income, lot at
          zero cost; fixed
          price schedule with terminating rates)
          x price maps  {ordinary rates (all statements below); every rate doubled; the LATEST directive of
                        every (commodity, quote) pair exactly 0 -- a delisted share / worthless currency:
                        a price that exists and is zero, not a missing price}: the two extra price maps
                        are run, for EVERY ledger, through the full sum-form x function statement
                        (ungrouped and GROUP BY account) right after the ordinary one in the same process
          x selections  WHERE in 8 filters (none, regex, equality, date, sign, always-false, NULL-producing,
                        NULL OR bool) x FROM expression in {none, has_account('Inv'), date < D}
          x groupings   {none, account, currency, (year, month), root(account, 1)}
          x sum forms   sum(position), sum(units(position)), sum(cost(position)), sum(weight),
                        sum(balance), sum(units(balance)) (inventory-valued operands), and the nested
                        SELECT sum(s) FROM (SELECT key, sum(position) AS s ... GROUP BY key)
          x functions f units, cost, value, value(.., date), convert(.., USD|EUR [, date]), convert(.., 'usd'),
                        convert(.., 'Eur', date) (target currency not in upper case)
          x balance     target lists mentioning `balance` 0, 1, 2, 3 times in varying positions, through
                        units()/cost(), with an intervening `account IN (SELECT account FROM postings
                        WHERE ...)` whose scan does / does not consult balance; `balance` in WHERE.
          x inventory columns: sum / first / last / count over the inventory-valued column of a
                        FROM-subquery (SELECT key, sum(position) AS inv ... GROUP BY key) and of a
                        user-registered table holding Inventory objects, 1-3 aggregates over the SAME
                        column in one statement, ungrouped and grouped; each table statement is executed
                        twice and the table's data is snapshotted before / after (source data unchanged).
Oracle    (i)   every sum == Inventory fold over the rows of the group (groups and selection computed
                by the reference with three-valued filter semantics);
          (ii)  f(sum(position)) == sum(f(position)) as beancount Inventories, and each == the reference;
          (iii) the group results of any grouping add up (Inventory.add_inventory) to the ungrouped
                result of the same selection, and the nested sum-of-sums equals the total;
          (iv)  when no condition consults it, every `balance` reference of a selected row == fold of
                `position` over the selected rows up to and including it (ledger order); the last one ==
                the implementation's own sum(position) of the selection;
          (v)   when WHERE consults balance on every scanned row, it is the fold over ALL rows scanned
                so far (selection decided with that value, targets of the row see the same value).
Weakest readings (also reported as assumptions)
          * an ungrouped aggregate over an empty selection may return no row or one row of empty
            inventories; result row order of grouped queries is not compared;
          * (v) is only generated for conditions whose balance term is evaluated for every scanned row
            (first operand of AND/OR, no FROM expression): with short-circuited terms "scanned so far"
            and "consulted so far" differ and the property text does not choose;
          * balance referenced only as a later argument of a call whose leading argument is NULL on some
            rows (only(cost_currency, balance), only(currency(price), balance)): the call's value is
            compared where the leading argument is non-NULL; the rows where it is NULL still count in
            the prefix sum of every later row;
          * grouped first(balance) / last(balance): the running balance runs over the selected rows in scan
            order, not per group; in that statement group first() stands next to last(balance), so every
            selected row consults the balance;
          * balance referenced ONLY lazily (first(balance) alone; later operand of coalesce / OR / AND in a
            target): a separate statement group, one fingerprint per shape `balance:lazy-reference|<shape>`;
            wherever the reference is evaluated it must be the prefix sum over all selected rows so far;
          * the value of the intervening IN target is compared only when the subquery returns rows
            (IN over an empty subquery is C08's business);
          * Inventories are compared with beancount's Inventory equality (lots keyed by currency+cost,
            Decimal value equality, not representation).
"""
import copy
import re
import zlib

import beanquery
from beancount.core import convert, inventory, position, prices

from .. import ledgers12 as L
from ..harness import select, F, C, col, A, crash_fingerprint, HTable, connect
from ..par import Acc, run_shards, mine
from ..runner import Result, Violation, jsonable, unjson

LEVEL = 'model_checking'

Inv = inventory.Inventory


# ---------------------------------------------------------------------------------------------
# three-valued helpers for the reference filter evaluation
def and3(*vs):
    for v in vs:
        if v is None:
            return None
        if not v:
            return False
    return True


def or3(*vs):
    r = False
    for v in vs:
        if v is None:
            r = None
        elif v:
            return True
    return r


def _cost_gt21(t, p):
    return None if p.cost is None else p.cost.number > 21


# name -> (ast builder, reference (txn, posting) -> True / False / None)
WHERE = {
    'none': (lambda: None, lambda t, p: True),
    "account~'Inv|Cash'": (lambda: A.Match(col('account'), C('Inv|Cash')),
                           lambda t, p: bool(re.search('Inv|Cash', p.account, re.IGNORECASE))),
    "currency='USD'": (lambda: A.Equal(col('currency'), C('USD')), lambda t, p: p.units.currency == 'USD'),
    'date>=D1': (lambda: A.GreaterEq(col('date'), C(L.DATES[1])), lambda t, p: t.date >= L.DATES[1]),
    'number>0': (lambda: A.Greater(col('number'), C(0)), lambda t, p: p.units.number > 0),
    'number>1000000': (lambda: A.Greater(col('number'), C(1000000)), lambda t, p: p.units.number > 1000000),
    'cost_number>21': (lambda: A.Greater(col('cost_number'), C(21)), _cost_gt21),
    "cost_number>21 OR currency='EUR'": (
        lambda: A.Or([A.Greater(col('cost_number'), C(21)), A.Equal(col('currency'), C('EUR'))]),
        lambda t, p: or3(_cost_gt21(t, p), p.units.currency == 'EUR')),
}

FROM = {
    'none': (lambda: None, lambda t, p: True),
    "has_account('Inv')": (lambda: A.From(expression=F('has_account', C('Inv'))),
                           lambda t, p: any(re.search('Inv', q.account, re.IGNORECASE) for q in t.postings)),
    'date<D2': (lambda: A.From(expression=A.Less(col('date'), C(L.DATES[2]))), lambda t, p: t.date < L.DATES[2]),
}

GROUPS = {
    'none': (lambda: [], lambda t, p: ()),
    'account': (lambda: [col('account')], lambda t, p: (p.account,)),
    'currency': (lambda: [col('currency')], lambda t, p: (p.units.currency,)),
    'month': (lambda: [col('year'), col('month')], lambda t, p: (t.date.year, t.date.month)),
    'root': (lambda: [F('root', col('account'), C(1))], lambda t, p: (p.account.split(':')[0],)),
}


def same_pos(got, exp):
    """The position column yields a Position equal to the reference (a value of another class is never equal;
    beancount's equality may raise on foreign operands)."""
    try:
        return type(got) is type(exp) and got == exp
    except Exception:
        return False


def pos_of(p):
    return position.Position(p.units, p.cost)


def functions(dates):
    """[(name, ast builder x -> f(x), reference on a Position given the price map)]"""
    fs = [
        ('units', lambda x: F('units', x), lambda pos, pm: convert.get_units(pos)),
        ('cost', lambda x: F('cost', x), lambda pos, pm: convert.get_cost(pos)),
        ('value', lambda x: F('value', x), lambda pos, pm: convert.get_value(pos, pm, None)),
        ("convert-USD", lambda x: F('convert', x, C('USD')), lambda pos, pm: convert.convert_position(pos, 'USD', pm, None)),
        ("convert-EUR", lambda x: F('convert', x, C('EUR')), lambda pos, pm: convert.convert_position(pos, 'EUR', pm, None)),
        # a target currency that is not spelled in upper case: the reference uses the argument as given
        # (beancount then finds no rate: a consistent no-op on both sides of the law)
        ("convert-usd", lambda x: F('convert', x, C('usd')), lambda pos, pm: convert.convert_position(pos, 'usd', pm, None)),
    ]
    # convert() over AMOUNT operands (the Position / Inventory overloads are exercised above): on the row side
    # convert(units(position), C) is the Amount overload, on the sum side convert(units(sum(position)), C)
    fs.append(('convert-USD.units', lambda x: F('convert', F('units', x), C('USD')),
               lambda pos, pm: convert.convert_amount(convert.get_units(pos), 'USD', pm, None)))
    fs.append(('convert-USD.cost', lambda x: F('convert', F('cost', x), C('USD')),
               lambda pos, pm: convert.convert_amount(convert.get_cost(pos), 'USD', pm, None)))
    if dates:
        dd = dates[0]
        fs.append((f'convert-EUR.units@{dd}', lambda x: F('convert', F('units', x), C('EUR'), C(dd)),
                   lambda pos, pm: convert.convert_amount(convert.get_units(pos), 'EUR', pm, dd)))
    if dates:
        d0 = dates[0]
        fs.append((f'convert-Eur@{d0}', lambda x: F('convert', x, C('Eur'), C(d0)),
                   lambda pos, pm: convert.convert_position(pos, 'Eur', pm, d0)))
    for d in dates:
        fs.append((f'value@{d}', lambda x, d=d: F('value', x, C(d)), lambda pos, pm, d=d: convert.get_value(pos, pm, d)))
        fs.append((f'convert-USD@{d}', lambda x, d=d: F('convert', x, C('USD'), C(d)),
                   lambda pos, pm, d=d: convert.convert_position(pos, 'USD', pm, d)))
        fs.append((f'convert-EUR@{d}', lambda x, d=d: F('convert', x, C('EUR'), C(d)),
                   lambda pos, pm, d=d: convert.convert_position(pos, 'EUR', pm, d)))
    return fs


def fp_of_function(name):
    """fingerprint locus of a function: the date itself is input, not defect."""
    return name.split('@')[0] + ('@date' if '@' in name else '')


def func_dates(tier, seed):
    if tier == 'thorough':
        return list(L.FUNC_DATES)
    # quick: one date, rotated by the seed (seeds 0..3 cover: between prices, on a price date, after all prices,
    # before every price); thorough: all four
    return [L.FUNC_DATES[(seed + 1) % len(L.FUNC_DATES)]]


# sum forms: name -> (ast of the operand, reference value of the operand for selected row i given
#                      (txn, posting) and the prefix inventory over the selected rows)
def _sumforms():
    return [
        ('position', lambda: col('position'), lambda t, p, pre: ('pos', pos_of(p))),
        ('units(position)', lambda: F('units', col('position')), lambda t, p, pre: ('amt', p.units)),
        ('cost(position)', lambda: F('cost', col('position')), lambda t, p, pre: ('amt', convert.get_cost(p))),
        ('weight', lambda: col('weight'), lambda t, p, pre: ('amt', convert.get_weight(p))),
        ('balance', lambda: col('balance'), lambda t, p, pre: ('inv', pre)),
        ('units(balance)', lambda: F('units', col('balance')), lambda t, p, pre: ('inv', pre.reduce(convert.get_units))),
    ]


SUMFORMS = _sumforms()


def fold(kinds_values):
    inv = Inv()
    for kind, v in kinds_values:
        if kind == 'pos':
            inv.add_position(v)
        elif kind == 'amt':
            inv.add_amount(v)
        else:
            inv.add_inventory(v)
    return inv


# ---------------------------------------------------------------------------------------------
class Ledger:
    def __init__(self, seq, seed, variant=0):
        self.seq = tuple(seq)
        self.seed = seed
        self.variant = variant
        entries, errors, options = L.load(self.seq, seed, variant)
        assert not errors, (seq, errors)
        self.entries = entries
        self.conn = beanquery.connect('beancount:', entries=entries, errors=errors, options=options)
        self.rows = L.postings(entries)
        self.price_map = prices.build_price_map(entries)

    def selected(self, wname, fname):
        wf, ff = WHERE[wname][1], FROM[fname][1]
        return [i for i, (t, p) in enumerate(self.rows) if and3(ff(t, p), wf(t, p)) is True]

    def case(self, kind, **kw):
        return {'seq': list(self.seq), 'seed': self.seed, 'variant': self.variant, 'kind': kind, **jsonable(kw)}


def show(x):
    return str(x)


WHERE_TEXT = {'none': None, 'date>=D1': f'date >= {L.DATES[1]}', 'number>0': 'number > 0', 'number>1000000': 'number > 1000000',
              'cost_number>21': 'cost_number > 21', "account~'Inv|Cash'": "account ~ 'Inv|Cash'", "currency='USD'": "currency = 'USD'",
              "cost_number>21 OR currency='EUR'": "cost_number > 21 OR currency = 'EUR'"}
FROM_TEXT = {'none': None, "has_account('Inv')": "has_account('Inv')", 'date<D2': f'date < {L.DATES[2]}'}
TOK_TEXT = {'P': 'position', 'A': 'account', 'B': 'balance', 'UB': 'units(balance)', 'CB': 'cost(balance)',
            'INB': 'account IN (SELECT account FROM postings WHERE empty(balance))',
            'INP': 'account IN (SELECT account FROM postings WHERE number > 0)',
            'OCB': 'only(cost_currency, balance)', 'OPB': 'only(currency(price), balance)',
            'NOCB': 'number(only(cost_currency, units(balance)))'}
GROUP_TEXT = {'none': None, 'account': 'account', 'currency': 'currency', 'month': 'year, month', 'root': 'root(account, 1)'}


def bql(targets, wname='none', fname='none', gname='none', where_text=None):
    t = f'SELECT {targets}'
    if FROM_TEXT[fname]:
        t += f' FROM {FROM_TEXT[fname]}'
    w = where_text if where_text is not None else WHERE_TEXT[wname]
    if w:
        t += f' WHERE {w}'
    if GROUP_TEXT[gname]:
        t += f' GROUP BY {GROUP_TEXT[gname]}'
    return '`' + t + '`'


def inv_key(x):
    return zlib.crc32(str(x).encode())


# ---------------------------------------------------------------------------------------------
# (i) (ii) (iii): aggregate queries
def agg_statement(wname, fname, gname, fdates):
    keys = GROUPS[gname][0]()
    targets = [(k, f'k{i}') for i, k in enumerate(keys)]
    for i, (name, mk, _) in enumerate(SUMFORMS):
        targets.append((F('sum', mk()), f's{i}'))
    for i, (name, mk, _) in enumerate(functions(fdates)):
        targets.append((mk(F('sum', col('position'))), f'a{i}'))      # f(sum(position))
        targets.append((F('sum', mk(col('position'))), f'b{i}'))      # sum(f(position))
    gb = A.GroupBy(list(range(1, len(keys) + 1)), None) if keys else None
    return select(targets, from_=FROM[fname][0](), where=WHERE[wname][0](), group_by=gb), len(keys)


def check_agg(led, wname, fname, gname, fdates, stats, totals=None):
    """-> list of (fingerprint, message).  totals: dict filled with the implementation's ungrouped
    values for this selection (group 'none'), used for (iii)."""
    out = []
    stmt, nk = agg_statement(wname, fname, gname, fdates)
    sel = led.selected(wname, fname)
    keyf = GROUPS[gname][1]
    fs = functions(fdates)
    try:
        got = led.conn.execute(stmt).fetchall()
    except Exception as e:
        return [(f'crash:{crash_fingerprint(e)}', f'{type(e).__name__}: {e}')]
    stats['queries'] += 1
    # reference groups
    groups = {}
    pre = Inv()
    for i in sel:
        t, p = led.rows[i]
        pre.add_position(p)
        groups.setdefault(keyf(t, p), []).append((t, p, copy.copy(pre)))
    desc = bql((GROUP_TEXT[gname] + ', ' if GROUP_TEXT[gname] else '') + '<sums>, <f(sum(position)), sum(f(position))>...', wname, fname, gname)
    gotmap = {}
    for r in got:
        k = tuple(r[:nk])
        if k in gotmap:
            out.append(('group:duplicate-key', f'{desc}: group key {k!r} returned twice'))
        gotmap[k] = r[nk:]
    if not sel and gname == 'none':
        # weakest reading: no row, or one row of empty inventories
        if got and not (len(got) == 1 and all(isinstance(v, Inv) and v.is_empty() for v in got[0])):
            out.append(('sum:empty-selection', f'{desc}: empty selection returned {got!r}'))
        stats['empty_selections'] += 1
        return out
    if set(gotmap) != set(groups):
        out.append(('group:keys', f'{desc}: groups {sorted(gotmap, key=repr)!r}, expected {sorted(groups, key=repr)!r}'))
        return out
    ns = len(SUMFORMS)
    for k, members in groups.items():
        vals = gotmap[k]
        stats['groups'] += 1
        stats['rows_folded'] += len(members)
        # (i) sums
        for j, (name, _, ref) in enumerate(SUMFORMS):
            exp = fold(ref(t, p, pre) for t, p, pre in members)
            stats['cells'] += 1
            if vals[j] != exp:
                out.append((f'sum:{name}', f'{desc} group {k!r}: sum({name}) = {show(vals[j])}, Inventory fold = {show(exp)}'))
        stats['outcomes'].add(inv_key(vals[0]))
        total = fold(('pos', pos_of(p)) for t, p, pre in members)
        # (ii) homomorphism
        for j, (name, _, pf) in enumerate(fs):
            a, b = vals[ns + 2 * j], vals[ns + 2 * j + 1]
            exp_b = fold(('amt', pf(pos_of(p), led.price_map)) for t, p, pre in members)
            exp_a = total.reduce(pf, led.price_map)
            stats['cells'] += 3
            fpn = fp_of_function(name)
            if a != b:
                out.append((f'hom:{fpn}', f'{desc} group {k!r}: {name}(sum(position)) = {show(a)} but sum({name}(position)) = {show(b)}'))
            if b != exp_b:
                out.append((f'sum-of:{fpn}', f'{desc} group {k!r}: sum({name}(position)) = {show(b)}, reference fold = {show(exp_b)}'))
            if a != exp_a:
                out.append((f'f-of-sum:{fpn}', f'{desc} group {k!r}: {name}(sum(position)) = {show(a)}, reference = {show(exp_a)}'))
            if isinstance(a, Inv) and not a.is_empty() and a != total:
                stats['nontrivial_f'].add((fpn, inv_key(a)))
            if led.variant == 2 and name == 'value' and exp_a != total and len(exp_a) < len(total):
                # non-vacuity of the zero-price map: a group holding a commodity whose market value is exactly 0
                stats['groups_holding_a_commodity_priced_at_zero'] += 1
    # (iii) partition adds up to the implementation's own total
    if totals is not None:
        if gname == 'none':
            totals['vals'] = gotmap[()]
        elif 'vals' in totals:
            tv = totals['vals']
            for j in range(len(tv)):
                s = Inv()
                for k in gotmap:
                    s.add_inventory(gotmap[k][j])
                stats['cells'] += 1
                if s != tv[j]:
                    nm = SUMFORMS[j][0] if j < ns else ('f(sum)' if (j - ns) % 2 == 0 else 'sum(f)') + ':' + fs[(j - ns) // 2][0]
                    # sum(balance) is not additive over a partition? it is: each row contributes its own prefix
                    out.append((f'partition:{nm.split("@")[0]}', f'{desc}: group results of target {nm} add up to {show(s)}, '
                                f'ungrouped result of the same selection is {show(tv[j])}'))
    return out


def check_sub(led, wname, fname, gname, stats):
    """(iii) through the implementation's own SumInventory: SELECT sum(s) FROM (SELECT key, sum(position) AS s ...)."""
    keys = GROUPS[gname][0]()
    targets = [(k, f'k{i}') for i, k in enumerate(keys)] + [(F('sum', col('position')), 's'), (F('sum', col('weight')), 'w')]
    gb = A.GroupBy(list(range(1, len(keys) + 1)), None)
    inner = select(targets, from_=FROM[fname][0](), where=WHERE[wname][0](), group_by=gb)
    stmt = select([(F('sum', col('s')), 'ts'), (F('sum', col('w')), 'tw'), (F('sum', F('units', col('s'))), 'tu')], from_=inner)
    sel = led.selected(wname, fname)
    desc = 'SELECT sum(s), sum(w), sum(units(s)) FROM (' + bql(GROUP_TEXT[gname] + ', sum(position) AS s, sum(weight) AS w', wname, fname, gname).strip('`') + ')'
    try:
        got = led.conn.execute(stmt).fetchall()
    except Exception as e:
        return [(f'crash:{crash_fingerprint(e)}', f'{desc}: {type(e).__name__}: {e}')]
    stats['queries'] += 1
    if not sel:
        stats['empty_selections'] += 1
        if got and not (len(got) == 1 and all(isinstance(v, Inv) and v.is_empty() for v in got[0])):
            return [('sum:empty-selection', f'{desc}: empty selection returned {got!r}')]
        return []
    exp = [fold(('pos', pos_of(led.rows[i][1])) for i in sel),
           fold(('amt', convert.get_weight(led.rows[i][1])) for i in sel),
           fold(('amt', led.rows[i][1].units) for i in sel)]
    stats['cells'] += 3
    stats['rows_folded'] += len(sel)
    if len(got) != 1:
        return [('partition:sum-of-sums', f'{desc}: {len(got)} rows returned, expected 1')]
    out = []
    for nm, g, e in zip(('sum(position)', 'sum(weight)', 'units(sum(position))'), got[0], exp):
        if g != e:
            out.append(('partition:sum-of-sums', f'{desc}: sum over the group sums of {nm} = {show(g)}, total of the selection = {show(e)}'))
    return out


# ---------------------------------------------------------------------------------------------
# sums over inventory-valued COLUMNS whose values outlive one update: FROM-subquery rows and rows of a
# user-registered table, with several aggregates over the same column, grouped and ungrouped
ISHAPES = {
    'sum': ['S'],
    'sum,units(sum)': ['S', 'US'],
    'sum,sum': ['S', 'S'],
    'first,sum': ['F', 'S'],
    'last,sum,count': ['L', 'S', 'N'],
    'sum,sum(units),sum': ['S', 'SU', 'S'],
}
ITOK = {
    'S': (lambda: F('sum', col('inv')), 'sum(inv)'),
    'US': (lambda: F('units', F('sum', col('inv'))), 'units(sum(inv))'),
    'SU': (lambda: F('sum', F('units', col('inv'))), 'sum(units(inv))'),
    'F': (lambda: F('first', col('inv')), 'first(inv)'),
    'L': (lambda: F('last', col('inv')), 'last(inv)'),
    'N': (lambda: F('count', col('inv')), 'count(inv)'),
}
IWHERE = ['none', 'number>0', "account~'Inv|Cash'"]
# inner grouping -> admissible outer groupings (outer key computed from the inner key column)
IGROUPS = {'account': ['none', 'root'], 'currency': ['none']}


def check_inv_values(desc, shape, members, vals, stats, out, fp='sum:inventory-column'):
    """members: the inventories of the group's source rows, in source order; vals: the result cells."""
    total = fold(('inv', m) for m in members)
    for j, tok in enumerate(ISHAPES[shape]):
        stats['cells'] += 1
        v = vals[j]
        name = ITOK[tok][1]
        if tok == 'S':
            ok, exp = v == total, total
        elif tok == 'US':
            exp = total.reduce(convert.get_units)
            ok = v == exp
        elif tok == 'SU':
            exp = fold(('inv', m.reduce(convert.get_units)) for m in members)
            ok = v == exp
        elif tok == 'N':
            exp = len(members)
            ok = v == exp
        else:
            # first / last: weakest reading -- one of the group's own values, whichever order rows arrive in
            exp = 'one of the values of the group'
            ok = any(v == m for m in members)
        if not ok:
            out.append((fp, f'{desc}: target {j} {name} = {show(v)}, expected {show(exp)} '
                        f'(the group holds {[show(m) for m in members]})'))
    stats['outcomes'].add(inv_key(vals[0]))


def check_invsub(led, wname, igname, ogname, shape, stats):
    ikeys = GROUPS[igname][0]()
    inner = select([(ikeys[0], igname), (F('sum', col('position')), 'inv')], where=WHERE[wname][0](), group_by=A.GroupBy([1], None))
    okeys = [F('root', col('account'), C(1))] if ogname == 'root' else []
    targets = [(k, f'k{i}') for i, k in enumerate(okeys)] + [(ITOK[t][0](), f'c{i}') for i, t in enumerate(ISHAPES[shape])]
    stmt = select(targets, from_=inner, group_by=A.GroupBy([1], None) if okeys else None)
    ttext = ', '.join((['root(account, 1)'] if okeys else []) + [ITOK[t][1] for t in ISHAPES[shape]])
    desc = (f'`SELECT {ttext} FROM (' + bql(f'{GROUP_TEXT[igname]}, sum(position) AS inv', wname, 'none', igname).strip('`') + ')'
            + (' GROUP BY 1' if okeys else '') + '`')
    try:
        got = led.conn.execute(stmt).fetchall()
    except Exception as e:
        return [(f'crash:{crash_fingerprint(e)}', f'{desc}: {type(e).__name__}: {e}')]
    stats['queries'] += 1
    sel = led.selected(wname, 'none')
    inner_groups = {}
    for i in sel:
        t, p = led.rows[i]
        inner_groups.setdefault(GROUPS[igname][1](t, p)[0], Inv()).add_position(p)
    outer = {}
    for k, inv in inner_groups.items():
        outer.setdefault((k.split(':')[0],) if okeys else (), []).append(inv)
    nk = len(okeys)
    if not sel and not okeys:
        stats['empty_selections'] += 1
        return []
    gotmap = {tuple(r[:nk]): r[nk:] for r in got}
    if set(gotmap) != set(outer) or len(got) != len(outer):
        return [('group:keys', f'{desc}: groups {sorted(gotmap)!r}, expected {sorted(outer)!r}')]
    out = []
    for k, members in outer.items():
        stats['groups'] += 1
        stats['rows_folded'] += len(members)
        if len(members) > 1:
            stats['inventory_column_groups_with_several_rows'] += 1
        check_inv_values(f'{desc} group {k!r}', shape, members, gotmap[k], stats, out)
    return out


def inv_table(led, variant):
    """User-registered table of inventories built from the ledger: one row per posting (k = account,
    g = root, inv = that posting alone), with an empty inventory in front (variant 'postings'); or one
    row per (account, currency) holding the account's running lots (variant 'accounts')."""
    rows = []
    if variant == 'postings':
        if led.rows:
            a = led.rows[0][1].account
            rows.append((a, a.split(':')[0], Inv()))
        for t, p in led.rows:
            rows.append((p.account, p.account.split(':')[0], fold([('pos', pos_of(p))])))
    else:
        per = {}
        for t, p in led.rows:
            per.setdefault((p.account, p.units.currency), Inv()).add_position(p)
        for (a, cur), inv in per.items():
            rows.append((a, a.split(':')[0], inv))
    return rows


def snapshot(rows):
    return [(k, g, tuple(inv.get_positions())) for k, g, inv in rows]


def check_invtab(led, variant, gcol, shape, stats):
    rows = inv_table(led, variant)
    table = HTable([('k', str), ('g', str), ('inv', Inv)], rows, name='h')
    conn = connect(h=table)
    keys = [col(gcol)] if gcol else []
    targets = [(k, f'k{i}') for i, k in enumerate(keys)] + [(ITOK[t][0](), f'c{i}') for i, t in enumerate(ISHAPES[shape])]
    stmt = select(targets, from_='h', group_by=A.GroupBy([1], None) if keys else None)
    desc = (f'`SELECT {", ".join(([gcol] if gcol else []) + [ITOK[t][1] for t in ISHAPES[shape]])} FROM #h'
            + (' GROUP BY 1' if gcol else '') + f'` (user table of {len(rows)} inventories, variant {variant})')
    before = snapshot(rows)
    members = {}
    for k, g, inv in rows:
        members.setdefault(({'k': k, 'g': g}[gcol],) if gcol else (), []).append(copy.copy(inv))
    out = []
    results = []
    for run in (1, 2):
        try:
            got = conn.execute(stmt).fetchall()
        except Exception as e:
            return [(f'crash:{crash_fingerprint(e)}', f'{desc}: {type(e).__name__}: {e}')]
        stats['queries'] += 1
        results.append(got)
        stats['source_snapshots_compared'] += 1
        after = snapshot(rows)
        if after != before:
            i = next(i for i, (a, b) in enumerate(zip(before, after)) if a != b)
            out.append(('sum:inventory-source-mutated', f'{desc}: execution {run} changed the table: row {i} ({before[i][0]}) held '
                        f'{[str(x) for x in before[i][2]]}, now {[str(x) for x in after[i][2]]}'))
            break
        if not rows and not gcol:
            continue
        nk = len(keys)
        gotmap = {tuple(r[:nk]): r[nk:] for r in got}
        if set(gotmap) != set(members) or len(got) != len(members):
            out.append(('group:keys', f'{desc}: groups {sorted(gotmap)!r}, expected {sorted(members)!r}'))
            break
        for k, ms in members.items():
            stats['groups'] += 1
            stats['rows_folded'] += len(ms)
            check_inv_values(f'{desc} execution {run} group {k!r}', shape, ms, gotmap[k], stats, out, fp='sum:inventory-column')
    if len(results) == 2 and results[0] != results[1] and not out:
        out.append(('sum:inventory-second-execution-differs', f'{desc}: the second execution returns {results[1]!r}, the first {results[0]!r}'))
    return out


# ---------------------------------------------------------------------------------------------
# (iv) running balance in targets
def _sub_consulting():
    return A.In(col('account'), select([(col('account'), 'a')], from_='postings', where=F('empty', col('balance'))))


def _sub_plain():
    return A.In(col('account'), select([(col('account'), 'a')], from_='postings', where=A.Greater(col('number'), C(0))))


TOK = {
    'P': lambda: col('position'),
    'A': lambda: col('account'),
    'B': lambda: col('balance'),
    'UB': lambda: F('units', col('balance')),
    'CB': lambda: F('cost', col('balance')),
    'INB': _sub_consulting,
    'INP': _sub_plain,
    # balance ONLY as a later argument of a call whose earlier argument is NULL on some rows
    'OCB': lambda: F('only', col('cost_currency'), col('balance')),
    'OPB': lambda: F('only', F('currency', col('price')), col('balance')),
    'NOCB': lambda: F('number', F('only', col('cost_currency'), F('units', col('balance')))),
}

# reference of the nullable leading argument of the tokens above: posting -> currency or None
NULLARG = {'OCB': lambda p: p.cost.currency if p.cost is not None else None,
           'OPB': lambda p: p.price.currency if p.price is not None else None,
           'NOCB': lambda p: p.cost.currency if p.cost is not None else None}

# pattern name -> tokens; number of balance references 0..3 in varying positions
PATTERNS = {
    'refs0': ['P', 'A'],
    'refs1-last': ['P', 'B'],
    'refs1-first': ['B', 'P'],
    'refs2-around': ['B', 'P', 'B'],
    'refs2-adjacent': ['B', 'B', 'P'],
    'refs2-spread': ['P', 'B', 'A', 'B'],
    'refs3-spread': ['B', 'P', 'B', 'A', 'B'],
    'refs3-adjacent': ['B', 'B', 'B'],
    'refs3-functions': ['UB', 'P', 'CB', 'B'],
    'nullarg-cost': ['OCB'],
    'nullarg-cost-after-position': ['P', 'OCB'],
    'nullarg-price': ['A', 'OPB'],
    'nullarg-cost-and-price': ['OCB', 'OPB'],
    'nullarg-nested': ['NOCB', 'P'],
    'nested-plain-between': ['B', 'INP', 'B'],
    'nested-consulting-after': ['B', 'B', 'INB', 'P'],
    'nested-consulting-before': ['P', 'INB', 'B', 'B'],
    'nested-consulting-between': ['B', 'INB', 'B'],
}


def pattern_fp(pname):
    if pname == 'nested-consulting-between':
        return 'balance:nested-scan-consulting-balance-between-references'
    if pname.startswith('nested'):
        return 'balance:nested-scan'
    if pname.startswith('nullarg'):
        return 'balance:reference-behind-null-argument'
    return 'balance:target-references'


def bal_statement(wname, fname, pname):
    targets = [(TOK[tok](), f'c{i}') for i, tok in enumerate(PATTERNS[pname])]
    return select(targets, from_=FROM[fname][0](), where=WHERE[wname][0]())


def impl_total(led, wname, fname):
    stmt = select([(F('sum', col('position')), 's')], from_=FROM[fname][0](), where=WHERE[wname][0]())
    got = led.conn.execute(stmt).fetchall()
    return got[0][0] if got else Inv()


def check_bal(led, wname, fname, pname, stats, total=None):
    toks = PATTERNS[pname]
    stmt = bal_statement(wname, fname, pname)
    sel = led.selected(wname, fname)
    desc = bql(', '.join(TOK_TEXT[t] for t in toks), wname, fname)
    fp = pattern_fp(pname)
    try:
        got = led.conn.execute(stmt).fetchall()
    except Exception as e:
        return [(f'crash:{crash_fingerprint(e)}', f'{desc}: {type(e).__name__}: {e}')]
    stats['queries'] += 1
    if len(got) != len(sel):
        return [('balance:selection', f'{desc}: {len(got)} rows, reference selects {len(sel)}')]
    out = []
    # reference values of the nested subqueries (when present)
    in_lists = {}
    if 'INB' in toks:
        pre = Inv()
        lst = []
        for t, p in led.rows:
            pre.add_position(p)
            if pre.is_empty():
                lst.append(p.account)
        in_lists['INB'] = lst
    if 'INP' in toks:
        in_lists['INP'] = [p.account for t, p in led.rows if p.units.number > 0]
    pre = Inv()
    for n, (i, r) in enumerate(zip(sel, got)):
        t, p = led.rows[i]
        pre.add_position(p)
        for j, tok in enumerate(toks):
            stats['cells'] += 1
            if tok == 'P':
                if not same_pos(r[j], pos_of(p)):
                    out.append(('balance:selection', f'{desc}: row {n} position {r[j]}, reference row has {pos_of(p)}'))
            elif tok == 'A':
                if r[j] != p.account:
                    out.append(('balance:selection', f'{desc}: row {n} account {r[j]}, reference row has {p.account}'))
            elif tok in ('B', 'UB', 'CB'):
                exp = pre if tok == 'B' else pre.reduce(convert.get_units if tok == 'UB' else convert.get_cost)
                stats['balance_refs'] += 1
                if r[j] != exp:
                    out.append((fp, f'{desc}: row {n} ({p.account} {p.units}) target {j} ({tok}) = {show(r[j])}, '
                                f'prefix sum of position over the selected rows = {show(exp)}'))
                stats['outcomes'].add(inv_key(r[j]))
            elif tok in NULLARG:
                cur = NULLARG[tok](p)
                stats['balance_refs'] += 1
                if cur is None:
                    # the call is NULL-strict (C01's business): its value on this row is not compared, but the
                    # posting still belongs to the prefix sum seen by every later row
                    stats['balance_refs_behind_null_argument'] += 1
                else:
                    exp = pre.get_currency_units(cur)
                    if tok == 'NOCB':
                        exp = exp.number
                    if r[j] != exp:
                        out.append((fp, f'{desc}: row {n} ({p.account} {p.units}) target {j} = {r[j]}, expected {exp}: the {cur} units of the '
                                    f'prefix sum of position over the selected rows {show(pre)} (rows where the leading argument is NULL included)'))
            else:
                lst = in_lists[tok]
                if lst and r[j] is not (p.account in lst):
                    out.append(('balance:where-in-subquery' if tok == 'INB' else 'in-subquery',
                                f'{desc}: row {n} target {j} = {r[j]!r}, expected {p.account in lst} (subquery accounts {sorted(set(lst))})'))
    # last balance == the implementation's sum(position) over the same selection
    bcols = [j for j, tok in enumerate(toks) if tok == 'B']
    if sel and bcols:
        if total is None:
            total = impl_total(led, wname, fname)
        stats['cells'] += 1
        for j in bcols:
            if got[-1][j] != total:
                out.append((fp if fp != 'balance:target-references' else 'balance:last-vs-sum',
                            f'{desc}: last balance (target {j}) = {show(got[-1][j])}, sum(position) of the selection = {show(total)}'))
                break
    if sel:
        stats['nonempty_selections'] += 1
    return out


# ---------------------------------------------------------------------------------------------
# (iv) grouped statements over the balance column: first()/last() keep one row's balance per group
# shape -> [(target text, ast builder, 'first'|'last', reference on the prefix inventory)]
GSHAPES = {
    'last,first': [
        ('last(balance)', lambda: F('last', col('balance')), 'last', lambda inv: inv),
        ('first(balance)', lambda: F('first', col('balance')), 'first', lambda inv: inv),
    ],
    'first,last(units),last(cost),last': [
        ('first(balance)', lambda: F('first', col('balance')), 'first', lambda inv: inv),
        ('last(units(balance))', lambda: F('last', F('units', col('balance'))), 'last', lambda inv: inv.reduce(convert.get_units)),
        ('last(cost(balance))', lambda: F('last', F('cost', col('balance'))), 'last', lambda inv: inv.reduce(convert.get_cost)),
        ('last(balance)', lambda: F('last', col('balance')), 'last', lambda inv: inv),
    ],
}
# every shape contains last(balance): the column only advances when it is evaluated, and first() stops
# evaluating its operand after the first row of a group -- with last(balance) in the statement every
# selected row consults the balance, which is what the prefix-sum reading presupposes
GSHAPE_GROUPS = {'last,first': ['account', 'currency', 'root', 'month'], 'first,last(units),last(cost),last': ['account', 'currency']}


def check_balgrp(led, wname, fname, gname, shape, stats):
    keys = GROUPS[gname][0]()
    nk = len(keys)
    spec = GSHAPES[shape]
    targets = [(k, f'k{i}') for i, k in enumerate(keys)] + [(mk(), f'c{i}') for i, (_, mk, _, _) in enumerate(spec)]
    stmt = select(targets, from_=FROM[fname][0](), where=WHERE[wname][0](), group_by=A.GroupBy(list(range(1, nk + 1)), None))
    desc = bql(GROUP_TEXT[gname] + ', ' + ', '.join(t for t, _, _, _ in spec), wname, fname, gname)
    try:
        got = led.conn.execute(stmt).fetchall()
    except Exception as e:
        return [(f'crash:{crash_fingerprint(e)}', f'{desc}: {type(e).__name__}: {e}')]
    stats['queries'] += 1
    sel = led.selected(wname, fname)
    keyf = GROUPS[gname][1]
    firsts, lasts = {}, {}
    pre = Inv()
    for i in sel:
        t, p = led.rows[i]
        pre.add_position(p)
        k = keyf(t, p)
        snap = copy.copy(pre)
        firsts.setdefault(k, snap)
        lasts[k] = snap
    gotmap = {tuple(r[:nk]): r[nk:] for r in got}
    if set(gotmap) != set(lasts) or len(got) != len(lasts):
        return [('group:keys', f'{desc}: groups {sorted(gotmap, key=repr)!r}, expected {sorted(lasts, key=repr)!r}')]
    out = []
    if len(lasts) > 1:
        stats['grouped_balance_statements_with_several_groups'] += 1
    for k in lasts:
        for j, (text, _, which, ref) in enumerate(spec):
            stats['cells'] += 1
            stats['balance_refs'] += 1
            exp = ref(firsts[k] if which == 'first' else lasts[k])
            if gotmap[k][j] != exp:
                out.append(('balance:grouped-first-last', f'{desc}: group {k!r} {text} = {show(gotmap[k][j])}, expected {show(exp)}: the prefix sum of position '
                            f'over ALL selected rows up to and including the group\'s {which} row'))
    return out


# ---------------------------------------------------------------------------------------------
# (iv) balance referenced ONLY lazily: the reference is not evaluated on every selected row (first() after a
# group's first row; the later operand of coalesce / OR / AND skipped by short-circuit).  Wherever the
# reference IS evaluated its value must still be the prefix sum over all selected rows so far.
# One fingerprint per shape: balance:lazy-reference|<shape>.
def _usd_ge0(inv):
    return inv.get_currency_units('USD').number >= 0


LAZY_GROUPS = ['account', 'currency', 'root', 'month']
LAZY = {
    'coalesce': ("coalesce(cost_number, number(only('HOOL', balance)))",
                 lambda: F('coalesce', col('cost_number'), F('number', F('only', C('HOOL'), col('balance')))),
                 lambda t, p, pre: p.cost.number if p.cost is not None else pre.get_currency_units('HOOL').number),
    'or': ("number > 0 OR number(only('USD', balance)) >= 0",
           lambda: A.Or([A.Greater(col('number'), C(0)), A.GreaterEq(F('number', F('only', C('USD'), col('balance'))), C(0))]),
           lambda t, p, pre: or3(p.units.number > 0, _usd_ge0(pre))),
    'and': ("number < 0 AND number(only('USD', balance)) >= 0",
            lambda: A.And([A.Less(col('number'), C(0)), A.GreaterEq(F('number', F('only', C('USD'), col('balance'))), C(0))]),
            lambda t, p, pre: and3(p.units.number < 0, _usd_ge0(pre))),
}


def check_lazy(led, wname, shape, gname, stats):
    fp = f'balance:lazy-reference|{shape}'
    sel = led.selected(wname, 'none')
    out = []
    if shape == 'first':
        keys = GROUPS[gname][0]()
        nk = len(keys)
        targets = [(k, f'k{i}') for i, k in enumerate(keys)] + [(F('first', col('balance')), 'f')]
        stmt = select(targets, where=WHERE[wname][0](), group_by=A.GroupBy(list(range(1, nk + 1)), None))
        desc = bql(GROUP_TEXT[gname] + ', first(balance)', wname, 'none', gname)
    else:
        text, mk, ref = LAZY[shape]
        stmt = select([(mk(), 'c0')], where=WHERE[wname][0]())
        desc = bql(text, wname)
    try:
        got = led.conn.execute(stmt).fetchall()
    except Exception as e:
        return [(f'crash:{crash_fingerprint(e)}', f'{desc}: {type(e).__name__}: {e}')]
    stats['queries'] += 1
    stats['lazy_reference_statements'] += 1
    pre = Inv()
    if shape == 'first':
        keyf = GROUPS[gname][1]
        firsts = {}
        for i in sel:
            t, p = led.rows[i]
            pre.add_position(p)
            firsts.setdefault(keyf(t, p), copy.copy(pre))
        gotmap = {tuple(r[:nk]): r[nk] for r in got}
        if set(gotmap) != set(firsts) or len(got) != len(firsts):
            return [('group:keys', f'{desc}: groups {sorted(gotmap, key=repr)!r}, expected {sorted(firsts, key=repr)!r}')]
        for k, exp in firsts.items():
            stats['cells'] += 1
            if gotmap[k] != exp:
                out.append((fp, f'{desc}: group {k!r} first(balance) = {show(gotmap[k])}, expected {show(exp)}: the prefix sum of position over ALL '
                            f'selected rows up to and including the group\'s first row (balance is not evaluated on the other rows of a group)'))
        return out
    if len(got) != len(sel):
        return [('balance:selection', f'{desc}: {len(got)} rows, reference selects {len(sel)}')]
    for n, (i, r) in enumerate(zip(sel, got)):
        t, p = led.rows[i]
        pre.add_position(p)
        exp = ref(t, p, pre)
        stats['cells'] += 1
        if r[0] != exp or (isinstance(exp, bool) and r[0] is not exp):
            out.append((fp, f'{desc}: row {n} ({p.account} {pos_of(p)}) = {r[0]!r}, expected {exp!r} with balance = prefix sum of position over all '
                        f'selected rows so far {show(pre)} (the reference is skipped on rows where the earlier operand decides)'))
    return out


# ---------------------------------------------------------------------------------------------
# (v) balance consulted by WHERE on every scanned row
def _usd(inv):
    return inv.get_currency_units('USD').number


def _no(cur):
    return lambda inv: all(pos.units.currency != cur for pos in inv)


BCOND = {
    'NOT empty(balance)': (lambda: A.Not(F('empty', col('balance'))), lambda inv, t, p: not inv.is_empty()),
    "number(only('USD', balance))>0": (lambda: A.Greater(F('number', F('only', C('USD'), col('balance'))), C(0)),
                                        lambda inv, t, p: _usd(inv) > 0),
    "empty(filter_currency(balance,'EUR'))": (lambda: F('empty', F('filter_currency', col('balance'), C('EUR'))),
                                              lambda inv, t, p: _no('EUR')(inv)),
    "number(only('USD', balance))>0 AND account~'Cash'": (
        lambda: A.And([A.Greater(F('number', F('only', C('USD'), col('balance'))), C(0)), A.Match(col('account'), C('Cash'))]),
        lambda inv, t, p: and3(_usd(inv) > 0, bool(re.search('Cash', p.account, re.IGNORECASE)))),
    "empty(filter_currency(balance,'HOOL')) OR number>0": (
        lambda: A.Or([F('empty', F('filter_currency', col('balance'), C('HOOL'))), A.Greater(col('number'), C(0))]),
        lambda inv, t, p: or3(_no('HOOL')(inv), p.units.number > 0)),
}
BPATTERNS = {'refs0': ['P'], 'refs1': ['P', 'B'], 'refs2': ['B', 'P', 'B']}


# FROM expressions that reject EARLIER entries, combined with a balance-reading WHERE: FROM decides first,
# the balance runs over the postings of the entries FROM keeps (WHERE is evaluated on every one of those)
BFROM = {
    'none': (lambda: None, None, lambda t: True),
    'date>=D1': (lambda: A.From(expression=A.GreaterEq(col('date'), C(L.DATES[1]))), f'date >= {L.DATES[1]}', lambda t: t.date >= L.DATES[1]),
    "narration~'t[12]-'": (lambda: A.From(expression=A.Match(col('narration'), C('t[12]-'))), "narration ~ 't[12]-'",
                           lambda t: bool(re.search('t[12]-', t.narration, re.IGNORECASE))),
}


def check_balw(led, cname, pname, stats, fname='none'):
    toks = BPATTERNS[pname]
    stmt = select([(TOK[tok](), f'c{i}') for i, tok in enumerate(toks)], from_=BFROM[fname][0](), where=BCOND[cname][0]())
    desc = bql(', '.join(TOK_TEXT[t] for t in toks), where_text=cname)
    if BFROM[fname][1]:
        desc = desc.replace(' WHERE ', f' FROM {BFROM[fname][1]} WHERE ', 1)
    scanned = [(t, p) for t, p in led.rows if BFROM[fname][2](t)]
    try:
        got = led.conn.execute(stmt).fetchall()
    except Exception as e:
        return [(f'crash:{crash_fingerprint(e)}', f'{desc}: {type(e).__name__}: {e}')]
    stats['queries'] += 1
    ref = BCOND[cname][1]
    exp = []
    pre = Inv()
    for t, p in scanned:
        pre.add_position(p)
        if ref(pre, t, p) is True:
            exp.append((p, copy.copy(pre)))
    stats['rows_scanned_with_balance'] += len(scanned)
    if 0 < len(scanned) < len(led.rows):
        stats['balance_in_where_behind_from_filter'] += 1
    if len(exp) < len(scanned):
        stats['balw_filtering_cases'] += 1
    if len(got) != len(exp):
        return [('balance:where', f'{desc}: {len(got)} rows selected, reference (balance = sum over all rows scanned so far) selects {len(exp)}')]
    out = []
    for n, (r, (p, inv)) in enumerate(zip(got, exp)):
        for j, tok in enumerate(toks):
            stats['cells'] += 1
            if tok == 'P' and not same_pos(r[j], pos_of(p)):
                out.append(('balance:where', f'{desc}: row {n} is {r[j]}, reference selects {pos_of(p)}'))
            elif tok == 'B':
                stats['balance_refs'] += 1
                if r[j] != inv:
                    out.append(('balance:where', f'{desc}: row {n} target {j} balance = {show(r[j])}, sum over all postings scanned so far = {show(inv)}'))
    return out


# ---------------------------------------------------------------------------------------------
class Stats(dict):
    def __missing__(self, k):
        v = set() if k in ('outcomes', 'nontrivial_f') else 0
        self[k] = v
        return v


def run_case(led, case, stats, fdates=None, total=None, totals=None):
    kind = case['kind']
    if kind == 'agg':
        return check_agg(led, case['where'], case['from'], case['group'], fdates or [unjson(d) for d in case['fdates']], stats, totals)
    if kind == 'sub':
        return check_sub(led, case['where'], case['from'], case['group'], stats)
    if kind == 'bal':
        return check_bal(led, case['where'], case['from'], case['pattern'], stats, total)
    if kind == 'balw':
        return check_balw(led, case['cond'], case['pattern'], stats, case.get('from', 'none'))
    if kind == 'invsub':
        return check_invsub(led, case['where'], case['inner'], case['outer'], case['shape'], stats)
    if kind == 'lazy':
        return check_lazy(led, case['where'], case['shape'], case['group'], stats)
    if kind == 'balgrp':
        return check_balgrp(led, case['where'], case['from'], case['group'], case['shape'], stats)
    if kind == 'invtab':
        return check_invtab(led, case['variant'], case['gcol'], case['shape'], stats)
    raise AssertionError(kind)


def replay(case):
    if case.get('variant'):
        # the doubled-rates ledger is only ever checked right after the same ledger with the ordinary rates
        base = Ledger(case['seq'], case['seed'], 0)
        run_case(base, dict(case, variant=0), Stats())
    led = Ledger(case['seq'], case['seed'], case.get('variant', 0))
    stats = Stats()
    totals = None
    if case['kind'] == 'agg' and case['group'] != 'none':
        totals = {}
        run_case(led, dict(case, group='none'), Stats(), totals=totals)
    out = run_case(led, case, stats, totals=totals)
    return [Violation(fp, f'ledger {list(led.seq)}: {msg}', case) for fp, msg in out]


def sample_of(led):
    """One explored case written out: the ledger, two of its statements and what the implementation returned."""
    w, f = "account~'Inv|Cash'", 'date<D2'
    rows = led.conn.execute(bal_statement(w, f, 'refs2-around')).fetchall()
    agg, nk = agg_statement(w, f, 'currency', [])
    grows = led.conn.execute(agg).fetchall()
    return {'ledger': list(led.seq), 'postings': [f'{t.date} {p.account} {pos_of(p)}' for t, p in led.rows],
            'statement_1': f'SELECT balance, position, balance FROM {f} WHERE {w}',
            'rows_1': [[str(v) for v in r] for r in rows],
            'statement_2': f'SELECT currency, sum(position), sum(units(position)), ..., units(sum(position)), sum(units(position)), '
                           f'cost(sum(position)), sum(cost(position)), ... FROM {f} WHERE {w} GROUP BY 1',
            'rows_2_first_3_columns': [[str(v) for v in r[:3]] for r in grows]}


def shard(shard_i, nshards, n, seed, tier):
    acc = Acc()
    fdates = func_dates(tier, seed)
    for idx, seq in enumerate(L.sequences(n)):
        # idx % nshards would correlate with the last template(s) of the sequence (8 | 16): mix first
        if not mine(zlib.crc32(','.join(seq).encode()), shard_i, nshards):
            continue
        acc.count('ledgers_generated')
        if L.load(seq, seed)[1]:
            acc.count('ledgers_skipped_unbookable')
            continue
        led = Ledger(seq, seed)
        acc.count('ledgers')
        acc.count('postings', len(led.rows))
        stats = Stats()

        def emit(case, out):
            acc.count('statements')
            for fp, msg in out:
                acc.violation(fp, f'ledger {list(seq)}: {msg}', case)

        for wname in WHERE:
            for fname in FROM:
                sel = led.selected(wname, fname)
                acc.add('selection_sizes', len(sel))
                nullrows = sum(1 for t, p in led.rows if WHERE[wname][1](t, p) is None)
                acc.count('rows_filtered_by_NULL', nullrows)
                if sel:
                    acc.count('nontrivial_selections')
                totals = {}
                for gname in GROUPS:
                    case = led.case('agg', where=wname, **{'from': fname}, group=gname, fdates=fdates)
                    emit(case, run_case(led, case, stats, fdates=fdates, totals=totals))
                    if gname != 'none':
                        case = led.case('sub', where=wname, **{'from': fname}, group=gname)
                        emit(case, run_case(led, case, stats))
                total = totals.get('vals', [Inv()])[0]
                for pname in PATTERNS:
                    case = led.case('bal', where=wname, **{'from': fname}, pattern=pname)
                    emit(case, run_case(led, case, stats, total=total))
                for shape, gnames in GSHAPE_GROUPS.items():
                    for gname in gnames:
                        case = led.case('balgrp', where=wname, **{'from': fname}, group=gname, shape=shape)
                        emit(case, run_case(led, case, stats))
        for wname in WHERE:
            for shape, gnames in [('first', LAZY_GROUPS)] + [(sh, [None]) for sh in LAZY]:
                for gname in gnames:
                    case = led.case('lazy', where=wname, shape=shape, group=gname)
                    emit(case, run_case(led, case, stats))
        for cname in BCOND:
            for pname in BPATTERNS:
                for bf in BFROM:
                    case = led.case('balw', cond=cname, pattern=pname, **{'from': bf})
                    emit(case, run_case(led, case, stats))
        # the same ledger with every rate doubled, right after (and, for the next ledger, right before) the
        # ordinary rates in the same process: nothing about prices may survive a connection
        # ... and with the latest rate of every pair exactly zero (variant 2): a zero price is a price
        for variant in (1, 2):
            led2 = Ledger(seq, seed, variant)
            acc.count('price_variant_ledgers' if variant == 1 else 'zero_price_ledgers')
            for gname in ('none', 'account'):
                case = led2.case('agg', where='none', **{'from': 'none'}, group=gname, fdates=fdates)
                emit(case, run_case(led2, case, stats, fdates=fdates))
        source_before = [(t.date, t.narration, p.account, p.units, p.cost, p.price) for t, p in led.rows]
        for shape in ISHAPES:
            for wname in IWHERE:
                for igname, outers in IGROUPS.items():
                    for ogname in outers:
                        case = led.case('invsub', where=wname, inner=igname, outer=ogname, shape=shape)
                        emit(case, run_case(led, case, stats))
            for variant in ('postings', 'accounts'):
                for gcol in (None, 'g', 'k'):
                    case = led.case('invtab', variant=variant, gcol=gcol, shape=shape)
                    emit(case, run_case(led, case, stats))
        # the ledger itself must come out of all the statements above unchanged
        acc.count('ledger_snapshots_compared')
        if [(t.date, t.narration, p.account, p.units, p.cost, p.price) for t, p in L.postings(led.entries)] != source_before:
            acc.violation('source:ledger-mutated', f'ledger {list(seq)}: the loaded entries changed while the statements ran', led.case('ledger'))
        for k, v in stats.items():
            if isinstance(v, set):
                for item in v:
                    acc.add(k, item)
            else:
                acc.count(k, v)
        if len(seq) >= 3 and len(set(seq)) == 3 and L.richness(seq)[0] >= 13:
            acc.sample(sample_of(led), limit=1)
    return acc


def minimise(violations, n):
    """Shards report in shard order; put, per fingerprint, the smallest ledger (shortest-first enumeration
    order) exhibiting the same defect in front: every kept case of the fingerprint is re-run with its own
    statement on the smaller ledgers, and the overall smallest witness goes first."""
    order = {seq: i for i, seq in enumerate(L.sequences(n))}
    by_fp = {}
    for v in violations:
        by_fp.setdefault(v.fingerprint, []).append(v)
    out = []
    for fp, vs in by_fp.items():
        best = src = None
        for v0 in vs:
            v = v0
            for seq in L.sequences(len(v.case['seq'])):
                if list(seq) == v.case['seq']:
                    break
                if best is not None and order[seq] >= order[tuple(best.case['seq'])]:
                    break
                if L.load(seq, v.case['seed'])[1]:
                    continue
                small = [w for w in replay(dict(v.case, seq=list(seq))) if w.fingerprint == fp]
                if small:
                    v = small[0]
                    break
            if best is None or order[tuple(v.case['seq'])] < order[tuple(best.case['seq'])]:
                best, src = v, v0
        out.append(best)
        out.extend(v for v in vs if v is not src)
    return out


def run(ctx):
    n = ctx.pick(3, 4)
    acc = run_shards(shard, ctx.jobs, n, ctx.seed, ctx.tier)
    c = acc.n
    fdates = func_dates(ctx.tier, ctx.seed)
    violations = minimise(acc.violations, n)
    assert c['ledgers'] + c['ledgers_skipped_unbookable'] == c['ledgers_generated']
    cov = {
        'states': c['statements'],
        'transitions': c['cells'],
        'traces_validated_against_impl': c['queries'],
        'evaluations': c['statements'],
        'distinct_nontrivial': len(acc.sets['outcomes']),
        'rule': 'a case is one (ledger, statement) pair: ledger = sequence of <= n transaction templates, statement = one of the '
                'aggregate / sum-of-sums / balance-in-targets / balance-in-WHERE shapes over the selection and grouping menus; '
                'transitions = result cells compared with the Inventory fold; distinct & non-trivial = distinct inventory values '
                '(crc of the printed inventory) observed as sum(position) of a group or as a balance reference',
        'exhaustive': True,
        'bound': f'all sequences of <= {n} transactions over {len(L.ALPHABET)} templates',
        'ledgers_generated': c['ledgers_generated'],
        'ledgers_checked': c['ledgers'],
        'ledgers_skipped_unbookable': c['ledgers_skipped_unbookable'],
        'postings_total': c['postings'],
        'queries_executed': c['queries'],
        'groups_compared': c['groups'],
        'rows_folded_by_reference': c['rows_folded'],
        'balance_references_compared': c['balance_refs'],
        'grouped_balance_statements_with_several_groups': c['grouped_balance_statements_with_several_groups'],
        'ledgers_rechecked_with_doubled_rates': c['price_variant_ledgers'],
        'ledgers_rechecked_with_latest_rates_zero': c['zero_price_ledgers'],
        'groups_holding_a_commodity_priced_at_zero': c['groups_holding_a_commodity_priced_at_zero'],
        'balance_in_where_behind_from_filter_statements': c['balance_in_where_behind_from_filter'],
        'lazy_reference_statements': c['lazy_reference_statements'],
        'balance_references_behind_a_NULL_argument': c['balance_refs_behind_null_argument'],
        'rows_scanned_with_balance_in_where': c['rows_scanned_with_balance'],
        'balance_in_where_cases_that_filter': c['balw_filtering_cases'],
        'empty_selection_statements': c['empty_selections'],
        'nonempty_selection_balance_statements': c['nonempty_selections'],
        'rows_filtered_out_by_NULL_condition': c['rows_filtered_by_NULL'],
        'distinct_selection_sizes': sorted(acc.sets['selection_sizes']),
        'distinct_function_results_differing_from_input': len(acc.sets['nontrivial_f']),
        'violating_cases': c['violating_cases'],
        'user_table_snapshots_compared': c['source_snapshots_compared'],
        'inventory_column_groups_with_several_rows': c['inventory_column_groups_with_several_rows'],
        'alphabet': {
            'inventory_column_shapes': ISHAPES, 'inventory_column_where': IWHERE,
            'templates': L.ALPHABET, 'where': list(WHERE), 'from': list(FROM), 'groupings': list(GROUPS),
            'sum_forms': [s[0] for s in SUMFORMS], 'functions': [f[0] for f in functions(fdates)],
            'balance_target_patterns': PATTERNS, 'balance_where_conditions': list(BCOND),
            'balance_where_patterns': BPATTERNS, 'prices': [list(map(str, p)) for p in L.price_schedule(ctx.seed)],
            'prices_doubled': [list(map(str, p)) for p in L.price_schedule(ctx.seed, 1)],
            'prices_latest_zero': [list(map(str, p)) for p in L.price_schedule(ctx.seed, 2)],
        },
        'samples': acc.samples[:6],
    }
    return Result(cov, violations, assumptions=[
        'first()/last() over an inventory column: any one of the values of the group is accepted (row order of a subquery is not part of C12)',
        'ungrouped aggregate over an empty selection: no row or one row of empty inventories both accepted; group order not compared',
        'balance-in-WHERE cases only use conditions that evaluate the balance term on every scanned row (first operand, no FROM expression)',
        'value of the intervening IN target compared only when its subquery returns rows',
        'exchange rates restricted to values whose reciprocal terminates; beancount Inventory/convert/prices are trusted',
        'a price directive of exactly 0 is a price (beancount.core.convert values the position at 0 <quote>, which an Inventory drops), '
        'not a missing price; the doubled and the zero price maps are only run through the ungrouped / GROUP BY account aggregate '
        'statement without WHERE / FROM filter (all sum forms and functions), on every ledger',
    ])
