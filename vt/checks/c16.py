"""C16 -- Text and CSV rendering are aligned, complete and faithful to the values.

Technique: bounded-exhaustive enumeration (E-enum) of result tables x rendering options on the real
``render_text`` / ``render_csv``; the emitted text is *read back* by ``vt.ref.render`` (frame -> column
spans -> cells -> values) and compared with the values that were rendered.  No expectation is computed
by calling beanquery.

E  tables   for each of the 12 column datatypes (int, decimal, str, date, bool, set, dict, object, Amount,
            Position, Cost, Inventory): every column of 0..3 cells over the datatype's alphabet (NULL,
            negatives, zero, differing precision, equal numbers of different scale (0.5 / 0.50, 1 / TRUE in object columns), numbers whose rounding to the display precision carries into a new
            leading digit, cost labels of different lengths, single-position inventories before and after multi-lot ones of the same commodity, 1/3, scientific notation, six currencies, empty / multi-lot /
            seven-slot inventories ...), once with a one-letter header and once with a 20-letter header (quick
            tier: 0..2 cells under the long header);
            every ordered pair of datatypes side by side with 1..2 rows over reduced alphabets; the empty
            result (0 rows) of every datatype, also through beanquery.render.text.render.
   options  boxed x unicode x spaced x expand x narrow x nullvalue {'', 'NULL'} x listsep {'  ', ', '}
            (+ the same with the placeholder ' - ', which has blanks of its own: quick tier on single columns of <= 2 cells
            and one-row pairs, thorough tier on every table):
            all 128 for single columns (both tiers); for pairs a 16-run orthogonal array of strength 3 (every
            combination of any three options occurs) in the quick tier, all 128 in the thorough tier.
O  text     (1) every line has the same width; (2) the rule lines give the column spans, all rule lines agree,
            the frame is ASCII unless unicode is on; (3) on header and body lines everything outside the spans
            is blank / a column separator; (4) header: the name, centred (left and right blanks differ by at
            most one), cut (to a piece of the name exactly as wide as the column) only when narrow is on;
            (5) body: row i occupies max(1, lots of its inventory cells) lines with expand and exactly one line
            without, followed by one blank line with spaced (the one after the last row is optional); (6) NULL
            shows exactly the placeholder; (7) read-back of every non-NULL cell: int, decimal, str, date, bool
            exactly, set = its items joined by listsep, dict/object = a literal equal to the value, Amount =
            "<number> <currency>" with the number at the ledger's display precision for that currency
            (that many fractional digits, within half a unit of the last place), Position = units [+ {per-unit
            cost}] likewise, Cost = number currency, date, "label", Inventory = the multiset of its lots, each
            read like a Position (one per line with expand); (8) in decimal and Amount columns the decimal
            points of all non-NULL cells are at the same offset; (9) fixed offsets inside amount-like cells
            ("columns start at fixed offsets", InventoryRenderer / PositionRenderer docstrings): in a Position column
            the decimal point and the currency symbol of the units, and of the cost where there is one, are at the
            same offset in every row; in an Inventory column rendered WITHOUT expand in the tabular layout the same
            holds for the n-th lot of every commodity over all rows holding one (so a commodity's sub-column does
            not move when an earlier commodity is absent, or held without cost).
   format   the registered 'text' output format (beanquery.render.text.render = shell FORMATS['text'], the entry point of the
            shell and of embedders) is called on every non-empty table with the same seven options plus the shell's settings
            that are not about text (format, numberify, pager), as the shell does (**Settings.todict()): its text falls under
            clauses (1)-(9) with the options it was handed (narrow off -> no header cut, boxed -> frame, ...).  A text identical
            to the one of render_text just read back is not read a second time; any other text is read back in full.
            Quick tier: single columns of <= 2 cells and one-row pairs on all their option combinations, single columns of 3
            cells on the 16-run array, two-row pairs not; thorough tier: every table x every option combination.
   CSV      first record = the column names; then one record per (expanded) line of every row, each with one
            field per column; each field, stripped, equals the stripped text cell of the rendering with the same
            expand / nullvalue (for set and inventory cells: the same tokens, separators being listsep in text
            and ',' in CSV).  The CSV obtained through beanquery.render.csv.render with ALL seven options (the shell
            hands every setting to every renderer) is identical to the one obtained with expand / nullvalue alone:
            boxed, spaced, narrow, unicode and listsep do not change it (one record per (expanded) row, items joined
            by commas); quick tier: on all 128 combinations for tables of <= 2 rows, on the 16-run array for 3 rows.
S  weakest readings: see ``ASSUMPTIONS``.
"""
import io
import itertools
import json

import beanquery.render.csv
import beanquery.render.text
from beanquery import Column
from beanquery.query_render import render_csv, render_text

from ..harness import crash_fingerprint
from ..par import mine, run_shards, Acc
from ..ref import render as R
from ..runner import Result, Violation

import datetime
from decimal import Decimal as D

LEVEL = 'model_checking'

ASSUMPTIONS = [
    'widths are counted in code points (len); strings contain no newline, tab, East-Asian wide or combining characters',
    'a string (and the NULL placeholder) may have blanks of its own: the text cell must hold the exact string inside its span and nothing else but padding, '
    'the CSV field must hold the exact string too (padding around it is tolerated, as the property says "padding aside"); set items with blanks are outside '
    '(tags, links and account names cannot contain any)',
    'centred = blanks left and right of the header differ by at most one (which side gets the odd blank is not specified)',
    'a header cut in narrow mode may be any piece of the name exactly as wide as the column',
    'the blank line of the spaced option after the LAST row is optional; which line of an expanded row carries the single-valued cells is not specified',
    'an (expanded) row always occupies at least one line / one CSV record, also when all its cells are empty inventories',
    'amounts: read back at the display precision of the ledger the display context comes from (USD 2, HOOL 3, EUR 0, GBP 2, CAD 2, JPY 0 '
    'fractional digits); the rounding rule is not specified (half a unit either way accepted); currencies unknown to the ledger are outside',
    'positions: units and per-unit cost number/currency must read back; cost date and label of a Position / Inventory lot need not be shown; '
    'a Cost-typed cell must show number, currency, date and label',
    'decimals: numeric equality on read-back (trailing zeros are not compared); a decimal with a POSITIVE exponent (1E+3) counts as an integral part: its '
    'string ends at the decimal-point offset of the column; only NEGATIVE-exponent scientific notation (1E-7) is exempt from the alignment clause; '
    'NaN / Infinity are outside',
    'dates read back as year-month-day integers (a year below 1000 printed without leading zeros is accepted)',
    'decimal-point alignment across ALL rows is required of decimal and Amount columns; Position columns and the n-th lot of each commodity of '
    'non-expanded Inventory columns must keep decimal point and currency symbol at one offset; Inventory columns needing more than 5 slots '
    '(sum over commodities of the most lots one row holds) are exempt because the renderer documents a plain list there ("Too many distinct '
    'commodities to present in tabular format"); expanded Inventory columns and Cost columns are not covered',
    'CSV is compared with the text rendering, as the property states; set / inventory fields are compared token-wise because the item separator differs',
    'the registered text format is handed listsep along with the shell settings (the shell itself has no list-separator setting and never passes it; '
    'an embedder may); an option the entry point is handed must have the effect the property states for it',
    'display contexts with render_commas, and column names containing blanks at the ends, are outside',
]

DTORDER = ['int', 'decimal', 'str', 'date', 'bool', 'set', 'dict', 'object', 'amount', 'position', 'cost', 'inventory']
LISTLIKE = (set, R.Inventory)
GENERIC_LOCI = {'header', 'header-centre', 'header-cut', 'frame', 'null', 'spacing', 'csv-header', 'csv-options', 'csv-null', 'empty'}


def _rot(seq, seed):
    return seq[seed % len(seq)]


def alphabets(seed, thorough):
    """Boundary core + seed-rotated ordinary members.  -> (full, reduced) alphabets by datatype name.
    The thorough tier adds members (marked +) to both."""
    A, C, P, I = R.A, R.C, R.P, R.I
    d1, d2 = datetime.date(2020, 1, 3), datetime.date(2019, 12, 31)
    o_int = _rot([7, 42, 9, 63], seed)
    o_big = _rot([12345, 100000, 987654], seed)
    # ordinary decimals whose integral part is longer than any scientific-notation string of the alphabet
    o_dec = _rot([D('98765432.10'), D('1234567.8'), D('500125.125')], seed)
    o_amt = _rot(['1.5', '2.5', '12.5', '7.25'], seed)
    o_str = _rot(['Ab cd', 'Xy z', 'Hello w'], seed)
    # more digits than the display precision AND rounding carries into a new leading digit (99.996 USD shows as 100.00)
    carry = _rot(['99.996', '9.999', '999.996', '99.996'], seed)
    long_label = 'lot-2019-long'
    hool1 = P('1.123', 'HOOL', C('2.50', 'USD', d1, 'lbl'))
    hool2 = P('2.000', 'HOOL', C('3.00', 'USD', d1))
    hool3 = P('1', 'HOOL', C('4.00', 'USD', d2))
    inv2 = I(P('-8.80750', 'USD'), P('2.5', 'HOOL', C('3', 'USD', d1)))
    inv3 = I(P('-7', 'EUR'), hool2, hool3)
    invmix = I(P('2', 'HOOL'), P('30.00', 'USD'))     # HOOL without cost, while other rows hold it at cost
    inv7 = I(P('1', 'USD'), P('2', 'EUR'), hool2, hool3, P('4.5', 'GBP'), P('5', 'CAD'), P('600', 'JPY'))
    inv_carry = I(P(carry, 'USD'), hool2)
    # a whole inventory that is ONE position of a commodity of which other rows (inv3, inv7) hold two lots
    one_hool_cost = I(P('5', 'HOOL', C('3.00', 'USD', d1)))
    one_hool = I(P('3', 'HOOL'))
    plus = (lambda *v: list(v)) if thorough else (lambda *v: [])
    full = {
        'int': [None, -300, 0, o_int, o_big],
        'decimal': [None, D('-1.5'), D('0'), D('0.50'), o_dec, D('1E+3'), D('-0.001'), D(1) / D(3), D('0.5')]     # 0.5 == 0.50, 0 == 0.00: equal numbers that render differently
                   + plus(D('2'), D('1E-7'), D('0.00'), D('-1.500'), D('1.2E+3'), D('-5E+1')),
        'str': [None, '', o_str, 'x' * 12, 'p,q', 'é"r', '  Indented', 'Cafe ', '  '] + plus('a', ' b '),
        'date': [None, datetime.date(2020, 2, 29), datetime.date(1999, 12, 31), datetime.date(900, 1, 1)],
        'bool': [None, True, False],
        'set': [None, frozenset(), frozenset({'a'}), frozenset({'a', 'bcd'})],
        'dict': [None, {}, {'k': 1}, {'filename': '<string>', 'lineno': 11}],
        'object': [None, D('2.50'), 'x', datetime.date(2020, 1, 2), True, {'k': 1}, 1],      # 1 == True, rendered differently
        'amount': [None, A(o_amt, 'USD'), A('-1000', 'HOOL'), A('0', 'EUR'), A('3.14159', 'USD'), A('-2.80750', 'USD'), A(carry, 'USD')]
                  + plus(A('100', 'JPY'), A('9.9996', 'HOOL')),
        'position': [None, hool1, P('-3', 'USD'), hool2, P('7', 'EUR'), P('-2.80750', 'USD'), P(carry, 'USD'), P('1', 'HOOL', C(carry, 'USD', d1))],
        'cost': [None, C('2.50', 'USD', d1, 'lbl'), C('3.00', 'USD', d1), C('1234.5678', 'EUR', d2), C(carry, 'USD', d1, 'x'), C('100.00', 'USD', d1, ''),     # an EMPTY label is not no label
                 C('3.00', 'USD', d2, long_label)],      # labels of 1, 3 and 13 letters and none, in every row order
        'inventory': [None, I(), I(P('1', 'USD')), one_hool_cost, one_hool, invmix, inv2, inv3, inv7, inv_carry] + plus(I(P('-8.80750', 'USD'), P('7', 'EUR'), hool1, hool2)),
    }
    reduced = {
        'int': [None, -300, o_int],
        'decimal': [None, D('-1.5'), D('0.50'), o_dec] + plus(D('0.5')),
        'str': [None, '', o_str, ' b '],
        'date': [None, datetime.date(2020, 2, 29)],
        'bool': [None, True, False],
        'set': [None, frozenset(), frozenset({'a', 'bcd'})],
        'dict': [None, {'k': 1}],
        'object': [None, D('2.50'), 'x'],
        'amount': [None, A(o_amt, 'USD'), A('-1000', 'HOOL'), A('3.14159', 'USD'), A(carry, 'USD')] + plus(A('0', 'EUR')),
        'position': [None, hool1, P('-3', 'USD')],
        'cost': [None, C('2.50', 'USD', d1, 'lbl'), C('1234.5678', 'EUR', d2), C('3.00', 'USD', d2, long_label)],
        'inventory': [None, I(), one_hool_cost, invmix, inv2, inv3],
    }
    return full, reduced


def all_options():
    out = []
    for boxed, unicode, spaced, expand, narrow in itertools.product([False, True], repeat=5):
        for null in ('', 'NULL'):
            for sep in ('  ', ', '):
                out.append(dict(boxed=boxed, unicode=unicode, spaced=spaced, expand=expand, narrow=narrow, nullvalue=null, listsep=sep))
    return out


BLANK_NULL = ' - '

# what the shell hands to an output format besides the rendering options (shell.Settings.todict())
SHELL_ONLY_SETTINGS = {'format': 'text', 'numberify': False, 'pager': False}


def blank_null_options(base):
    """The runs of ``base`` that use the 'NULL' placeholder, with a placeholder that has surrounding blanks instead."""
    return [dict(o, nullvalue=BLANK_NULL) for o in base if o['nullvalue'] == 'NULL']


def oa16_options():
    """2^(7-3) fractional factorial of resolution IV (generators E=ABC, F=BCD, G=ACD): 16 runs in which
    every combination of any three of the seven options occurs."""
    out = []
    for a, b, c, d in itertools.product([0, 1], repeat=4):
        e, f, g = a ^ b ^ c, b ^ c ^ d, a ^ c ^ d
        out.append(dict(boxed=bool(a), expand=bool(b), narrow=bool(c), nullvalue='NULL' if d else '', unicode=bool(e), spaced=bool(f),
                        listsep=', ' if g else '  '))
    return out


def tables(seed, thorough):
    """Deterministic, simplest-first enumeration of (kind, names, dtype names, rows)."""
    full, reduced = alphabets(seed, thorough)
    for t in DTORDER:
        for name in ('c', 'a_rather_long_header'):
            # quick tier: the long header (which only interacts with the column width) on columns of <= 2 cells
            for n in range(0, 4 if (thorough or name == 'c') else 3):
                for vals in itertools.product(full[t], repeat=n):
                    yield ('single', (name,), (t,), [(v,) for v in vals])
    for t1 in DTORDER:
        for t2 in DTORDER:
            cells = list(itertools.product(reduced[t1], reduced[t2]))
            for n in (1, 2):
                for rows in itertools.product(cells, repeat=n):
                    yield ('pair', ('a', 'long_header_b'), (t1, t2), list(rows))


# -- the oracle on one (table, options) --------------------------------------------------------------

def row_lines(row, dtypes, expand):
    n = 1
    if expand:
        for v, t in zip(row, dtypes):
            if t is R.Inventory and v is not None:
                n = max(n, len(v.get_positions()))
    return n


def row_all_empty_inventories(row, dtypes):
    return all(t is R.Inventory and v is not None and not v.get_positions() for v, t in zip(row, dtypes))


def check_cell(dtype, v, colcells, o, stats):
    """colcells: the full-width cells of one column over the lines of one row.
    -> (locus, message) or None; the carrying cell is returned through stats['cell']."""
    nonblank = [c for c in colcells if c.strip()]
    stats['cell'] = None
    if v is None:
        stats['null'] += 1
        null = o['nullvalue']
        if null.strip() == '':      # an empty or all-blank placeholder: blank cells wide enough to hold it
            bad = nonblank != [] or not any(null in c for c in colcells)
        else:                       # the placeholder, with its own blanks, inside the span of exactly one line
            bad = len(nonblank) != 1 or null not in nonblank[0] or nonblank[0].strip() != null.strip()
        if bad:
            return ('null', f'NULL is shown as {[c for c in colcells]!r}, expected the placeholder {null!r}')
        return None
    stats['readback'] += 1
    if dtype is R.Inventory and o['expand']:
        for c in nonblank:
            if not R.POS_RE.fullmatch(c.strip()):
                return ('readback', f'expanded inventory line {c!r} is not exactly one position')
        msg = R.read_positions('\n'.join(colcells), v.get_positions(), v)
        return ('readback', msg) if msg else None
    if len(nonblank) > 1:
        return ('readback', f'single-valued {R.show(v)} is spread over several lines {colcells!r}')
    cell = nonblank[0] if nonblank else colcells[0]
    stats['cell'] = cell
    if isinstance(v, str):
        # a string is read inside its column span: its own leading / trailing blanks must be there, the rest is padding
        if v not in cell or cell.strip() != v.strip():
            return ('readback', f'{v!r}: the cell {cell!r} is not this string plus padding')
        return None
    msg = R.read_scalar(dtype, v, cell.strip(), o['listsep'])
    return ('readback', f'{R.show(v)}: {msg}') if msg else None


def check_text(names, dtypes, rows, o, stats):
    """-> (problems [(locus, column or None, message)], records or None).  records = per body line
    (spacing lines left out) the list of cells, for the CSV comparison."""
    cols = [Column(n, t) for n, t in zip(names, dtypes)]
    f = io.StringIO()
    stats['text'] = None
    try:
        render_text(cols, rows, R.display_context(), f, **o)
    except Exception as e:    # noqa: BLE001 - any crash of the renderer is a finding
        return [(crash_fingerprint(e), None, f'render_text raised {type(e).__name__}: {e}')], None
    text = f.getvalue()
    stats['text'] = text
    return analyse_text(text, names, dtypes, rows, o, stats)


def analyse_text(text, names, dtypes, rows, o, stats):
    """The text oracle (clauses 1-9) on one emitted text, whichever entry point wrote it."""
    cols = names
    try:
        spans, header, body = R.read_text(text, len(cols), o['boxed'], o['unicode'])
    except R.Problem as p:
        return [(p.locus, None, p.message)], None
    probs = []
    for j, (name, cell) in enumerate(zip(names, header)):
        stats['headers'] += 1
        if len(name) > len(cell):
            stats['headers_cut'] += 1
        pr = R.check_header(name, cell, o['narrow'])
        if pr:
            probs.append((pr[0], j, pr[1]))
    expand, spaced = o['expand'], o['spaced']
    nl = [row_lines(r, dtypes, expand) for r in rows]
    if max(nl, default=1) > 1:
        stats['expanded_tables'] += 1
    # lines per row if rows made of empty inventories only were to vanish (they must not)
    nl0 = [0 if (expand and row_all_empty_inventories(r, dtypes)) else n for r, n in zip(rows, nl)]
    got = walk_body(body, nl, dtypes, rows, o, stats)
    if got is None or (got[0] and nl0 != nl):
        alt = walk_body(body, nl0, dtypes, rows, o, stats) if nl0 != nl else None
        if alt is not None and (got is None or len(alt[0]) < len(got[0])):
            gone = [i for i, (a, b) in enumerate(zip(nl, nl0)) if a != b]
            msg = f'row(s) {gone} (all cells empty inventories) occupy no line at all: {len(body)} body lines for {len(rows)} rows'
            return probs + [('row-dropped', None, msg)] + alt[0], None
        if got is None:
            total = sum(nl) + (len(rows) if spaced else 0)
            probs.append(('line-count', None, f'{len(body)} body lines, expected {total} (lines per row {nl}, spaced={spaced}, expand={expand})'))
            return probs, None
    return probs + got[0], got[1]


def walk_body(body, nl, dtypes, rows, o, stats):
    """Match the body lines with the rows under the hypothesis that row i occupies nl[i] lines.
    -> None when the number of lines does not fit, else (problems, records)."""
    spaced = o['spaced']
    total = sum(nl) + (len(rows) if spaced else 0)
    if len(body) not in ((total, total - 1) if (spaced and rows) else (total,)):
        return None
    probs = []
    k = 0
    records = []
    spans = []      # per row: the slice of records it occupies
    dots = [set() for _ in dtypes]
    # lots[j]: (commodity, n-th lot of it, 'units' / 'cost') -> offsets seen; None = column exempt / not amount-like
    lots = [lot_table(t, [r[j] for r in rows], o['expand'], stats) for j, t in enumerate(dtypes)]
    for i, row in enumerate(rows):
        lines = body[k:k + nl[i]]
        k += nl[i]
        if spaced and k < len(body):
            if any(c.strip() for c in body[k]):
                probs.append(('spacing', None, f'the line after row {i} should be blank with spaced=True: {body[k]!r}'))
            k += 1
        spans.append((len(records), len(records) + len(lines)))
        records.extend(lines)
        if not lines:
            continue
        for j, (t, v) in enumerate(zip(dtypes, row)):
            colcells = [ln[j] for ln in lines]
            pr = check_cell(t, v, colcells, o, stats)
            if pr:
                probs.append((pr[0], j, f'row {i} column {j} ({R.DTNAME[t]}): {pr[1]}'))
            elif v is not None and (t is D or t is R.Amount):
                off = R.dot_offset(t, stats['cell'])
                if off is None and t is D and v.as_tuple().exponent > 0:
                    # positive exponent (1.2E+3, as ROUND(x, -2) gives): the whole string is the integral part and ends
                    # where the decimal point of the column is
                    off = len(stats['cell'].rstrip())
                    stats['align_scientific_integral'] += 1
                if off is None:
                    stats['align_exempt'] += 1
                else:
                    dots[j].add(off)
            elif v is not None and lots[j] is not None:
                for cur, nth, units, cost in R.lot_offsets(stats['cell']):
                    key = cur if t is R.Inventory else '*'      # a Position column has one renderer for all commodities
                    lots[j].setdefault((key, nth, 'units'), []).append(units)
                    if cost is not None:
                        lots[j].setdefault((key, nth, 'cost'), []).append(cost)
    for j, s in enumerate(dots):
        if s:
            stats['align_columns'] += 1
        if len(s) > 1:
            probs.append(('align', j, f'column {j} ({R.DTNAME[dtypes[j]]}): decimal points at offsets {sorted(s)}'))
    for j, tab in enumerate(lots):
        for key, offs in sorted((tab or {}).items()):
            if len(offs) > 1:
                stats['lot_offsets_compared'] += 1
            if len(set(offs)) > 1:
                what = 'positions' if key[0] == '*' else f'lot {key[1]} of {key[0]}'
                probs.append(('lot-offset', j, f'column {j} ({R.DTNAME[dtypes[j]]}): the {key[2]} of {what} have their (decimal point, currency symbol) '
                                               f'at offsets {sorted(set(offs))} in different rows'))
                break
    return probs, (records, spans)


def lot_table(dtype, values, expand, stats):
    """{} when the column falls under the fixed-offset clause: Position columns, and Inventory columns rendered
    without expand in the tabular layout (at most 5 slots = sum over commodities of the largest number of lots
    one row holds; beyond that the renderer documents a plain list).  None otherwise."""
    if dtype is R.Position:
        return {}
    if dtype is not R.Inventory or expand:
        return None
    slots = {}
    for v in values:
        if v is not None:
            n = {}
            for p in v.get_positions():
                n[p.units.currency] = n.get(p.units.currency, 0) + 1
            for c, k in n.items():
                slots[c] = max(slots.get(c, 0), k)
    if sum(slots.values()) > 5:
        stats['lot_offset_columns_exempt_over_5_slots'] += 1
        return None
    return {}


def check_csv(names, dtypes, rows, expand, null, stats):
    """-> (problems, records or None, raw output or None)"""
    probs, recs, raw = _check_csv(names, dtypes, rows, expand, null, stats)
    return probs, (recs if not probs else None), raw


def _check_csv(names, dtypes, rows, expand, null, stats):
    cols = [Column(n, t) for n, t in zip(names, dtypes)]
    f = io.StringIO()
    try:
        render_csv(cols, rows, R.display_context(), f, expand=expand, nullvalue=null)
    except Exception as e:    # noqa: BLE001
        return [(crash_fingerprint(e), None, f'render_csv raised {type(e).__name__}: {e}')], None, None
    raw = f.getvalue()
    recs = R.read_csv(raw)
    if not recs or recs[0] != list(names):
        return [('csv-header', None, f'first CSV record {recs[:1]!r}, expected the column names {list(names)!r}')], None, raw
    recs = recs[1:]
    nl = [row_lines(r, dtypes, expand) for r in rows]
    if len(recs) != sum(nl):
        nl0 = [0 if (expand and row_all_empty_inventories(r, dtypes)) else n for r, n in zip(rows, nl)]
        if nl0 != nl and len(recs) == sum(nl0):
            gone = [i for i, (a, b) in enumerate(zip(nl, nl0)) if a != b]
            return [('csv-row-dropped', None, f'row(s) {gone} (all cells empty inventories) have no CSV record: {len(recs)} records for {len(rows)} rows')], None, raw
        return [('csv-records', None, f'{len(recs)} CSV records, expected {sum(nl)} (lines per row {nl})')], None, raw
    for i, r in enumerate(recs):
        if len(r) != len(cols):
            return [('csv-fields', None, f'CSV record {i} has {len(r)} fields for {len(cols)} columns: {r!r}')], None, raw
    return [], recs, raw


def compare_csv_text(dtypes, rows, null, trecs, crecs, stats):
    """Each CSV field = the text cell, padding aside.  Padding is what the renderer adds for alignment: blanks that
    belong to the VALUE (a string's own leading / trailing blanks, the blanks of the NULL placeholder) are not padding
    and must be in the field."""
    trecs, spans = trecs
    probs = []
    for i, (tr, cr) in enumerate(zip(trecs, crecs)):
        for j, (t, tc, cc) in enumerate(zip(dtypes, tr, cr)):
            stats['csv_fields'] += 1
            same = R.tokens(tc) == R.tokens(cc) if t in LISTLIKE else tc.strip() == cc.strip()
            if not same:
                probs.append(('csv-cell', j, f'record {i} column {j} ({R.DTNAME[t]}): CSV field {cc!r} differs from the text cell {tc!r}'))
    for i, (row, (a, b)) in enumerate(zip(rows, spans)):
        for j, v in enumerate(row):
            fields = [cr[j] for cr in crecs[a:b]]
            if not fields:
                continue
            if v is None and null != null.strip():
                stats['csv_value_blanks'] += 1
                if not any(null in f for f in fields):
                    probs.append(('csv-null', j, f'row {i} column {j}: the CSV field(s) {fields!r} do not hold the NULL placeholder {null!r} with its blanks'))
            elif isinstance(v, str) and v != v.strip():
                stats['csv_value_blanks'] += 1
                if not any(v in f for f in fields):
                    probs.append(('csv-cell', j, f'row {i} column {j} ({R.DTNAME[dtypes[j]]}): the CSV field(s) {fields!r} do not hold the string {v!r} with its own blanks'))
    return probs


class TableCheck:
    """All checks of one table; CSV renderings are cached per (expand, nullvalue)."""

    def __init__(self, names, dtnames, rows, stats):
        self.names, self.dtnames, self.rows = names, dtnames, rows
        self.dtypes = [R.DTYPES[t] for t in dtnames]
        self.stats = stats
        self.csv = {}

    def run(self, o, csv_all=True, fmt_all=True):
        """-> [(kind, locus, column, message)]"""
        st = self.stats
        st['renders'] += 1
        probs, trecs = check_text(self.names, self.dtypes, self.rows, o, st)
        out = [('text', loc, j, msg) for loc, j, msg in probs]
        key = (o['expand'], o['nullvalue'])
        if key not in self.csv:
            st['csv_renders'] += 1
            self.csv[key] = check_csv(self.names, self.dtypes, self.rows, key[0], key[1], st)
            out += [('csv', loc, j, msg) for loc, j, msg in self.csv[key][0]]
        crecs, raw = self.csv[key][1], self.csv[key][2]
        if trecs is not None and crecs is not None:
            out += [('csv', loc, j, msg) for loc, j, msg in compare_csv_text(self.dtypes, self.rows, o['nullvalue'], trecs, crecs, st)]
        # The registered 'text' output format (beanquery.render.text.render, what the shell and embedders call), handed
        # the same options plus the shell's settings that are not about text: its text falls under the same clauses.
        # A text identical to the one of render_text just read back needs no second reading.
        if self.rows and fmt_all:
            st['text_renders_through_format'] += 1
            f = io.StringIO()
            try:
                beanquery.render.text.render([Column(n, t) for n, t in zip(self.names, self.dtypes)], self.rows, f, dcontext=R.display_context(),
                                             **SHELL_ONLY_SETTINGS, **o)
                ftext = f.getvalue()
            except Exception as e:    # noqa: BLE001
                out.append(('text-format', crash_fingerprint(e), None, f'render.text.render with all the options raised {type(e).__name__}: {e}'))
                ftext = None
            if ftext is not None and ftext != st.get('text'):
                st['text_through_format_differs'] += 1
                direct = st.get('text')
                fprobs, _ = analyse_text(ftext, self.names, self.dtypes, self.rows, o, st)
                st['text'] = direct
                out += [('text-format', loc, j, f'through beanquery.render.text.render: {msg}') for loc, j, msg in fprobs]
        # The shell hands every setting to every renderer: CSV through the format's entry point with ALL the options
        # must be what render_csv gives with expand / nullvalue alone (boxed, spaced, narrow, unicode, listsep are text-only).
        if not csv_all:
            return out
        st['csv_renders_all_options'] += 1
        f = io.StringIO()
        try:
            beanquery.render.csv.render([Column(n, t) for n, t in zip(self.names, self.dtypes)], self.rows, f, dcontext=R.display_context(), **o)
            got = f.getvalue()
        except Exception as e:    # noqa: BLE001
            out.append(('csv', crash_fingerprint(e), None, f'render.csv.render with all the options raised {type(e).__name__}: {e}'))
            got = raw
        if raw is not None and got != raw:
            out.append(('csv', 'csv-options', None, f'CSV output depends on text-only options: {len(R.read_csv(got))} records {got!r} with all the options, '
                                                    f'{len(R.read_csv(raw))} records {raw!r} with expand / nullvalue alone'))
        return out


def new_stats():
    import collections
    return collections.Counter()


def fingerprint(kind, locus, col, names, dtnames, rows, o):
    """Defect locus: renderer-independent clauses carry no datatype; the others the datatype of the column at
    fault (for whole-line problems of a two-column table: the column that shows the same problem alone)."""
    if '@' in locus:            # crash fingerprint
        return locus
    if locus in GENERIC_LOCI:
        return f'render:{kind}:{locus}'
    if locus in ('row-dropped', 'csv-row-dropped'):     # text and CSV share the row expansion
        return 'render:rows:row-dropped'
    if col is not None:
        return f'render:{kind}:{locus}:{dtnames[col]}'
    if len(dtnames) == 1:
        return f'render:{kind}:{locus}:{dtnames[0]}'
    guilty = []
    for j in range(len(dtnames)):
        sub = TableCheck((names[j],), (dtnames[j],), [(r[j],) for r in rows], new_stats())
        if any(k == kind and loc == locus for k, loc, _, _ in sub.run(o)):
            guilty.append(dtnames[j])
    if guilty:
        return f'render:{kind}:{locus}:{guilty[0]}'
    return f'render:{kind}:{locus}:pair'


def describe(names, dtnames, rows, o):
    cols = ', '.join(f'{n}:{t}' for n, t in zip(names, dtnames))
    rws = '; '.join('(' + ', '.join(R.show(v) for v in r) + ')' for r in rows)
    opts = ' '.join(f'{k}={v!r}' for k, v in sorted(o.items()))
    return f'columns [{cols}] rows [{rws}] options [{opts}]'


def make_case(names, dtnames, rows, o):
    return {'names': list(names), 'dtypes': list(dtnames), 'rows': [[R.enc(v) for v in r] for r in rows], 'options': dict(o)}


def check_empty_wrapper(dtname, o):
    """beanquery.render.text.render on an empty result: '(empty)' or a well-formed table, never a crash."""
    f = io.StringIO()
    cols = [Column('c', R.DTYPES[dtname])]
    try:
        beanquery.render.text.render(cols, [], f, dcontext=R.display_context(), **o)
    except Exception as e:    # noqa: BLE001
        return (crash_fingerprint(e), f'render.text.render of an empty result raised {type(e).__name__}: {e}')
    text = f.getvalue()
    if text.strip() == '(empty)':
        return None
    try:
        R.read_text(text, 1, o['boxed'], o['unicode'])
    except R.Problem as p:
        return ('empty', f'empty result rendered as {text!r}: {p.message}')
    return None


def size_key(case):
    return (len(case['dtypes']), len(case['rows']), len(repr(case['rows'])), repr(sorted(case['options'].items())))


def record(acc, fp, what, case):
    """Violations travel through a mergeable set so that the globally smallest witness of every
    fingerprint survives the merge (Acc.violation keeps the first three in shard order)."""
    acc.count('violating_cases')
    acc.count('fp ' + fp)
    if acc.n['fp ' + fp] <= 3:
        acc.add('violations', (size_key(case), fp, what, json.dumps(case, sort_keys=True)))


def collect(acc):
    """Smallest witnesses first.  A clause that fails for at least half of the datatypes is a defect of the shared
    table layout, not of one column renderer: those fingerprints are merged into one without datatype."""
    items = sorted(acc.sets['violations'])
    suffixes = {}
    for key, fp, what, case in items:
        head, _, tail = fp.rpartition(':')
        if fp.count(':') == 3 and '@' not in fp:
            suffixes.setdefault(head, set()).add(tail)
    generic = {head for head, tails in suffixes.items() if len(tails - {'pair'}) >= len(DTORDER) // 2}
    byfp = {}
    for key, fp, what, case in items:
        head = fp.rpartition(':')[0]
        if fp.count(':') == 3 and head in generic:
            fp = head
        byfp.setdefault(fp, [])
        if len(byfp[fp]) < 3:
            byfp[fp].append(Violation(fp, what, json.loads(case)))
    return [v for fp in sorted(byfp, key=lambda f: size_key(byfp[f][0].case)) for v in byfp[fp]]


def shard(shard_no, nshards, seed, thorough):
    acc = Acc()
    st = new_stats()
    opts_all = all_options()
    opts_pair = opts_all if thorough else oa16_options()
    oa16 = [tuple(sorted(o.items())) for o in oa16_options()]
    blank_all, blank_pair = blank_null_options(opts_all), blank_null_options(opts_pair)
    for idx, (kind, names, dtnames, rows) in enumerate(tables(seed, thorough)):
        if not mine(idx, shard_no, nshards):
            continue
        tc = TableCheck(names, dtnames, rows, st)
        acc.count('tables')
        acc.count(f'tables_{kind}')
        if not rows:
            acc.count('empty_results')
        nontrivial = any(v is not None for r in rows for v in r)
        if nontrivial:
            acc.count('tables_nontrivial')
        opts = opts_all if kind == 'single' else opts_pair
        # third placeholder ' - ': quick tier on single columns of <= 2 cells and one-row pairs, thorough tier everywhere
        if thorough or len(rows) <= (2 if kind == 'single' else 1):
            opts = opts + (blank_all if kind == 'single' else blank_pair)
        for oi, o in enumerate(opts):
            acc.count('configurations')
            if not rows and names[0] == 'c':
                pr = check_empty_wrapper(dtnames[0], o)
                acc.count('empty_wrapper_calls')
                if pr:
                    fp = pr[0] if '@' in pr[0] else f'render:text:{pr[0]}'
                    record(acc, fp, f'{pr[1]} -- {describe(names, dtnames, rows, o)}', make_case(names, dtnames, rows, o))
            # quick tier: CSV with all the options on every combination for tables of <= 2 rows, on the 16-run array for 3 rows
            csv_all = thorough or len(rows) <= 2 or tuple(sorted(o.items())) in oa16
            # quick tier: the registered text format on the same cases, two-row pairs left out (what the entry point adds is the handing
            # over of the options, which every option combination on single columns and one-row pairs exercises)
            fmt_all = csv_all and (thorough or kind == 'single' or len(rows) <= 1)
            for k, loc, j, msg in tc.run(o, csv_all, fmt_all):
                fp = fingerprint(k, loc, j, names, dtnames, rows, o)
                record(acc, fp, f'{msg} -- {describe(names, dtnames, rows, o)}', make_case(names, dtnames, rows, o))
            if oi == 0:
                first_text = st.get('text')
                acc.add('outputs', hash(first_text))
                acc.add('widths', len((first_text or '').split('\n', 1)[0]))
        if idx % 4001 == 0:
            acc.sample({'columns': [f'{n}:{t}' for n, t in zip(names, dtnames)], 'rows': [[R.show(v) for v in r] for r in rows],
                        'options': dict(opts[0]), 'text': first_text})
    st.pop('text', None)
    st.pop('cell', None)
    for k, v in st.items():
        acc.count(k, v)
    return acc


def replay(case):
    names, dtnames = tuple(case['names']), tuple(case['dtypes'])
    rows = [tuple(R.dec(v) for v in r) for r in case['rows']]
    o = case['options']
    out = []
    if not rows and len(names) == 1:
        pr = check_empty_wrapper(dtnames[0], o)
        if pr:
            out.append(Violation(pr[0] if '@' in pr[0] else f'render:text:{pr[0]}', pr[1], case))
    tc = TableCheck(names, dtnames, rows, new_stats())
    for k, loc, j, msg in tc.run(o):
        out.append(Violation(fingerprint(k, loc, j, names, dtnames, rows, o), f'{msg} -- {describe(names, dtnames, rows, o)}', case))
    if tc.stats.get('text'):
        print(tc.stats['text'], end='')
    return out


def run(ctx):
    R.display_context()
    acc = run_shards(shard, ctx.jobs, ctx.seed, ctx.thorough, nshards=max(ctx.jobs, 1) * 4)
    n = acc.n
    full, reduced = alphabets(ctx.seed, ctx.thorough)
    cov = {
        'states': n['configurations'],
        'transitions': n['renders'] + n['csv_renders'] + n['csv_renders_all_options'] + n['text_renders_through_format'],
        'traces_validated_against_impl': n['tables'],
        'evaluations': n['readback'] + n['null'] + n['headers'] + n['csv_fields'],
        'distinct_nontrivial': len(acc.sets['outputs']),
        'rule': 'a case is one (result table, option combination); tables are enumerated completely: per datatype every column of 0..3 cells over '
                'its alphabet x 2 header names, every ordered datatype pair x 1..2 rows over the reduced alphabets; states = cases, transitions = '
                'renderer calls read back (text, text through the registered format, CSV), evaluations = cells / headers / CSV fields compared; distinct & non-trivial = distinct '
                'texts emitted under one fixed option combination per table',
        'exhaustive': True,
        'bound': ('single columns <= 3 cells under both headers' if ctx.thorough else 'single columns <= 3 cells (short header) / <= 2 cells (long header)')
                 + ' x 128 option combinations; pairs <= 2 rows x ' + ('128' if ctx.thorough else '16 (orthogonal array, strength 3)'),
        'tables': n['tables'], 'tables_single': n['tables_single'], 'tables_pair': n['tables_pair'],
        'tables_with_a_non_null_cell': n['tables_nontrivial'], 'empty_results': n['empty_results'],
        'empty_results_through_render_text_module': n['empty_wrapper_calls'],
        'option_combinations': {'single': 128, 'pair': 128 if ctx.thorough else 16, 'extra_with_blank_placeholder': {'single': 64, 'pair': 64 if ctx.thorough else 8}},
        'csv_cells_whose_value_has_blanks_of_its_own': n['csv_value_blanks'],
        'text_renders_through_registered_format': n['text_renders_through_format'],
        'texts_through_registered_format_differing_from_render_text_and_read_back_on_their_own': n['text_through_format_differs'],
        'text_renders': n['renders'], 'csv_renders': n['csv_renders'], 'csv_renders_with_all_options': n['csv_renders_all_options'],
        'cells_read_back': n['readback'], 'null_cells': n['null'], 'headers_checked': n['headers'], 'headers_cut_narrow': n['headers_cut'],
        'tables_rendered_with_expanded_rows': n['expanded_tables'],
        'columns_checked_for_decimal_point_alignment': n['align_columns'], 'cells_exempt_scientific_notation': n['align_exempt'],
        'positive_exponent_decimals_aligned_as_integral_part': n['align_scientific_integral'],
        'csv_fields_compared_with_text_cells': n['csv_fields'],
        'lot_offset_groups_compared_across_rows': n['lot_offsets_compared'],
        'inventory_columns_exempt_from_lot_offsets_over_5_slots': n['lot_offset_columns_exempt_over_5_slots'],
        'distinct_line_widths': len(acc.sets['widths']),
        'violating_cases': n['violating_cases'],
        'violating_cases_by_fingerprint': {k[3:]: v for k, v in sorted(n.items()) if k.startswith('fp ')},
        'alphabet': {t: [R.show(v) for v in full[t]] for t in DTORDER},
        'alphabet_pairs': {t: [R.show(v) for v in reduced[t]] for t in DTORDER},
        'display_precision': R.PRECISION,
        'samples': acc.samples,
    }
    return Result(cov, collect(acc), ASSUMPTIONS)
