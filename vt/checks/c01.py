"""C01 -- Row-level evaluation: WHERE filtering, expression values and NULL semantics.

Technique: bounded-exhaustive exploration (E-enum) of program x data: every well-typed expression
of bounded depth over the live operator registry and the total scalar functions, evaluated by the
real compiler + executor on a harness table that holds the FULL cartesian product of the alphabets
of exactly the columns the expression reads (every NULL position, zero divisors, equal / unequal
operands, both orders), and compared cell by cell with the reference evaluator ``vt.ref.expr``.

Modes per expression E over columns c1..ck:
  target   SELECT c1, .., ck, E FROM t          rows = [(c.., ref(E)) for every row], source order
  where    SELECT c1, .., ck FROM t WHERE E     rows = those with ref(E) is True (NULL and FALSE drop)
  empty/1  the same on tables with 0 and 1 rows; reversed source order (depth 1)
  from     E over ledger columns as FROM condition AND-ed with WHERE on the postings table
Cell equality is on (Python type, value); Decimal representation (exponent) is not compared.

Scope (S): AND/OR/NOT/WHERE over non-boolean operands, invalid regular expressions, today() and
literal NULL operands where an overload must be chosen are outside the property -> not generated.
"""
import itertools

import beanquery
from beanquery.parser import ast

from .. import astgen, domains
from ..harness import HTable, connect, select, crash_fingerprint, typed
from ..par import Acc, run_shards, mine
from ..ref import expr as refexpr
from ..runner import Result, Violation, jsonable, unjson

LEVEL = 'model_checking'


def col_alphabet(name, seed, small):
    t = astgen.COLTYPE[name]
    if t in astgen.SCALARS:
        return domains.alphabet(t, seed, small=small)
    if t is astgen.relativedelta:
        return domains.intervals()
    if t is set:
        return domains.sets(seed)
    if t is list:
        return domains.lists(seed)
    if t is dict:
        return domains.dicts(seed)
    if t is object:
        return domains.objects(seed)
    raise KeyError(name)


_TABLES = {}


def table_for(cols, seed):
    key = (tuple(cols), seed)
    t = _TABLES.get(key)
    if t is None:
        small = len(cols) >= 3
        alphas = [col_alphabet(c, seed, small) for c in cols]
        rows = list(itertools.product(*alphas)) if cols else [()]
        t = HTable([(c, astgen.COLTYPE[c]) for c in cols], rows)
        _TABLES[key] = t
    return t


def same(a, b):
    return typed(a) == typed(b)


def show(node):
    try:
        from ..unparse import unparse
        return unparse(node)
    except Exception:
        return repr(node)


def check_expr(te, seed, acc, variants=('full',)):
    cols = sorted(te.cols)
    base = table_for(cols, seed)
    colnodes = [(ast.Column(c), c) for c in cols]
    for variant in variants:
        if variant == 'full':
            rows = base.rows
        elif variant == 'empty':
            rows = []
        elif variant == 'one':
            rows = base.rows[len(base.rows) // 2:len(base.rows) // 2 + 1]
        elif variant == 'reversed':
            rows = base.rows[::-1]
        elif variant == 'dupnames':
            rows = base.rows
        # Rows on which the reference itself is undefined because of a *data* error (date out of
        # range, Decimal overflow, ...) are outside the property: drop them from the table.
        keep, expected_vals, ref_exc = [], [], None
        try:
            for r in rows:
                try:
                    expected_vals.append(refexpr.ev(te.ref if te.ref is not None else te.node, dict(zip(cols, r))))
                    keep.append(r)
                except (ArithmeticError, ValueError) as e:   # InvalidOperation, OverflowError, year out of range
                    acc.count('rows_outside_domain')
        except refexpr.RefError:
            acc.count('ref_unsupported')
            return
        except Exception as e:        # TypeError: the reference cannot evaluate (e.g. interval - date)
            expected_vals = None
            ref_exc = e
        if expected_vals is not None:
            rows = keep
        table = HTable(base.cols, rows)
        conn = connect(t=table, postings=table)
        # ---- target mode
        stmt = select(colnodes + [(te.node, 'r')], from_='t')
        if variant == 'dupnames':      # every target under the SAME output name: each cell still is its own target's value
            stmt = select([(c, 'r') for c, _ in colnodes] + [(te.node, 'r')], from_='t')
        acc.count('programs')
        try:
            cur = conn.execute(stmt)
            got = cur.fetchall()
        except Exception as e:
            if te.ref is not None and isinstance(e, beanquery.CompilationError):
                acc.count('untyped_operand_programs_rejected_by_the_type_checker')     # which casts exist is C05's business
                return
            acc.violation(f'crash:{crash_fingerprint(e)}',
                          f'SELECT {show(te.node)} over columns {cols} raised {type(e).__name__}: {e}',
                          case(te, seed, variant, 'target'))
            acc.count('crashes')
            continue
        if expected_vals is None:
            acc.violation(f'ref-crash:{te.locus}', f'reference raised {ref_exc!r} but implementation returned rows', case(te, seed, variant, 'target'))
            continue
        acc.count('rowsteps', len(rows))
        if len(got) != len(rows):
            acc.violation(f'rowcount:{te.locus}', f'SELECT {show(te.node)}: {len(got)} rows for {len(rows)} source rows',
                          case(te, seed, variant, 'target'))
            continue
        for r, g, e in zip(rows, got, expected_vals):
            if tuple(map(typed, g[:-1])) != tuple(map(typed, r)):
                acc.violation(f'order:{te.locus}', f'SELECT {show(te.node)}: row {g!r} out of source order (expected columns {r!r})',
                              case(te, seed, variant, 'target'))
                break
            if not same(g[-1], e):
                acc.violation(f'value:{te.locus}',
                              f'{show(te.node)} on {dict(zip(cols, r))!r} = {g[-1]!r}, reference {e!r}',
                              case(te, seed, variant, 'target', row=r))
                break
            if e is None:
                acc.count('null_results')
            acc.add('values', repr(e)[:40])
        # ---- where mode
        if te.dtype is bool:
            stmt = select(colnodes if colnodes else [(ast.Constant(1), 'one')], from_='t', where=te.node)
            acc.count('programs')
            try:
                got = conn.execute(stmt).fetchall()
            except Exception as e:
                acc.violation(f'crash:{crash_fingerprint(e)}', f'WHERE {show(te.node)} raised {type(e).__name__}: {e}', case(te, seed, variant, 'where'))
                continue
            exp = [tuple(r) for r, v in zip(rows, expected_vals) if v is True]
            acc.count('rowsteps', len(rows))
            acc.count('where_dropped_null', sum(v is None for v in expected_vals))
            acc.count('where_dropped_false', sum(v is False for v in expected_vals))
            acc.count('where_kept', len(exp))
            if colnodes and [tuple(map(typed, g)) for g in got] != [tuple(map(typed, e)) for e in exp]:
                acc.violation(f'where:{te.locus}', f'WHERE {show(te.node)} kept {len(got)} rows, reference keeps {len(exp)} (NULL and FALSE exclude): got {got[:4]!r} expected {exp[:4]!r}',
                              case(te, seed, variant, 'where'))


def case(te, seed, variant, mode, row=None):
    from ..astjson import dump
    return {'ast': dump(te.node), 'cols': sorted(te.cols), 'locus': te.locus, 'seed': seed, 'variant': variant,
            'mode': mode, 'row': jsonable(row)}


def replay(c):
    from ..astjson import load
    acc = Acc()
    if c.get('kind') == 'from':
        check_from(c['which'], acc)
    elif c.get('kind') == 'literals':
        check_literals(acc, only=c['which'])
    else:
        node = load(c['ast'])
        te = astgen.TE(node, bool if c['mode'] == 'where' else object, c['cols'], c['locus'], 1)
        check_expr(te, c['seed'], acc, variants=(c['variant'],))
    return acc.violations


# ---- FROM conditions on the postings table ----------------------------------------------------

LEDGER = '''
2020-01-01 open Assets:Cash
2020-01-01 open Assets:Bank
2020-01-01 open Expenses:Food
2020-01-01 open Income:Job

2020-01-05 * "Employer" "salary"
  Assets:Bank      100.00 USD
  Income:Job      -100.00 USD

2020-02-10 ! "Grocer" "food" #tag
  Expenses:Food     12.50 USD
  Assets:Cash      -12.50 USD

2021-03-01 * "cash"
  Assets:Cash       20.00 USD
  Assets:Bank      -20.00 USD
'''


def from_conditions():
    Cn, Cl, Fn = ast.Constant, ast.Column, ast.Function
    import datetime
    conds = [
        ('year=2020', ast.Equal(Cl('year'), Cn(2020)), lambda e: e.date.year == 2020),
        ('flag=!', ast.Equal(Cl('flag'), Cn('!')), lambda e: e.flag == '!'),
        ('payee~gro', ast.Match(Cl('payee'), Cn('gro')), lambda e: None if e.payee is None else ('gro' in e.payee.lower())),
        ('payee IS NULL', ast.IsNull(Cl('payee')), lambda e: e.payee is None),
        ('NOT payee~e', ast.Not(ast.Match(Cl('payee'), Cn('e'))), lambda e: True if e.payee is None else ('e' not in e.payee.lower())),
        ('date<2020-02-10', ast.Less(Cl('date'), Cn(datetime.date(2020, 2, 10))), lambda e: e.date < datetime.date(2020, 2, 10)),
        ('month BETWEEN 2 AND 3', ast.Between(Cl('month'), Cn(2), Cn(3)), lambda e: 2 <= e.date.month <= 3),
        ('payee~o OR year=2021', ast.Or([ast.Match(Cl('payee'), Cn('o')), ast.Equal(Cl('year'), Cn(2021))]),
         lambda e: True if (e.payee is not None and 'o' in e.payee.lower()) or e.date.year == 2021 else (None if e.payee is None else False)),
    ]
    D = __import__('decimal').Decimal
    wheres = [
        ('none', None, lambda p: True),
        ('number>0', ast.Greater(Cl('number'), Cn(0)), lambda p: p.units.number > 0),
        ('account~cash', ast.Match(Cl('account'), Cn('cash')), lambda p: 'cash' in p.account.lower()),
        # WHERE conditions whose ROOT is OR / AND / NOT / COALESCE / IS NULL (the FROM condition is AND-ed with the
        # WHERE condition as a whole, whatever its outermost operator is)
        ('cash OR number>50', ast.Or([ast.Match(Cl('account'), Cn('cash')), ast.Greater(Cl('number'), Cn(50))]),
         lambda p: 'cash' in p.account.lower() or p.units.number > 50),
        ('bank AND number<0', ast.And([ast.Match(Cl('account'), Cn('bank')), ast.Less(Cl('number'), Cn(0))]),
         lambda p: 'bank' in p.account.lower() and p.units.number < 0),
        ('NOT cash', ast.Not(ast.Match(Cl('account'), Cn('cash'))), lambda p: 'cash' not in p.account.lower()),
        ('coalesce(cost_number>0, number<0)', Fn('coalesce', [ast.Greater(Cl('cost_number'), Cn(0)), ast.Less(Cl('number'), Cn(0))]),
         lambda p: (p.cost.number > 0) if p.cost is not None else (p.units.number < 0)),
        ('three-way OR', ast.Or([ast.Equal(Cl('number'), Cn(D('20.00'))), ast.Match(Cl('account'), Cn('food')), ast.IsNotNull(Cl('cost_number'))]),
         lambda p: p.units.number == 20 or 'food' in p.account.lower() or p.cost is not None),
    ]
    return conds, wheres


def check_from(which, acc):
    from beancount import loader
    from beancount.core import data
    entries, errors, options = loader.load_string(LEDGER)
    assert not errors, errors
    conn = beanquery.connect('beancount:', entries=entries, errors=errors, options=options)
    conds, wheres = from_conditions()
    for (cn, cast, cf), (wn, wast, wf) in itertools.product(conds, wheres):
        if which is not None and which != f'{cn}|{wn}':
            continue
        stmt = ast.Select([ast.Target(ast.Column('date'), None), ast.Target(ast.Column('account'), None), ast.Target(ast.Column('number'), None)],
                          ast.From(cast, None, None, None), wast, None, None, None, None, None)
        exp = []
        for e in entries:
            if isinstance(e, data.Transaction) and cf(e) is True:
                for p in e.postings:
                    if wf(p) is True:
                        exp.append((e.date, p.account, p.units.number))
        acc.count('programs')
        acc.count('from_programs')
        try:
            got = conn.execute(stmt).fetchall()
        except Exception as ex:
            acc.violation(f'crash:{crash_fingerprint(ex)}', f'FROM {cn} WHERE {wn} raised {type(ex).__name__}: {ex}', {'kind': 'from', 'which': f'{cn}|{wn}'})
            continue
        acc.count('rowsteps', len(got))
        if [tuple(g) for g in got] != exp:
            acc.violation(f'from:{cn}', f'SELECT date, account, number FROM {cn} WHERE {wn}: got {got!r}, reference {exp!r}', {'kind': 'from', 'which': f'{cn}|{wn}'})


# ---- several literals in ONE statement ----------------------------------------------------------

def literal_statements():
    """(tag, statement, expected rows): literals that are equal as values but differ in type or in scale occur together
    in one statement; each occurrence keeps its own value (observed through str(), which shows the scale)."""
    import datetime
    import decimal
    D = decimal.Decimal
    Cn, Cl, Fn, T = ast.Constant, ast.Column, ast.Function, ast.Target
    lits = [D('0.5'), D('0.50'), D('1.0'), D('1.00'), 1, D('1'), True, D('0'), D('0.00'), 0, False, 'a', 'a', datetime.date(2020, 1, 2)]
    out = []
    for order, seq in (('fwd', lits), ('rev', list(reversed(lits)))):
        targets = [T(Fn('str', [Cn(v)]), f's{i}') for i, v in enumerate(seq)] + [T(Cn(v), f'v{i}') for i, v in enumerate(seq)]
        exp = tuple(str(v) if not isinstance(v, bool) else ('TRUE' if v else 'FALSE') for v in seq) + tuple(seq)
        out.append((f'literals-{order}', ast.Select(targets, ast.Table('lt'), None, None, None, None, None, None), [exp] * 2))
    x = Cl('x')
    for a, b in ((D('1.0'), D('1.00')), (D('1.00'), D('1.0')), (1, D('1.0')), (D('2.50'), D('2.5'))):
        targets = [T(Fn('str', [ast.Mul(x, Cn(a))]), 'p'), T(Fn('str', [ast.Mul(x, Cn(b))]), 'q'), T(Fn('str', [ast.Add(Cn(a), Cn(b))]), 'r')]
        rows = [D('2'), D('0.5')]
        exp = [(str(r * a), str(r * b), str(a + b)) for r in rows]
        out.append((f'literal-pair-{a}-{b}', ast.Select(targets, ast.Table('lt'), None, None, None, None, None, None), exp))
        # the same value in a target and in WHERE
        out.append((f'literal-where-{a}-{b}', ast.Select([T(Fn('str', [Cn(a)]), 'p')], ast.Table('lt'), ast.Less(x, Cn(b)), None, None, None, None, None),
                    [(str(a),) for r in rows if r < b]))
    # row-independent conditions: NULL and FALSE select no row, TRUE selects every row (also when the compiler folds them)
    null_int = Fn('int', [Cn('x')])                       # int('x') is NULL
    conds = [
        ('null', Cn(None), None), ('false', Cn(False), False), ('true', Cn(True), True),
        ('1=2', ast.Equal(Cn(1), Cn(2)), False), ('1=1', ast.Equal(Cn(1), Cn(1)), True),
        ('1/0>1', ast.Greater(ast.Div(Cn(1), Cn(0)), Cn(1)), None), ('5%0=0', ast.Equal(ast.Mod(Cn(5), Cn(0)), Cn(0)), None),
        ("int('x')=1", ast.Equal(null_int, Cn(1)), None), ("int('x') IS NULL", ast.IsNull(null_int), True),
        ('NOT NULL', ast.Not(Cn(None)), True), ('NULL AND FALSE', ast.And([Cn(None), Cn(False)]), None),
        ('NULL OR TRUE', ast.Or([Cn(None), Cn(True)]), True), ('NULL OR FALSE', ast.Or([Cn(None), Cn(False)]), None),
        ("'a'~'b'", ast.Match(Cn('a'), Cn('b')), False), ("2 BETWEEN 1 AND int('x')", ast.Between(Cn(2), Cn(1), null_int), None),
        ('1 IN (2,3)', ast.In(Cn(1), Cn([2, 3])), False), ('coalesce(NULL-ish, TRUE)', Fn('coalesce', [ast.Greater(null_int, Cn(0)), Cn(True)]), True),
    ]
    rows = [D('2'), D('0.5')]
    for tag, cond, truth in conds:
        exp = [(r,) for r in rows] if truth is True else []
        out.append((f'constant-where:{tag}', ast.Select([T(x, None)], ast.Table('lt'), cond, None, None, None, None, None), exp))
        out.append((f'constant-where-and:{tag}', ast.Select([T(x, None)], ast.Table('lt'), ast.And([ast.Greater(x, Cn(1)), cond]), None, None, None, None, None),
                    [(r,) for r in rows if r > 1] if truth is True else []))
        out.append((f'constant-target:{tag}', ast.Select([T(cond, 'c')], ast.Table('lt'), None, None, None, None, None, None), [(truth,)] * 2))
    return out


def check_literals(acc, only=None):
    import decimal
    conn = connect(lt=HTable([('x', decimal.Decimal)], [(decimal.Decimal('2'),), (decimal.Decimal('0.5'),)], name='lt'))
    for tag, stmt, exp in literal_statements():
        if only is not None and tag != only:
            continue
        acc.count('programs')
        acc.count('literal_programs')
        try:
            got = conn.execute(stmt).fetchall()
        except Exception as ex:
            acc.violation(f'crash:{crash_fingerprint(ex)}', f'{show(stmt)} raised {type(ex).__name__}: {ex}', {'kind': 'literals', 'which': tag})
            continue
        acc.count('rowsteps', len(got))
        if [tuple(map(typed, r)) for r in got] != [tuple(map(typed, r)) for r in exp]:
            fp = f'literals:{tag.split(":")[0]}' if tag.startswith('constant-') else 'literals:same-value-different-literal'
            acc.violation(fp, f'{show(stmt)}: got {got!r}, expected {exp!r}', {'kind': 'literals', 'which': tag})


# ---- driver -------------------------------------------------------------------------------

def programs(tier, seed):
    d1 = astgen.depth1(seed)
    d2 = astgen.depth2(d1, seed, all_slots=False, full_children=True)
    progs = [(te, ('full', 'empty', 'one', 'reversed', 'dupnames')) for te in d1]
    progs += [(te, ('full',)) for te in d2]
    if tier == 'thorough':
        d2all = astgen.depth2(d1, seed, all_slots=True, max_cols=4)
        progs += [(te, ('full',)) for te in d2all]
        progs += [(te, ('full',)) for te in depth3(d1, d2, seed)]
    return progs, len(d1), len(d2)


REP3 = ['Add[int,int]', 'Div[int,Decimal]', 'Mod[int,int]', 'Less[Decimal,int]', 'Equal[str,str]', 'Match[str,str]',
        'In[str,set]', 'Between[int,int,int]', 'And2', 'Or2', 'Not[bool]', 'IsNull[int]', 'coalesce[int]', 'upper(str)', 'abs(Decimal)']


def depth3(d1, d2, seed):
    """Depth 3 over one representative per NULL-behaviour class: each representative outer operator
    takes, in one slot, every depth-2 expression (of matching type) whose own outer operator is a
    representative as well."""
    reps2 = [te for te in d2 if te.locus.split('@')[0].split('<')[0] in REP3]
    prods = astgen.by_type(reps2)
    out = []
    outer = [te for te in d1 if te.locus in REP3 and all(a for a in te.cols)]
    seen = set()
    for te in outer:
        if te.locus in seen:
            continue
        seen.add(te.locus)
        # rebuild the outer operator with its first column slot replaced
        node = te.node
        slots = [f for f in ('operand', 'left', 'right', 'lower', 'upper') if hasattr(node, f)]
        if isinstance(node, (ast.And, ast.Or)):
            for child in prods.get(bool, []):
                cols = set(child.cols) | {'b2'}
                if len(cols) <= 4:
                    out.append(astgen.TE(type(node)([child.node, ast.Column('b2')]), bool, cols, f'{te.locus}@0<{child.locus}>', 3))
            continue
        if isinstance(node, ast.Function):
            arg0 = node.operands[0]
            if not isinstance(arg0, ast.Column):
                continue
            t0 = astgen.COLTYPE[arg0.name]
            for child in prods.get(t0, []):
                ops = [child.node] + list(node.operands[1:])
                cols = set(child.cols) | {c.name for c in node.operands[1:] if isinstance(c, ast.Column)}
                if len(cols) <= 4:
                    out.append(astgen.TE(ast.Function(node.fname, ops), te.dtype, cols, f'{te.locus}@0<{child.locus}>', 3))
            continue
        if not slots:
            continue
        f0 = slots[0]
        a0 = getattr(node, f0)
        if not isinstance(a0, ast.Column):
            continue
        t0 = astgen.COLTYPE[a0.name]
        for child in prods.get(t0, []):
            kwargs = {f: getattr(node, f) for f in slots}
            kwargs[f0] = child.node
            cols = set(child.cols)
            for f in slots[1:]:
                v = getattr(node, f)
                if isinstance(v, ast.Column):
                    cols.add(v.name)
            if len(cols) <= 4:
                out.append(astgen.TE(type(node)(**kwargs), te.dtype, cols, f'{te.locus}@0<{child.locus}>', 3))
    return out


def shard_fn(shard, nshards, tier, seed):
    acc = Acc()
    progs, n1, n2 = programs(tier, seed)
    for i, (te, variants) in enumerate(progs):
        if not mine(i, shard, nshards):
            continue
        before = acc.n['violating_cases']
        check_expr(te, seed, acc, variants)
        acc.count('expressions')
        acc.add('loci', te.locus.split('@')[0].split('<')[0])
        acc.count(f'depth{te.depth}')
        if i % 997 == 0:
            acc.sample({'expr': show(te.node), 'columns': sorted(te.cols), 'type': astgen.tname(te.dtype)})
    if shard == 0:
        check_from(None, acc)
        check_literals(acc)
    return acc


def run(ctx):
    acc = run_shards(shard_fn, ctx.jobs, ctx.tier, ctx.seed)
    # attribute depth>=2 violations to the depth-1 locus that already fails, when there is one
    d1_loci = {}
    for v in acc.violations:
        if '<' not in v.fingerprint and ':' in v.fingerprint and not v.fingerprint.startswith('crash'):
            d1_loci.setdefault(v.fingerprint.partition(':')[2], v.fingerprint)
    for v in acc.violations:
        if '<' in v.fingerprint and not v.fingerprint.startswith('crash'):
            loc = v.fingerprint.partition(':')[2]
            outer = loc.split('@')[0].split('<')[0]
            child = loc[loc.index('<') + 1:].rstrip('>')
            for cand in (child, outer):
                if cand in d1_loci:
                    v.fingerprint = d1_loci[cand]
                    break
    n = acc.n
    cov = {
        'states': n['programs'],
        'transitions': n['rowsteps'],
        'traces_validated_against_impl': n['programs'],
        'evaluations': n['programs'],
        'distinct_nontrivial': len(acc.sets['loci']),
        'rule': 'a case = one (statement, table) pair: an enumerated typed expression used as target / as WHERE, on the table holding the full product '
                'of the alphabets of the columns it reads; distinct_nontrivial = distinct outermost operator overloads / function signatures exercised',
        'exhaustive': True,
        'bound': ('depth <= 2 complete with one nested slot at a time (every depth-1 expression as child of every overload slot of its type), full operand-value products'
                  if ctx.quick else 'depth <= 2 with all slots nested simultaneously (<= 4 columns) + depth 3 over representatives of every NULL-behaviour class'),
        'expressions': n['expressions'], 'depth1': n['depth1'], 'depth2': n['depth2'], 'depth3': n['depth3'],
        'row_steps_compared': n['rowsteps'], 'null_results': n['null_results'],
        'where_rows_dropped_by_null': n['where_dropped_null'], 'where_rows_dropped_by_false': n['where_dropped_false'],
        'where_rows_kept': n['where_kept'], 'distinct_result_values': len(acc.sets['values']),
        'from_condition_programs': n['from_programs'], 'crashes': n['crashes'], 'reference_unsupported': n['ref_unsupported'],
        'alphabet': domains.describe(ctx.seed),
        'samples': acc.samples,
    }
    return Result(cov, acc.violations, assumptions=[
        'reference evaluator vt/ref/expr.py written from the property text; decimal/datetime/re of CPython trusted',
        'non-boolean operands of AND/OR/NOT/WHERE, invalid regexes, today() are outside the property',
    ])
