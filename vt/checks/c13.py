"""C13 -- OPEN / CLOSE / CLEAR present the ledger as a period report preserving balances.

Technique: bounded-exhaustive enumeration (E-enum) of FROM-clause configurations on the real
implementation, against a reference computed from the FULL ledger by direct traversal of its
transactions (beancount.ops.summarize is never called by the reference).

Space     ledgers   the most feature-rich members of vt.ledgers12 (n <= 4), one ordering per distinct
                    template set first (round robin), quick 20 / thorough 300
          dates     D = {before the span} + every entry date (opens, prices, transactions) + each of
                    those + 1 day + {after the span}
          clauses   OPEN ON d in {absent} + D  x  CLOSE in {absent, no date} + {ON e, e in D}  x  CLEAR
                    in {absent, present}; all d <= e, plus every d > e (must be rejected)
          filter    FROM expression in {none, date >= D1, narration ~ 'buy|conv|Opening|Conversion', and the
                    compile-time constants TRUE, 1 = 1, NOT FALSE, FALSE, NULL}
          kinds     SELECT over postings, BALANCES, JOURNAL, PRINT (entries selected by the compiled
                    statement; additionally the text written by query_execute.execute_print must list
                    the same directive headers)
Oracle    with end = e (None: ledger end), period = d <= date < end, from the full ledger:
          (i)   the returned rows with flag '*' (every transaction of the family has that flag, the
                summarisation entries never do) are exactly the postings of the transactions in the
                period: same date, flag, narration, account, position, price, id, in order
                (PRINT: the very Transaction directives, compared with ==);
          (ii)  per Assets / Liabilities account: Inventory sum of the returned positions == Inventory
                sum of the account's postings dated < end in the full ledger;
          (iii) per Income / Expenses account: sum of the returned positions == its activity in the
                period, and the empty inventory with CLEAR;
                with CLOSE (dated or not) the cost-reduced total of ALL returned postings is the empty
                inventory: Assets + Liabilities + Income + Expenses + Equity = 0, i.e. the Equity accounts
                carry the difference, currency conversions included (without CLOSE only (iv) is required);
          (iv)  every returned Transaction balances: interpolate.compute_residual(postings) is small for
                the tolerances interpolate.infer_tolerances gives (SELECT through the `entry` column, PRINT
                directly); and at the level of what SELECT returns (all filters): the `weight` column of
                every returned posting, synthesised ones included, == convert.get_weight(posting), and
                the returned weights of every returned transaction total zero within tolerance -- hence the weights of all returned postings total zero: whatever (ii)/(iii)
                moved is carried by Equity postings;
          (v)   result with filter F == the rows of the clause-only result that satisfy F (F evaluated
                by the reference on date / narration with NULL semantics): the clauses apply first, in
                the fixed order, whatever the expression;  BALANCES with F == per-account sums of the
                clause-only SELECT rows satisfying F;
          (vi)  d > e: compile raises beanquery.CompilationError for all four kinds.
Sub-query (vii) the clauses of a FROM apply to THAT FROM only (the differential the property suggests: a
          statement whose IN sub-query is replaced by the literal list of the values the sub-query returns
          when run on its own must return the same rows).  For EVERY clause configuration above (the one
          without any clause included) x outer kind in {SELECT ... WHERE date IN (SELECT date FROM <inner>),
          BALANCES ... WHERE account IN (SELECT account FROM <inner>)} x every inner FROM of the alphabet
          {plain filter `date >= D1`; OPEN ON m; CLOSE ON m; CLEAR  (m = the middle enumerated date of the
          ledger); thorough adds dateless CLOSE and OPEN ON m CLOSE ON m2 CLEAR}: the inner statement is
          executed ALONE on a fresh connection (once per ledger) -> value set V; the outer statement must
          return exactly the rows of its own clause-only result (checked by (i)-(iv)) whose date / account
          is in V (BALANCES: the per-account sums of those rows; V empty: no row).  A sub-query without
          clauses sees the full ledger, one with some clauses gets exactly those, and the enclosing
          statement keeps its own clauses.  Sub-queries WITHOUT a FROM clause are not enumerated (which
          table they read is not decided by the property).
History   the order of statements on ONE connection is part of the exploration: every statement above is
          executed (a) on a brand-new connection (the reference results, checked by (i)-(vi)) and (b) on
          a long-lived connection per ledger on which statements WITHOUT FROM clause (SELECT over
          postings, SELECT FROM #entries, BALANCES, JOURNAL, PRINT) ran first and run again after every
          configuration, and on which all configurations follow one another (different dates back to
          back): (b) must return exactly what (a) returns, and the FROM-less statements must keep
          returning the whole ledger -- neither the base tables nor an earlier period may leak.
Weakest readings
          * Equity accounts have no per-account oracle (names / splitting of the carrying postings are
            beancount's business); synthetic rows are only constrained through (ii) (iii) (iv);
          * PRINT: non-transaction directives (open, price) in the output are not constrained by (i)-(iv),
            only by (v);  BALANCES: an account missing from the result == empty inventory;
          * JOURNAL: the six leading columns are compared, the running balance column is C12's/C14's;
          * Inventories are compared with beancount's equality (lots = units + cost; Decimal values).
Harness note: compiler.transform_balances / transform_journal re-parse a fixed template text on every
          compile (40-150 ms each).  During this check `beanquery.parser.parse` is memoised *by text*
          (pure function of its argument; every distinct text still goes through the real parser once
          per process), otherwise BALANCES/JOURNAL could not be enumerated over the whole space.
"""
import collections
import datetime
import io
import re

import beanquery
from beanquery import parser as bq_parser
from beanquery import query_execute
from beancount.core import convert, data, interpolate, inventory, position

from .. import ledgers12 as L
from ..harness import select, C, col, A, crash_fingerprint
from ..par import Acc, run_shards, mine
from ..runner import Result, Violation, jsonable, unjson

LEVEL = 'model_checking'

Inv = inventory.Inventory
ONE = datetime.timedelta(days=1)
BEFORE = datetime.date(2019, 6, 1)
AFTER = datetime.date(2021, 1, 1)
KINDS = ['select', 'balances', 'journal', 'print']
SELECT_COLS = 'date flag narration account position price id entry weight'.split()
NARR_RE = 'buy|conv|Opening|Conversion'

# name -> (FROM expression builder, reference on (date, narration-or-None) -> True/False/None)
FILTERS = {
    'none': (lambda: None, lambda date, narr: True),
    'date>=D1': (lambda: A.GreaterEq(col('date'), C(L.DATES[1])), lambda date, narr: date >= L.DATES[1]),
    'narration~': (lambda: A.Match(col('narration'), C(NARR_RE)),
                   lambda date, narr: None if narr is None else bool(re.search(NARR_RE, narr, re.IGNORECASE))),
    # compile-time constant filters (a literal, and expressions the compiler folds): the clauses must apply
    # exactly as without a filter; constant FALSE / NULL select nothing
    'TRUE': (lambda: C(True), lambda date, narr: True),
    '1=1': (lambda: A.Equal(C(1), C(1)), lambda date, narr: True),
    'NOT FALSE': (lambda: A.Not(C(False)), lambda date, narr: True),
    'FALSE': (lambda: C(False), lambda date, narr: False),
    'NULL': (lambda: C(None), lambda date, narr: None),
}
CONSTANT_FILTERS = ('TRUE', '1=1', 'NOT FALSE', 'FALSE', 'NULL')


# ---------------------------------------------------------------------------------------------
_parse_memo = {}
_real_parse = None


def install_parse_memo():
    """Memoise beanquery.parser.parse by text (see module docstring)."""
    global _real_parse
    if _real_parse is not None:
        return
    _real_parse = bq_parser.parse

    def parse(text, *a, **kw):
        if a or kw:
            return _real_parse(text, *a, **kw)
        r = _parse_memo.get(text)
        if r is None:
            r = _parse_memo[text] = _real_parse(text)
        return r
    bq_parser.parse = parse


# ---------------------------------------------------------------------------------------------
def choose_ledgers(count, seed, n=4):
    """Deterministic choice: template sets ordered by richness (most features first), round robin over
    the bookable orderings of each set (longest first); the seed rotates which ordering of a set comes
    first.  Bookability is tested lazily (only for the candidates reached)."""
    groups = collections.OrderedDict()
    for seq in L.sequences(n):
        if seq:
            groups.setdefault(frozenset(seq), []).append(seq)
    order = sorted(groups, key=lambda s: (-sum(L.FEATURE[t] for t in s), -len(s), sorted(s)))
    iters = {}
    for s in order:
        g = sorted(groups[s], key=lambda q: (-len(q), q))
        k = seed % len(g)
        iters[s] = iter(g[k:] + g[:k])
    chosen, skipped = [], 0
    live = list(order)
    while len(chosen) < count and live:
        for s in list(live):
            for seq in iters[s]:
                if not L.load(seq, seed)[1]:
                    chosen.append(seq)
                    break
                skipped += 1
            else:
                live.remove(s)
            if len(chosen) == count:
                break
    return chosen, sum(len(g) for g in groups.values()), skipped


class Ledger:
    def __init__(self, seq, seed):
        self.seq = tuple(seq)
        self.seed = seed
        entries, errors, options = L.load(self.seq, seed)
        assert not errors, (seq, errors)
        self.entries, self.options = entries, options
        self.errors = errors
        self.conn = self.fresh()
        self.txns = L.transactions(entries)
        assert all(t.flag == '*' for t in self.txns)
        ds = sorted({e.date for e in entries})
        self.dates = sorted({BEFORE, AFTER} | set(ds) | {d + ONE for d in ds})
        self.ids = {id(t): None for t in self.txns}
        self.inner = {}      # (vii): (column, inner FROM name) -> values of the sub-query run alone

    def fresh(self):
        """A brand-new connection on the ledger: no statement has been executed on it."""
        return beanquery.connect('beancount:', entries=self.entries, errors=self.errors, options=self.options)

    def txn_id(self, t):
        from beancount.core.compare import hash_entry
        k = id(t)
        if self.ids.get(k) is None:
            self.ids[k] = hash_entry(t)
        return self.ids[k]


def pos_of(p):
    return position.Position(p.units, p.cost)


def from_clause(fname, d, e, clear):
    return A.From(expression=FILTERS[fname][0](), open=d, close=e, clear=True if clear else None)


def statement(kind, fname, d, e, clear):
    fr = from_clause(fname, d, e, clear)
    if kind == 'select':
        return select([(col(c), c) for c in SELECT_COLS], from_=fr)
    if kind == 'balances':
        return A.Balances(None, fr, None)
    if kind == 'journal':
        return A.Journal(None, None, fr)
    return A.Print(fr)


def clause_text(d, e, clear, fname='none'):
    parts = []
    if fname != 'none':
        parts.append(fname)
    if d is not None:
        parts.append(f'OPEN ON {d}')
    if e is True:
        parts.append('CLOSE')
    elif e is not None:
        parts.append(f'CLOSE ON {e}')
    if clear:
        parts.append('CLEAR')
    return 'FROM ' + ' '.join(parts) if parts else '(no FROM)'


def execute(conn, kind, stmt):
    """-> result in the kind's own shape.  PRINT: list of entries selected by the compiled statement,
    cross-checked against the headers of the text execute_print writes."""
    if kind != 'print':
        return conn.execute(stmt).fetchall()
    c = conn.compile(stmt)
    entries = [row.entry for row in c.table if c.where is None or c.where(row)]
    buf = io.StringIO()
    query_execute.execute_print(c, buf)
    heads = [ln.split()[:2] for ln in buf.getvalue().splitlines() if re.match(r'\d{4}-\d\d-\d\d ', ln)]
    want = [[str(e.date), e.flag if isinstance(e, data.Transaction) else type(e).__name__.lower()] for e in entries]
    if heads != want:
        raise PrintMismatch(f'execute_print wrote directives {heads!r}, the compiled statement selects {want!r}')
    return entries


class PrintMismatch(Exception):
    pass


def posting_rows(kind, result):
    """Result -> [(date, flag, narration, account, position)] for the kinds that return postings."""
    if kind == 'select':
        return [tuple(r[:5]) for r in result]
    if kind == 'journal':
        return [(r[0], r[1], r[3], r[4], r[5]) for r in result]
    if kind == 'print':
        return [(e.date, e.flag, e.narration, p.account, pos_of(p))
                for e in result if isinstance(e, data.Transaction) for p in e.postings]
    raise AssertionError(kind)


def account_sums(kind, result):
    sums = collections.defaultdict(Inv)
    if kind == 'balances':
        for acc, inv in result:
            sums[acc].add_inventory(inv)
    else:
        for date, flag, narr, acc, pos in posting_rows(kind, result):
            sums[acc].add_position(pos)
    return sums


def check_clause_only(led, kind, result, d, e, clear, stats):
    """(i)-(iv) for the clause-only result of one kind."""
    out = []
    end = e if isinstance(e, datetime.date) else None
    inside = [t for t in led.txns if (d is None or t.date >= d) and (end is None or t.date < end)]
    ctext = f'{kind.upper()} {clause_text(d, e, clear)}'
    # (i)
    if kind == 'select':
        exp = [(t.date, '*', t.narration, p.account, pos_of(p), p.price, led.txn_id(t)) for t in inside for p in t.postings]
        got = [tuple(r[:7]) for r in result if r[1] == '*']
        bad = got != exp or any(r[7] != t for r, t in zip([r for r in result if r[1] == '*'], [t for t in inside for p in t.postings]))
    elif kind == 'journal':
        exp = [(t.date, '*', t.payee, t.narration, p.account, pos_of(p)) for t in inside for p in t.postings]
        got = [tuple(r[:6]) for r in result if r[1] == '*']
        bad = got != exp
    elif kind == 'print':
        exp = inside
        got = [x for x in result if isinstance(x, data.Transaction) and x.flag == '*']
        bad = got != exp
    else:
        exp = got = None
        bad = False
    if exp is not None:
        stats['rows_compared'] += len(exp)
        stats['original_rows_expected'] += len(exp)
        if exp:
            stats['configs_with_originals'] += 1
        if bad:
            if kind == 'print':
                shown = [(str(g.date), g.narration) for g in got]
            else:
                shown = [(str(g[0]), g[2] if kind == 'select' else g[3], g[3] if kind == 'select' else g[4], str(g[4] if kind == 'select' else g[5])) for g in got]
            out.append(('period:originals', f'{ctext}: rows of original transactions returned: {shown[:12]}, '
                        f'expected the postings of {[(str(t.date), t.narration) for t in inside]} unchanged and in order'))
    # (ii) (iii)
    sums = account_sums(kind, result)
    full = collections.defaultdict(Inv)
    period = collections.defaultdict(Inv)
    for t in led.txns:
        if end is None or t.date < end:
            for p in t.postings:
                full[p.account].add_position(p)
                if d is None or t.date >= d:
                    period[p.account].add_position(p)
    nsyn = 0
    if kind != 'balances':
        nsyn = sum(1 for r in posting_rows(kind, result) if r[1] != '*')
        stats['synthetic_rows'] += nsyn
        for r in posting_rows(kind, result):
            if r[1] != '*':
                stats['synthetic_flags'].add(r[1])
    for acc in sorted(set(sums) | set(full)):
        root = acc.split(':')[0]
        got_inv = sums.get(acc, Inv())
        stats['accounts_compared'] += 1
        if root in ('Assets', 'Liabilities'):
            if got_inv != full.get(acc, Inv()):
                out.append(('period:balance-sheet', f'{ctext}: {acc} totals {got_inv} over the returned rows, its balance as of '
                            f'{end or "the ledger end"} in the full ledger is {full.get(acc, Inv())}'))
            if not got_inv.is_empty():
                stats['nonempty_balance_sheet_accounts'] += 1
        elif root in ('Income', 'Expenses'):
            if clear:
                if not got_inv.is_empty():
                    out.append(('period:clear', f'{ctext}: {acc} totals {got_inv} over the returned rows, expected the empty inventory with CLEAR'))
                if not period.get(acc, Inv()).is_empty():
                    stats['cleared_nonempty_activity'] += 1
            else:
                if got_inv != period.get(acc, Inv()):
                    out.append(('period:income-statement', f'{ctext}: {acc} totals {got_inv} over the returned rows, its activity in '
                                f'[{d or "start"}, {end or "end"}) is {period.get(acc, Inv())}'))
                if full.get(acc, Inv()) != period.get(acc, Inv()):
                    stats['income_activity_cut_by_open'] += 1
    # (iii) continued: with CLOSE the report as a whole balances at cost -- Equity carries the difference
    if e is not None:
        tot = Inv()
        for acc, inv in sums.items():
            tot.add_inventory(inv.reduce(convert.get_cost))
        stats['closed_reports_totalled'] += 1
        noneq = Inv()
        for acc, inv in sums.items():
            if not acc.startswith('Equity:'):
                noneq.add_inventory(inv.reduce(convert.get_cost))
        if not noneq.is_empty():
            stats['closed_reports_with_nonzero_equity'] += 1
        if not tot.is_empty():
            eq = Inv()
            for acc, inv in sums.items():
                if acc.startswith('Equity:'):
                    eq.add_inventory(inv.reduce(convert.get_cost))
            out.append(('period:equity-carries-difference', f'{ctext}: the returned rows total {tot} at cost; with CLOSE the Equity accounts '
                        f'(total {eq}) must carry the difference of the other accounts (total {noneq}) so that the report sums to zero'))
    # (iv)
    txs = None
    if kind == 'select':
        seen, txs = set(), []
        for r in result:
            if id(r[7]) not in seen:
                seen.add(id(r[7]))
                txs.append(r[7])
    elif kind == 'print':
        txs = [x for x in result if isinstance(x, data.Transaction)]
    if txs is not None:
        for x in txs:
            stats['transactions_balanced'] += 1
            res = interpolate.compute_residual(x.postings)
            tol = interpolate.infer_tolerances(x.postings, led.options)
            if not res.is_small(tol):
                out.append(('period:unbalanced-transaction', f'{ctext}: returned transaction {x.date} {x.flag} "{x.narration}" '
                            f'has residual {res} (tolerances {tol})'))
    return out


def check_weights(led, result, ctext, stats):
    """(iv) at the level of what the query returns: the `weight` of every returned posting (synthesised
    ones included) is beancount's convert.get_weight of that posting, and the returned weights of every
    returned transaction total zero within tolerance."""
    out = []
    by_entry = collections.OrderedDict()
    for r in result:
        entry, account, pos, price, weight = r[7], r[3], r[4], r[5], r[8]
        cands = [p for p in entry.postings if p.account == account and pos_of(p) == pos and p.price == price]
        stats['weights_compared'] += 1
        if price is not None and not price.number:
            stats['zero_price_postings_weighed'] += 1
        if not cands:
            out.append(('period:originals', f'{ctext}: returned row {account} {pos} is not a posting of its own entry {entry.date} "{entry.narration}"'))
            continue
        exp = convert.get_weight(cands[0])
        if weight != exp:
            out.append(('period:weight', f'{ctext}: posting {account} {pos}{" @ " + str(price) if price else ""} of {entry.date} {entry.flag} '
                        f'"{entry.narration}" has weight {weight}, beancount convert.get_weight gives {exp}'))
        by_entry.setdefault(id(entry), (entry, []))[1].append(weight)
    for entry, weights in by_entry.values():
        if len(weights) != len(entry.postings):
            continue
        stats['transactions_weighed'] += 1
        res = Inv()
        for w in weights:
            res.add_amount(w)
        if not res.is_small(interpolate.infer_tolerances(entry.postings, led.options)):
            out.append(('period:unbalanced-transaction', f'{ctext}: the returned weights of transaction {entry.date} {entry.flag} '
                        f'"{entry.narration}" total {res}, expected zero within tolerance'))
    return out


def filter_expected(led, kind, fname, base):
    """(v): what the clause-only result(s) reduce to under filter F."""
    f = FILTERS[fname][1]
    if kind == 'select':
        return [r for r in base['select'] if f(r[0], r[2]) is True]
    if kind == 'journal':
        return [tuple(r[:6]) for r in base['journal'] if f(r[0], r[3]) is True]
    if kind == 'print':
        return [x for x in base['print'] if f(x.date, x.narration if isinstance(x, data.Transaction) else None) is True]
    sums = collections.defaultdict(Inv)
    for r in base['select']:
        if f(r[0], r[2]) is True:
            sums[r[3]].add_position(r[4])
    return sums


def run_config(led, d, e, clear, stats, results=None, thorough=True, only=None):
    """All kinds x filters of one clause configuration, each statement on a FRESH connection
    -> [(fingerprint, message, kind, filter)]; results (optional dict) receives, per (kind, filter),
    ('ok', result) or ('exc', exception class name)."""
    out = []
    base = {}
    for kind in KINDS:
        for fname in FILTERS:
            stmt = statement(kind, fname, d, e, clear)
            ctext = f'{kind.upper()} {clause_text(d, e, clear, fname)}'
            stats['statements'] += 1
            try:
                result = execute(led.fresh(), kind, stmt)
            except PrintMismatch as x:
                out.append(('print:text-vs-selection', f'{ctext}: {x}', kind, fname))
                if results is not None:
                    results[kind, fname] = ('exc', 'PrintMismatch')
                continue
            except Exception as x:
                out.append((f'crash:{crash_fingerprint(x)}', f'{ctext}: {type(x).__name__}: {x}', kind, fname))
                stats['crashes'] += 1
                if results is not None:
                    results[kind, fname] = ('exc', type(x).__name__)
                continue
            if results is not None:
                results[kind, fname] = ('ok', result)
            stats['executed'] += 1
            stats['result_rows'] += len(result)
            if kind == 'select':
                for fp, msg in check_weights(led, result, ctext, stats):
                    out.append((fp, msg, kind, fname))
            if fname == 'none':
                base[kind] = result
                for fp, msg in check_clause_only(led, kind, result, d, e, clear, stats):
                    out.append((fp, msg, kind, fname))
                continue
            if kind not in base or (kind == 'balances' and 'select' not in base):
                continue
            exp = filter_expected(led, kind, fname, base)
            if kind == 'balances':
                got = account_sums('balances', result)
                accs = set(got) | set(exp)
                same = all(got.get(a, Inv()) == exp.get(a, Inv()) for a in accs)
                stats['rows_compared'] += len(accs)
                n_exp = sum(1 for a in exp if not exp[a].is_empty())
            else:
                got = [tuple(r[:6]) for r in result] if kind == 'journal' else list(result)
                same = got == exp
                stats['rows_compared'] += len(exp)
                n_exp = len(exp)
            if 0 < n_exp < (len(base[kind]) if kind != 'balances' else len(base['select'])):
                stats['filters_that_cut'] += 1
            if not same:
                def brief(x):
                    if isinstance(x, dict):
                        return {a: str(v) for a, v in sorted(x.items()) if not v.is_empty()}
                    return [(str(r[0]), r[1], (r[2] if kind == 'select' else r[3])) if not hasattr(r, 'date') else (str(r.date), type(r).__name__) for r in x]
                out.append(('period:filter-order', f'{ctext}: got {brief(got)}, expected the rows of the clause-only result that satisfy '
                            f'the filter: {brief(exp)}', kind, fname))
    if 'select' in base:
        out.extend(run_subqueries(led, d, e, clear, base['select'], stats, thorough, only))
    return out


# (vii) IN sub-queries with a FROM of their own: outer kind -> column tested / returned by the sub-query
SUB_KINDS = {'select': ('date', 0), 'balances': ('account', 3)}     # column name, index in SELECT_COLS rows
SUB_PREFIX = 'IN-sub:'


def inner_froms(led, thorough=True):
    """name -> ast.From of the sub-query (fresh node objects each call)."""
    m, m2 = led.dates[len(led.dates) // 2], led.dates[(3 * len(led.dates)) // 4]
    out = collections.OrderedDict()
    out[f'date >= {L.DATES[1]}'] = A.From(expression=FILTERS['date>=D1'][0](), open=None, close=None, clear=None)
    out[f'OPEN ON {m}'] = A.From(expression=None, open=m, close=None, clear=None)
    out[f'CLOSE ON {m}'] = A.From(expression=None, open=None, close=m, clear=None)
    out['CLEAR'] = A.From(expression=None, open=None, close=None, clear=True)
    if thorough:
        out['CLOSE'] = A.From(expression=None, open=None, close=True, clear=None)
        out[f'OPEN ON {m} CLOSE ON {m2} CLEAR'] = A.From(expression=None, open=m, close=m2, clear=True)
    return out


def inner_values(led, colname, iname, stats):
    """Values the sub-query returns when executed alone on a fresh connection (cached per ledger)
    -> ('ok', frozenset) | ('exc', fingerprint, text)."""
    key = (colname, iname)
    if key not in led.inner:
        stats['statements'] += 1
        stats['subquery_inner_alone'] += 1
        try:
            rows = led.fresh().execute(select([(col(colname), colname)], from_=inner_froms(led)[iname])).fetchall()
            led.inner[key] = ('ok', frozenset(r[0] for r in rows))
        except Exception as x:
            led.inner[key] = ('exc', crash_fingerprint(x), f'{type(x).__name__}: {x}')
    return led.inner[key]


def sub_statement(led, kind, d, e, clear, iname):
    colname = SUB_KINDS[kind][0]
    where = A.In(col(colname), select([(col(colname), colname)], from_=inner_froms(led)[iname]))
    fr = from_clause('none', d, e, clear)
    if kind == 'select':
        return select([(col(c), c) for c in SELECT_COLS[:5]], from_=fr, where=where)
    return A.Balances(None, fr, where)


def run_subqueries(led, d, e, clear, base_select, stats, thorough=True, only=None):
    """(vii) -> [(fingerprint, message, kind, SUB_PREFIX + inner name)]."""
    out = []
    outer = clause_text(d, e, clear)
    outer = '' if outer == '(no FROM)' else outer + ' '
    for kind, (colname, idx) in SUB_KINDS.items():
        for iname in inner_froms(led, thorough):
            tag = SUB_PREFIX + iname
            if only is not None and only != (kind, tag):
                continue
            ctext = f'{kind.upper()} {outer}WHERE {colname} IN (SELECT {colname} FROM {iname})'
            alone = inner_values(led, colname, iname, stats)
            if alone[0] != 'ok':
                out.append((f'crash:{alone[1]}', f'SELECT {colname} FROM {iname}: {alone[2]}', kind, tag))
                continue
            values = alone[1]
            stats['statements'] += 1
            stats['subquery_statements'] += 1
            try:
                result = led.fresh().execute(sub_statement(led, kind, d, e, clear, iname)).fetchall()
            except Exception as x:
                out.append((f'crash:{crash_fingerprint(x)}', f'{ctext}: {type(x).__name__}: {x}', kind, tag))
                stats['crashes'] += 1
                continue
            stats['executed'] += 1
            stats['result_rows'] += len(result)
            keep = [r for r in base_select if r[idx] in values]
            if 0 < len(keep) < len(base_select):
                stats['subquery_cases_cutting_rows'] += 1
            if kind == 'select':
                exp = [tuple(r[:5]) for r in keep]
                got = [tuple(r) for r in result]
                same = got == exp
                stats['rows_compared'] += len(exp)
                shown = lambda rows: [(str(r[0]), r[1], r[3], str(r[4])) for r in rows[:12]]
            else:
                exp = collections.defaultdict(Inv)
                for r in keep:
                    exp[r[3]].add_position(r[4])
                try:
                    got = account_sums('balances', result)
                    accs = sorted(set(got) | set(exp))
                    same = all(got.get(a, Inv()) == exp.get(a, Inv()) for a in accs)
                except Exception as x:
                    out.append(('subquery:from-clauses-not-its-own', f'{ctext}: malformed result {result!r:.200} ({type(x).__name__})', kind, tag))
                    continue
                stats['rows_compared'] += len(accs)
                shown = lambda sums: {a: str(v) for a, v in sorted(sums.items()) if not v.is_empty()}
            if not same:
                out.append(('subquery:from-clauses-not-its-own',
                            f'{ctext}: got {shown(got)}; the sub-query alone returns {sorted(map(str, values))}, the rows of '
                            f'{kind.upper()} {outer.strip() or "(no FROM)"} whose {colname} is among these are {shown(exp)}', kind, tag))
    return out


BASE_KINDS = ['select', 'entries', 'balances', 'journal', 'print']


def base_statement(kind):
    """Statements WITHOUT a FROM clause (they iterate the connection's base tables themselves)."""
    if kind == 'select':
        return select([(col(c), c) for c in SELECT_COLS])
    if kind == 'entries':
        return select([(col('date'), 'date'), (col('type'), 'type'), (col('id'), 'id')], from_='entries')
    if kind == 'balances':
        return A.Balances(None, None, None)
    if kind == 'journal':
        return A.Journal(None, None, None)
    return A.Print(None)


class Warm:
    """One long-lived connection per ledger on which statements without FROM clause (postings and entries
    tables, BALANCES, JOURNAL, PRINT) are executed first and again between the clause statements, and on
    which all clause configurations follow one another (different dates back to back).  Every result must
    equal the result of the same statement on a fresh connection: neither the base tables nor an earlier
    period may leak into a later statement, nor the other way round."""

    def __init__(self, led, stats):
        self.led = led
        self.conn = led.fresh()
        self.prev = None
        self.base = {}
        self.problems = []
        for kind in BASE_KINDS:
            stats['statements'] += 1
            stats['history_statements'] += 1
            r = self.run_base(kind)
            self.base[kind] = r
            if r[0] == 'ok' and kind in ('select', 'balances', 'journal', 'print'):
                # the base statements themselves: the whole ledger, unchanged
                for fp, msg in check_clause_only(led, kind, r[1], None, None, False, stats):
                    self.problems.append((fp, 'statement without FROM clause: ' + msg, kind, 'none'))
            elif r[0] == 'exc':
                self.problems.append((f'crash:{r[2]}', f'{kind.upper()} without FROM clause: {r[1]}', kind, 'none'))

    def run_base(self, kind):
        try:
            k = 'print' if kind == 'print' else 'select'
            return ('ok', execute(self.conn, k, base_statement(kind)))
        except Exception as x:
            return ('exc', type(x).__name__, crash_fingerprint(x))

    def follow(self, d, e, clear, results, stats):
        """Execute the configuration's statements on the warm connection -> [(fp, msg, kind, filter)]."""
        out = []
        for (kind, fname), fresh in results.items():
            if fname in CONSTANT_FILTERS:
                continue      # row-independent filters add nothing to the history dimension
            stmt = statement(kind, fname, d, e, clear)
            ctext = f'{kind.upper()} {clause_text(d, e, clear, fname)}'
            stats['statements'] += 1
            stats['history_statements'] += 1
            try:
                got = ('ok', execute(self.conn, kind, stmt))
            except PrintMismatch:
                got = ('exc', 'PrintMismatch')
            except Exception as x:
                got = ('exc', type(x).__name__)
            stats['rows_compared'] += len(got[1]) if got[0] == 'ok' else 0
            if got != fresh:
                def brief(r):
                    if r[0] == 'exc':
                        return f'raises {r[1]}'
                    return f'{len(r[1])} rows/entries'
                n_first = next((i for i, (a, b) in enumerate(zip(got[1], fresh[1])) if a != b), None) if got[0] == fresh[0] == 'ok' else None
                detail = ''
                if n_first is not None:
                    fmt = lambda x: (str(x.date), type(x).__name__, getattr(x, 'narration', None)) if hasattr(x, 'date') else tuple(str(v) for v in x[:6])
                    detail = f'; first difference at index {n_first}: {fmt(got[1][n_first])} vs {fmt(fresh[1][n_first])}'
                out.append(('history:clause-statement-depends-on-earlier-statements',
                            f'{ctext}: on a connection that already executed statements without FROM clause'
                            f'{" and " + clause_text(*self.prev) if self.prev else ""} the result is {brief(got)}, on a fresh connection {brief(fresh)}{detail}',
                            kind, fname))
        # the base tables after the clause statements
        for kind in ('select', 'print'):
            stats['statements'] += 1
            stats['history_statements'] += 1
            r = self.run_base(kind)
            if r != self.base[kind]:
                out.append(('history:base-table-result-changed', f'{kind.upper()} without FROM clause returns a different result after '
                            f'{clause_text(d, e, clear)} was executed on the same connection', kind, 'none'))
        self.prev = (d, e, clear)
        return out


def run_reject(led, d, e, clear, kind, fname, stats):
    """(vi) d > e must be rejected at compile time."""
    stmt = statement(kind, fname, d, e, clear)
    ctext = f'{kind.upper()} {clause_text(d, e, clear, fname)}'
    stats['statements'] += 1
    stats['reject_cases'] += 1
    try:
        led.fresh().compile(stmt)
    except beanquery.CompilationError:
        stats['rejected'] += 1
        return []
    except Exception as x:
        return [(f'crash:{crash_fingerprint(x)}', f'{ctext}: {type(x).__name__}: {x} (expected CompilationError)', kind, fname)]
    return [('period:close-before-open-accepted', f'{ctext}: compiled without error, expected CompilationError (CLOSE date before OPEN date)', kind, fname)]


def configurations(dates):
    """Every clause configuration with d <= e (d, e dates or absent; CLOSE without date as True)."""
    opens = [None] + dates
    closes = [None, True] + dates
    for d in opens:
        for e in closes:
            if d is not None and isinstance(e, datetime.date) and d > e:
                continue
            for clear in (False, True):
                yield d, e, clear


class Stats(dict):
    def __missing__(self, k):
        v = set() if k == 'synthetic_flags' else 0
        self[k] = v
        return v


def mkcase(led, d, e, clear, kind, fname, reject=False):
    return {'seq': list(led.seq), 'seed': led.seed, 'open': jsonable(d), 'close': jsonable(e), 'clear': clear,
            'kind': kind, 'filter': fname, 'reject': reject}


def replay(case):
    install_parse_memo()
    led = Ledger(case['seq'], case['seed'])
    d, e = unjson(case['open']), unjson(case['close'])
    stats = Stats()
    if case.get('base'):
        out = Warm(led, stats).problems
    elif case.get('history'):
        warm = Warm(led, stats)
        if case.get('prev'):
            pd, pe, pc = unjson(case['prev'][0]), unjson(case['prev'][1]), case['prev'][2]
            res = {}
            run_config(led, pd, pe, pc, Stats(), res, only=('', ''))
            warm.follow(pd, pe, pc, res, Stats())
        res = {}
        run_config(led, d, e, case['clear'], Stats(), res, only=('', ''))
        out = [o for o in warm.follow(d, e, case['clear'], res, stats) if o[2] == case['kind'] and o[3] == case['filter']]
    elif case.get('reject'):
        out = run_reject(led, d, e, case['clear'], case['kind'], case['filter'], stats)
    else:
        out = [o for o in run_config(led, d, e, case['clear'], stats, only=(case['kind'], case['filter'])) if o[2] == case['kind'] and o[3] == case['filter']]
    return [Violation(fp, f'ledger {list(led.seq)}: {msg}', case) for fp, msg, kind, fname in out]


def shard(shard_i, nshards, seqs, seed, thorough=False):
    install_parse_memo()
    acc = Acc()
    work = 0
    for li, seq in enumerate(seqs):
        led = Ledger(seq, seed)
        stats = Stats()
        mine_any = False
        warm = None
        for ci, (d, e, clear) in enumerate(configurations(led.dates)):
            work += 1
            if not mine(work, shard_i, nshards):
                continue
            mine_any = True
            if warm is None:
                warm = Warm(led, stats)
                for fp, msg, kind, fname in warm.problems:
                    acc.violation(fp, f'ledger {list(seq)}: {msg}', dict(mkcase(led, None, None, False, kind, fname), base=True))
            acc.count('configurations')
            acc.add('clause_shapes', (d is not None, 'dateless' if e is True else ('date' if e is not None else 'absent'), clear))
            results = {}
            for fp, msg, kind, fname in run_config(led, d, e, clear, stats, results, thorough):
                acc.violation(fp, f'ledger {list(seq)}: {msg}', mkcase(led, d, e, clear, kind, fname))
            prev = warm.prev
            for fp, msg, kind, fname in warm.follow(d, e, clear, results, stats):
                case = mkcase(led, d, e, clear, kind, fname)
                case['history'] = True
                case['prev'] = None if prev is None else [jsonable(prev[0]), jsonable(prev[1]), prev[2]]
                acc.violation(fp, f'ledger {list(seq)}: {msg}', case)
        # (vi) every d > e
        for d in led.dates:
            for e in led.dates:
                if d <= e:
                    continue
                work += 1
                if not mine(work, shard_i, nshards):
                    continue
                for clear in (False, True):
                    for kind in KINDS:
                        for fname in ('none', 'date>=D1', 'TRUE', '1=1', 'NOT FALSE'):
                            for fp, msg, kind, fname in run_reject(led, d, e, clear, kind, fname, stats):
                                acc.violation(fp, f'ledger {list(seq)}: {msg}', mkcase(led, d, e, clear, kind, fname, reject=True))
        for k, v in stats.items():
            if isinstance(v, set):
                for item in v:
                    acc.add(k, item)
            else:
                acc.count(k, v)
        if shard_i == li % nshards and mine_any:
            d, e = led.dates[len(led.dates) // 2], led.dates[-3]
            rows = led.fresh().execute(statement('select', 'none', d, e, True)).fetchall()
            acc.sample({'ledger': list(seq), 'dates_enumerated': [str(x) for x in led.dates],
                        'statement': 'SELECT date, flag, narration, account, position, price, id, entry ' + clause_text(d, e, True),
                        'rows': [[str(v) for v in r[:5]] for r in rows]}, limit=1)
    return acc


def minimise(violations):
    """Per fingerprint put a simplest case first (shards report in shard order): same defect on a shorter
    prefix of the ledger, without CLEAR, without filter, as a SELECT -- each kept only if it reproduces."""
    out, seen = [], set()
    for v in violations:
        if v.fingerprint not in seen:
            seen.add(v.fingerprint)
            seq = v.case['seq']
            trials = [{'seq': seq[:k]} for k in range(len(seq))] + [{'clear': False}, {'filter': 'none'}, {'kind': 'select'}]
            done_seq = False
            for change in trials:
                if 'seq' in change and done_seq:
                    continue
                case = dict(v.case, **change)
                if case == v.case or L.load(tuple(case['seq']), case['seed'])[1]:
                    continue
                try:
                    small = [w for w in replay(case) if w.fingerprint == v.fingerprint]
                except Exception:
                    small = []
                if small:
                    v = small[0]
                    done_seq = done_seq or 'seq' in change
        out.append(v)
    return out


def run(ctx):
    install_parse_memo()
    count = ctx.pick(20, 300)
    seqs, pool, unbookable = choose_ledgers(count, ctx.seed)
    acc = run_shards(shard, ctx.jobs, seqs, ctx.seed, bool(ctx.thorough))
    c = acc.n
    ndates = sorted({len(Ledger(s, ctx.seed).dates) for s in seqs[:50]})
    cov = {
        'states': c['statements'],
        'transitions': c['rows_compared'] + c['accounts_compared'] + c['transactions_balanced'] + c['reject_cases'],
        'traces_validated_against_impl': c['executed'] + c['reject_cases'],
        'evaluations': c['statements'],
        'distinct_nontrivial': c['configs_with_originals'] + c['filters_that_cut'] + c['subquery_cases_cutting_rows'],
        'rule': 'a case is one (ledger, OPEN date or absent, CLOSE date / dateless / absent, CLEAR, filter, statement kind) tuple, every '
                'one distinct by construction; non-trivial = clause-only cases whose period contains at least one original transaction '
                'plus filter cases where the filter keeps some but not all rows of the clause-only result (both counted); a sub-query case is one '
                '(ledger, clause configuration, outer kind, sub-query FROM) tuple, non-trivial when the IN keeps some but not all rows of the '
                'clause-only result (counted in in_subquery_cases_keeping_some_but_not_all_rows)',
        'exhaustive': True,
        'bound': f'{len(seqs)} ledgers (of {pool} non-empty candidate sequences, n <= 4; {unbookable} unbookable candidates skipped while choosing) x all clause configurations over every entry date, '
                 f'the day after, before and after the span ({ndates} dates per ledger) x {len(FILTERS)} filters x {len(KINDS)} kinds; plus all d > e; '
                 f'plus every clause configuration x {{SELECT WHERE date IN, BALANCES WHERE account IN}} x {4 + 2 * bool(ctx.thorough)} sub-query FROM clauses (m, m2 = the dates at 1/2, 3/4 of the enumerated dates)',
        'ledgers': len(seqs),
        'ledgers_skipped_unbookable_while_choosing': unbookable,
        'clause_configurations': c['configurations'],
        'distinct_clause_shapes': len(acc.sets['clause_shapes']),
        'statements_executed': c['executed'],
        'statements_crashed': c['crashes'],
        'result_rows_total': c['result_rows'],
        'original_rows_expected': c['original_rows_expected'],
        'synthetic_rows_seen': c['synthetic_rows'],
        'synthetic_flags_seen': sorted(acc.sets['synthetic_flags']),
        'account_totals_compared': c['accounts_compared'],
        'nonempty_balance_sheet_totals': c['nonempty_balance_sheet_accounts'],
        'income_totals_cut_by_OPEN': c['income_activity_cut_by_open'],
        'income_totals_cleared_nonempty': c['cleared_nonempty_activity'],
        'transactions_residual_checked': c['transactions_balanced'],
        'returned_weights_compared': c['weights_compared'],
        'returned_zero_price_postings_weighed': c['zero_price_postings_weighed'],
        'returned_transactions_weight_totalled': c['transactions_weighed'],
        'closed_reports_totalled_at_cost': c['closed_reports_totalled'],
        'closed_reports_where_equity_carries_nonzero': c['closed_reports_with_nonzero_equity'],
        'filter_cases_cutting_rows': c['filters_that_cut'],
        'statements_on_the_long_lived_connection': c['history_statements'],
        'in_subquery_statements': c['subquery_statements'],
        'in_subquery_inner_statements_run_alone': c['subquery_inner_alone'],
        'in_subquery_cases_keeping_some_but_not_all_rows': c['subquery_cases_cutting_rows'],
        'in_subquery_inner_froms': list(inner_froms(Ledger(seqs[0], ctx.seed), bool(ctx.thorough))) if seqs else [],
        'close_before_open_cases': c['reject_cases'],
        'close_before_open_rejected': c['rejected'],
        'violating_cases': c['violating_cases'],
        'alphabet': {'filters': list(FILTERS), 'kinds': KINDS, 'ledgers_first_10': [list(s) for s in seqs[:10]]},
        'samples': acc.samples[:4],
    }
    return Result(cov, minimise(acc.violations), assumptions=[
        'rows of original transactions are recognised by flag "*" (all family transactions carry it; beancount summarisation uses S/T/C)',
        'Equity accounts have no per-account oracle; their role is checked through every returned transaction balancing',
        'PRINT: only Transaction directives are constrained by (i)-(iv); JOURNAL balance column not compared; BALANCES missing account == empty',
        'beanquery.parser.parse memoised by text during the check (transform_balances/transform_journal re-parse a fixed template on every compile)',
        'IN sub-queries: the sub-query run alone as a top-level statement on a fresh connection defines the value list (differential stated by the property); '
        'membership is Python `in` on dates / account names (never NULL here); sub-queries without a FROM clause are not enumerated',
        'results on the long-lived connection are compared by value (==) with the results on fresh connections',
        'beancount loader, Inventory, interpolate, printer are trusted; the reference never calls beancount.ops.summarize',
    ])
