"""C17 -- numberify decomposes amounts per currency without losing or inventing quantities.

Technique: bounded-exhaustive enumeration (E-enum) of result tables on the real
``beanquery.numberify.numberify_results``; the oracle is written from the property statement (units of the
input values, summed per currency with beancount's data model), never from the converters.

E  tables   one amount-like column (Amount, Position or Inventory): every column of 0..3 (quick) / 0..4 (thorough)
            cells over the datatype's alphabet {NULL, one or two of three currencies, zero amounts, amounts with
            more / fewer digits than the display precision, amounts of a thousand and more (where a formatter that renders
            thousands separators would write them), multi-lot inventories, one currency held both at cost (two lots) and
            without cost in one inventory, lots that cancel, the empty inventory}, in five layouts: alone, between a plain int and a plain str column, before a plain int column,
            after / before a plain column that SHARES ITS NAME (BQL allows duplicate names), before a plain int
            column; two (quick) / two and three (thorough) amount-like columns of every datatype combination with
            plain columns in between, 0..2 rows over reduced alphabets.  Each table without a formatter, with the default
            formatter of a second ledger whose most common and maximum digit counts differ, with that ledger's
            formatter built with Precision.MAXIMUM, with
            the DisplayFormatter of a loaded ledger (``options['dcontext'].build()``, as ``run_query`` does), and with the
            formatter of the same ledger loaded with ``option "render_commas" "TRUE"`` (a RENDERING preference: the precision
            is unchanged, so the expected cells are the same numbers).
O  from the statement:
   (a) same number of rows; (b) the output columns are, in order, for a plain input column the same
   (name, datatype) with identical cells, for an amount-like column ``x`` a run of decimal columns named
   ``x (CUR)``; (c) the CURs of a run are distinct currencies occurring in the column and include every currency
   with a non-zero number of units in some row; (d) the run is in non-increasing frequency; (e) cell = sum of
   the units of CUR over the lots of the row's value, quantised at CUR's display precision when a formatter is
   given; NULL or zero when CUR is absent from the row's value (or the value is NULL).
S  weakest readings: see ``ASSUMPTIONS``.
"""
import collections
import itertools
import json
from decimal import Decimal as D

from beanquery import Column
from beanquery.numberify import numberify_results

from ..harness import crash_fingerprint
from ..par import Acc, mine, run_shards
from ..ref import render as R
from ..runner import Result, Violation

LEVEL = 'model_checking'

ASSUMPTIONS = [
    'frequency of a currency is read either as the number of rows whose value contains it or as the number of lots holding it; an order '
    'non-increasing under one of the two is accepted; the order among equally frequent currencies is not specified',
    'a currency occurring only with zero units (0 USD, or lots that cancel) may have a column or not; every currency with a non-zero number of units in some row must have one',
    'where the expected number is zero (currency absent, NULL value, zero amount, cancelling lots, or a number that quantises to zero) NULL and zero are both accepted',
    'quantised = exactly the display precision\'s number of fractional digits and within half a unit of the last place of the sum (rounding rule not specified); '
    'the sum over lots is quantised, not the lots',
    'without a formatter cells are compared numerically (trailing zeros are not compared)',
    'the precision a formatter quantises to is the one it was BUILT with: build() = most common digits of the ledger (USD 2, HOOL 3, EUR 0), '
    'build(precision=Precision.MAXIMUM) = the most digits seen (second ledger: USD 4, HOOL 5, EUR 1 against 2 / 3 / 0 most common); currencies unknown to the formatter are outside',
    'rendering preferences carried by a formatter (thousands separators of a ledger with option "render_commas") are not part of the display precision: '
    'the cells expected with the formatter "commas" are those expected with the formatter "default"',
    'column names may repeat (SELECT a AS x, b AS x): the oracle is applied per column POSITION; two amount-like columns of one name are never placed '
    'next to each other because their runs of "x (CUR)" columns could not be told apart',
    'plain columns must come back as the identical objects / equal values of the same type; the input description and rows are not checked for mutation',
]

AMOUNTLIKE = ('amount', 'position', 'inventory')


def _amountlike_types():
    from beancount.core import amount, position, inventory
    return (amount.Amount, position.Position, inventory.Inventory)


AMOUNTLIKE_TYPES = _amountlike_types()

# The formatters of vt.ref.render plus one that carries a RENDERING preference: the formatter of the first ledger loaded with
# ``option "render_commas" "TRUE"`` (thousands separators), built with build() as run_query does.  The property speaks of the
# display PRECISION only: how the formatter would render the number as text must not matter for the cell.
FORMATTER_KINDS = R.FORMATTER_KINDS + ('commas',)
_COMMAS = []


def formatter(kind):
    """-> (DisplayFormatter or None, {currency: fractional digits it must quantise to})"""
    if kind != 'commas':
        return R.formatter(kind)
    if not _COMMAS:
        from beancount import loader
        entries, errors, options = loader.load_string('option "render_commas" "TRUE"\n' + R.LEDGER)
        if errors:
            raise RuntimeError(f'harness ledger does not load: {errors!r}')
        fmt = options['dcontext'].build()
        if ',' not in fmt.format(D('1234567.5'), 'USD'):
            raise RuntimeError('harness: the formatter of the render_commas ledger renders no thousands separators')
        for cur in ('USD', 'HOOL', 'EUR'):
            got = options['dcontext'].quantize(D('1.23456789'), cur).as_tuple().exponent
            if got != -R.PRECISION[cur]:
                raise RuntimeError(f'harness: formatter commas quantises {cur} to {-got} digits, the table says {R.PRECISION[cur]}')
        _COMMAS.append((fmt, R.PRECISION))
    return _COMMAS[0]


def _rot(seq, seed):
    return seq[seed % len(seq)]


def alphabets(seed):
    A, C, P, I = R.A, R.C, R.P, R.I
    o1 = _rot(['1.5', '2.5', '12.5', '7.25'], seed)
    o2 = _rot(['-2', '-3', '-11'], seed)
    c3, c4 = C('3.00', 'USD'), C('4.00', 'USD')
    full = {
        'amount': [None, A(o1, 'USD'), A('1234.14159', 'USD'), A('-0.1234', 'USD'), A('0', 'USD'), A(o2, 'EUR'), A('1.123', 'HOOL'), A('-0.0004', 'HOOL'), A('0.50', 'EUR')],
        'position': [None, P('1.123', 'HOOL', C('2.50', 'USD', label='lbl')), P('-3', 'USD'), P('0', 'EUR'), P('2', 'HOOL', c3), P('1234.14159', 'USD'),
                     P(o2, 'EUR'), P('-0.1234', 'USD')],
        'inventory': [None, I(), I(P(o1, 'USD')), I(P('1', 'USD'), P('2.5', 'HOOL', c3)),
                      I(P(o2, 'EUR'), P('2', 'HOOL', c3), P('1', 'HOOL', c4), P('4', 'HOOL')),   # three lots of one currency: two at cost, one held without cost
                      I(P('1', 'HOOL', c3), P('-1', 'HOOL', c4)),                           # lots that cancel
                      I(P('0.0004', 'HOOL', c3), P('0.0004', 'HOOL', c4), P('3.14159', 'USD')),   # sum quantises differently from the lots
                      I(P('7', 'EUR'), P('-1008.80750', 'USD'))],
    }
    reduced = {
        'amount': [None, A(o1, 'USD'), A(o2, 'EUR'), A('0', 'USD')],
        'position': [None, P('2', 'HOOL', c3), P('-3', 'USD'), P('1234.14159', 'USD')],
        'inventory': [I(), I(P('1', 'USD'), P('2.5', 'HOOL', c3)), I(P(o2, 'EUR'), P('2', 'HOOL', c3), P('1', 'HOOL')), None],
    }
    return full, reduced


def tables(seed, thorough):
    """Deterministic, simplest-first enumeration of (column specs [(name, dtype name)], rows)."""
    full, reduced = alphabets(seed)
    maxcells = 4 if thorough else 3
    for n in range(0, maxcells + 1):
        for t in AMOUNTLIKE:
            for vals in itertools.product(full[t], repeat=n):
                yield [('x', t)], [(v,) for v in vals]
                yield [('i', 'int'), ('x', t), ('s', 'str')], [(k, v, 's%d' % k) for k, v in enumerate(vals)]
                yield [('x', t), ('i', 'int')], [(v, 10 - k) for k, v in enumerate(vals)]
                # BQL allows duplicate column names: a plain column sharing its name with the amount-like one, before and after it
                yield [('x', 'str'), ('x', t)], [('s%d' % k, v) for k, v in enumerate(vals)]
                yield [('x', t), ('x', 'int')], [(v, 10 - k) for k, v in enumerate(vals)]
    for ncols in ((2, 3) if thorough else (2,)):
        for ts in itertools.product(AMOUNTLIKE, repeat=ncols):
            cells = list(itertools.product(*(reduced[t] for t in ts)))
            # distinct names, and two amount-like columns SHARING a name (never adjacent: the runs of "x (CUR)" columns of two
            # adjacent columns of one name could not be told apart)
            for names in (['x', 'y', 'z'][:ncols], ['x', 'x'] if ncols == 2 else ['x', 'y', 'x']):
                for n in (0, 1, 2):
                    for rws in itertools.product(cells, repeat=n):
                        # plain columns between the amount-like ones; the str column holds NULLs as well
                        cols = [(names[0], ts[0]), ('s', 'str')] + [c for k in range(1, ncols) for c in ((names[k], ts[k]),)] + [('i', 'int')]
                        rows = [(r[0], None if k else 'a b') + tuple(r[1:]) + (k,) for k, r in enumerate(rws)]
                        yield cols, rows


# -- oracle ------------------------------------------------------------------------------------------

def lots(v):
    """[(currency, units number)] of a value, from beancount's data model."""
    if v is None:
        return []
    if isinstance(v, R.Amount):
        return [(v.currency, v.number)]
    if isinstance(v, R.Position):
        return [(v.units.currency, v.units.number)]
    return [(p.units.currency, p.units.number) for p in v.get_positions()]


def quantised_ok(cell, total, p):
    return cell.as_tuple().exponent == -p and abs(cell - total) * 2 <= D(1).scaleb(-p)


def fmt_kind(fmt):
    """formatter kind of a case (older replay files hold a boolean)"""
    return {True: 'default', False: 'none'}.get(fmt, fmt)


def expectation(cols, rows):
    """What the statement fixes for a table whatever the formatter: (input description, {column position: (values, per-row
    {currency: units summed over lots}, per-row {currency: number of lots}, row frequency, lot frequency, currencies with non-zero
    units)}), from beancount's data model only."""
    desc = [Column(n, R.DTYPES[t]) for n, t in cols]
    per = {}
    for j, (name, t) in enumerate(cols):
        if t not in AMOUNTLIKE:
            continue
        values = [r[j] for r in rows]
        rowfreq, lotfreq, nonzero = collections.Counter(), collections.Counter(), set()
        sums, nlots = [], []
        for v in values:
            s, nl = {}, {}
            for cur, num in lots(v):
                s[cur] = s.get(cur, D(0)) + num
                nl[cur] = nl.get(cur, 0) + 1
                lotfreq[cur] += 1
            for cur, num in s.items():
                rowfreq[cur] += 1
                if num != 0:
                    nonzero.add(cur)
            sums.append(s)
            nlots.append(nl)
        per[j] = (values, sums, nlots, rowfreq, lotfreq, nonzero)
    return desc, per


def check(cols, rows, fmt, stats, pre=None):
    """fmt: one of FORMATTER_KINDS; pre: expectation(cols, rows) when already computed.  -> [(locus, message)]"""
    desc, per = pre if pre is not None else expectation(cols, rows)
    dformat, prec = formatter(fmt_kind(fmt))
    try:
        ocols, orows = numberify_results(desc, rows, dformat)
    except Exception as e:    # noqa: BLE001 - any crash is a finding
        return [(crash_fingerprint(e), f'numberify_results raised {type(e).__name__}: {e}')]
    stats['completed'] += 1
    ocols = list(ocols)
    orows = [list(r) for r in orows]
    if len(orows) != len(rows):
        return [('rows', f'{len(orows)} rows out for {len(rows)} rows in')]
    if any(len(r) != len(ocols) for r in orows):
        return [('shape', f'rows of lengths {sorted({len(r) for r in orows})} for {len(ocols)} output columns')]
    onames = [c.name for c in ocols]
    probs = []
    k = 0      # next output column
    for j, (name, t) in enumerate(cols):
        if t not in AMOUNTLIKE:
            stats['plain_columns'] += 1
            if k >= len(ocols) or ocols[k].name != name or ocols[k].datatype is not R.DTYPES[t]:
                return probs + [('plain-column', f'output columns {onames}: expected the plain column {name!r} ({t}) at position {k}')]
            for i, (r, orow) in enumerate(zip(rows, orows)):
                stats['plain_cells'] += 1
                if not (orow[k] is r[j] or (type(orow[k]) is type(r[j]) and orow[k] == r[j])):
                    probs.append(('plain-cell', f'row {i}: plain column {name!r} holds {orow[k]!r}, was {r[j]!r}'))
            k += 1
            continue
        # amount-like column: the run of "name (CUR)" columns
        prefix, curs = name + ' (', []
        while k < len(ocols) and ocols[k].name.startswith(prefix) and ocols[k].name.endswith(')'):
            cur = ocols[k].name[len(prefix):-1]
            if ocols[k].datatype is not D:
                probs.append((f'column-type:{t}', f'output column {ocols[k].name!r} has datatype {ocols[k].datatype!r}, expected decimal'))
            curs.append((cur, k))
            k += 1
        stats['converted_columns'] += 1
        stats['currency_columns'] += len(curs)
        stats[f'currency_columns_{min(len(curs), 3)}'] += 1
        values, sums, nlots, rowfreq, lotfreq, nonzero = per[j]
        names_ = [c for c, _ in curs]
        if len(set(names_)) != len(names_):
            probs.append((f'duplicate-currency:{t}', f'column {name!r}: currency columns {names_} repeat a currency'))
        extra = [c for c in names_ if c not in rowfreq]
        if extra:
            probs.append((f'invented-currency:{t}', f'column {name!r}: currency columns {names_} but {extra} do not occur in the column'))
            return probs
        missing = sorted(nonzero - set(names_))
        if missing:
            probs.append((f'dropped-currency:{t}', f'column {name!r}: currencies {missing} occur with non-zero units but have no column (columns {names_})'))
        by_rows = [rowfreq[c] for c in names_]
        by_lots = [lotfreq[c] for c in names_]
        if len(set(by_rows)) > 1:
            stats['orderings_decided_by_frequency'] += 1
        if by_rows != sorted(by_rows, reverse=True) and by_lots != sorted(by_lots, reverse=True):
            probs.append((f'frequency-order:{t}', f'column {name!r}: currency columns {names_} have row frequencies {by_rows} / lot frequencies {by_lots}: not in decreasing frequency'))
        for i, (s, orow) in enumerate(zip(sums, orows)):
            for cur, kk in curs:
                cell = orow[kk]
                stats['cells'] += 1
                if cell is not None and not isinstance(cell, D):
                    probs.append((f'cell-type:{t}', f'row {i} {ocols[kk].name!r}: {cell!r} is not a decimal'))
                    continue
                if cur not in s:
                    stats['cells_absent'] += 1
                    if cell is not None and cell != 0:
                        probs.append((f'cell-absent:{t}', f'row {i} {ocols[kk].name!r}: {cell!r} although {R.show(values[i])} holds no {cur}'))
                    continue
                total = s[cur]
                stats['cells_present'] += 1
                if nlots[i][cur] > 1:
                    stats['cells_summed_over_lots'] += 1
                if dformat is None:
                    ok = (cell == total) if cell is not None else (total == 0)
                    exp = f'{total}'
                else:
                    if total.as_tuple().exponent != -prec[cur]:
                        stats['cells_requantised'] += 1
                    if cell is None:
                        ok = abs(total) * 2 <= D(1).scaleb(-prec[cur])
                    else:
                        ok = quantised_ok(cell, total, prec[cur])
                    exp = f'{total} at {prec[cur]} fractional digits'
                if not ok:
                    # one locus for a wrong number (with or without formatter), another for a right number at the wrong precision
                    near = cell is not None and dformat is not None and abs(cell - total) * 2 <= D(1).scaleb(-prec[cur])
                    locus = 'cell-quantised' if near else 'cell-value'
                    probs.append((f'{locus}:{t}', f'row {i} {ocols[kk].name!r}: {cell!r}, expected {exp} (units of {cur} in {R.show(values[i])})'))
    if k != len(ocols):
        probs.append(('extra-columns', f'output columns {onames}: {onames[k:]} do not belong to any input column'))
    return probs


def describe(cols, rows, fmt):
    c = ', '.join(f'{n}:{t}' for n, t in cols)
    rws = '; '.join('(' + ', '.join(R.show(v) for v in r) + ')' for r in rows)
    return f'columns [{c}] rows [{rws}] formatter={fmt_kind(fmt)}'


def make_case(cols, rows, fmt):
    return {'columns': [list(c) for c in cols], 'rows': [[R.enc(v) for v in r] for r in rows], 'formatter': fmt_kind(fmt)}


def size_key(case):
    return (len(case['rows']), len(case['columns']), len(repr(case['rows'])), FORMATTER_KINDS.index(fmt_kind(case['formatter'])))


def record(acc, fp, what, case):
    acc.count('violating_cases')
    acc.count('fp ' + fp)
    if acc.n['fp ' + fp] <= 3:
        acc.add('violations', (size_key(case), fp, what, json.dumps(case, sort_keys=True)))


def collect(acc):
    byfp = {}
    for key, fp, what, case in sorted(acc.sets['violations']):
        byfp.setdefault(fp, [])
        if len(byfp[fp]) < 3:
            byfp[fp].append(Violation(fp, what, json.loads(case)))
    return [v for fp in sorted(byfp, key=lambda f: size_key(byfp[f][0].case)) for v in byfp[fp]]


def shard(shard_no, nshards, seed, thorough):
    acc = Acc()
    st = collections.Counter()
    for idx, (cols, rows) in enumerate(tables(seed, thorough)):
        if not mine(idx, shard_no, nshards):
            continue
        acc.count('tables')
        if any(v is not None and lots(v) for r in rows for v, (_, t) in zip(r, cols) if t in AMOUNTLIKE):
            acc.count('tables_with_units')
        pre = expectation(cols, rows)
        for fmt in FORMATTER_KINDS:
            acc.count('cases')
            acc.count('cases_formatter_' + fmt)
            for locus, msg in check(cols, rows, fmt, st, pre):
                fp = locus if '@' in locus else f'numberify:{locus}'
                record(acc, fp, f'{msg} -- {describe(cols, rows, fmt)}', make_case(cols, rows, fmt))
        if idx % 5003 == 0:
            acc.sample({'columns': [f'{n}:{t}' for n, t in cols], 'rows': [[R.show(v) for v in r] for r in rows]})
    for k, v in st.items():
        acc.count(k, v)
    return acc


# ---- the convenience entry point beanquery.query.run_query(..., numberify=True) ---------------------------------

RUN_QUERY_STATEMENTS = [
    "SELECT account, sum(position) AS total, count(*) AS n GROUP BY account",
    "SELECT account, sum(position) AS total, count(*) AS n WHERE account ~ 'DoesNotExist' GROUP BY account",     # zero rows
    "SELECT date, account, units(position) AS u, price WHERE year = 2019 AND month = 2",
    "SELECT date, account, units(position) AS u, price WHERE year = 1900",                                       # zero rows
    "SELECT account, position, weight, balance WHERE account ~ 'Broker'",
    "SELECT account, position WHERE number > 100000",                                                            # zero rows
    "SELECT narration, number WHERE year = 2019 AND month = 1",                                                  # no amount-like column
    "SELECT sum(position) AS total, sum(cost(position)) AS book, last(date) AS d WHERE account ~ 'Assets'",
    "SELECT account, sum(position) AS total WHERE 1 = 2",                                                        # zero rows, ungrouped key
]


def check_run_query(only=None):
    """run_query(entries, options, text, numberify=True) == numberify_results(description, rows, formatter) of the plain
    API result (the property: numberifying a result ...), for results WITH and WITHOUT rows."""
    import beanquery
    from beanquery import query as bq_query, numberify as bq_numberify
    from .. import sample_ledger
    entries, errors, options = sample_ledger.load()
    out = []
    n = 0
    for text in RUN_QUERY_STATEMENTS:
        if only is not None and text != only:
            continue
        n += 1
        conn = beanquery.connect('beancount:', entries=entries, errors=[], options=options)
        cur = conn.execute(text)
        rows = cur.fetchall()
        case = {'kind': 'run_query', 'text': text}
        try:
            etypes, erows = bq_numberify.numberify_results(cur.description, rows, options['dcontext'].build())
        except Exception as e:
            out.append(Violation(f'numberify:crash:{type(e).__name__}', f'numberify_results on the result of {text!r} raised {type(e).__name__}: {e}', case))
            continue
        # plain columns of the API result must come back untouched, in place (independent of the differential below)
        plain = [(i, c.name) for i, c in enumerate(cur.description) if c.datatype not in AMOUNTLIKE_TYPES]
        names = [c.name for c in etypes]
        for i, name in plain:
            if name not in names or [r[names.index(name)] for r in erows] != [r[i] for r in rows]:
                out.append(Violation('numberify:plain-column-changed', f'numberify_results on the result of {text!r}: the plain column {name!r} does not come back unchanged', case))
                break
        try:
            gtypes, grows = bq_query.run_query(entries, options, text, numberify=True)
            ptypes, prows = bq_query.run_query(entries, options, text)
        except Exception as e:
            out.append(Violation(f'run_query:crash:{type(e).__name__}', f'run_query({text!r}, numberify=True) raised {type(e).__name__}: {e}', case))
            continue
        sig = lambda types: [(c.name, c.datatype) for c in types]
        if sig(ptypes) != sig(cur.description) or list(prows) != list(rows):
            out.append(Violation('run_query:plain-result', f'run_query({text!r}) differs from Connection.execute: {sig(ptypes)!r} vs {sig(cur.description)!r}', case))
        elif sig(gtypes) != sig(etypes):
            out.append(Violation('run_query:numberified-columns', f'run_query({text!r}, numberify=True) has columns {sig(gtypes)!r}; numberifying the API result ({len(rows)} rows) gives {sig(etypes)!r}', case))
        elif [tuple(r) for r in grows] != [tuple(r) for r in erows]:
            out.append(Violation('run_query:numberified-rows', f'run_query({text!r}, numberify=True) rows {list(grows)[:3]!r}; numberifying the API result gives {list(erows)[:3]!r}', case))
        # the amount-like columns must be gone whatever the number of rows
        for c in gtypes:
            if c.datatype in AMOUNTLIKE_TYPES:
                out.append(Violation('run_query:amount-like-column-left', f'run_query({text!r}, numberify=True) still has the {c.datatype.__name__} column {c.name!r} ({len(rows)} rows)', case))
                break
    return n, out


def replay(case):
    if case.get('kind') == 'run_query':
        return check_run_query(only=case['text'])[1]
    cols = [tuple(c) for c in case['columns']]
    rows = [tuple(R.dec(v) for v in r) for r in case['rows']]
    out = []
    for locus, msg in check(cols, rows, case['formatter'], collections.Counter()):
        fp = locus if '@' in locus else f'numberify:{locus}'
        out.append(Violation(fp, f'{msg} -- {describe(cols, rows, case["formatter"])}', case))
    return out


def run(ctx):
    R.display_context()
    for kind in FORMATTER_KINDS:     # load the ledgers once, before the pool forks
        formatter(kind)
    acc = run_shards(shard, ctx.jobs, ctx.seed, ctx.thorough)
    n = acc.n
    full, reduced = alphabets(ctx.seed)
    cov = {
        'states': n['cases'],
        'transitions': n['cases'],
        'traces_validated_against_impl': n['completed'],
        'evaluations': n['cells'] + n['plain_cells'],
        'distinct_nontrivial': n['tables_with_units'],
        'rule': 'a case is one (table, formatter: none / default build() / build() and build(precision=MAXIMUM) over a ledger whose common and maximum digits differ / '
                'build() over the first ledger with option render_commas); tables are enumerated completely: one amount-like column of every datatype, every column of '
                '0..N cells over the full alphabet in 5 layouts, and every combination of 2 (thorough: and 3) amount-like datatypes with 0..2 rows over '
                'the reduced alphabets; distinct & non-trivial = distinct tables holding at least one lot; evaluations = output cells compared',
        'exhaustive': True,
        'bound': f'one amount-like column: <= {4 if ctx.thorough else 3} cells; {"2 and 3" if ctx.thorough else "2"} amount-like columns: <= 2 rows; without formatter and with 4 formatters (one rendering thousands separators)',
        'tables': n['tables'], 'calls': n['cases'], 'calls_completed': n['completed'], 'calls_raising': n['cases'] - n['completed'],
        'plain_columns_compared': n['plain_columns'], 'plain_cells_compared': n['plain_cells'],
        'amount_like_columns_converted': n['converted_columns'], 'currency_columns_produced': n['currency_columns'],
        'converted_columns_with_0_1_2_3plus_currencies': [n['currency_columns_0'], n['currency_columns_1'], n['currency_columns_2'], n['currency_columns_3']],
        'orderings_decided_by_frequency': n['orderings_decided_by_frequency'],
        'cells_compared': n['cells'], 'cells_currency_absent': n['cells_absent'], 'cells_currency_present': n['cells_present'],
        'cells_summed_over_several_lots': n['cells_summed_over_lots'], 'cells_where_quantisation_changes_the_digits': n['cells_requantised'],
        'violating_cases': n['violating_cases'],
        'violating_cases_by_fingerprint': {k[3:]: v for k, v in sorted(n.items()) if k.startswith('fp ')},
        'alphabet': {t: [R.show(v) for v in full[t]] for t in AMOUNTLIKE},
        'alphabet_multi_column': {t: [R.show(v) for v in reduced[t]] for t in AMOUNTLIKE},
        'display_precision': {'default': {c: R.PRECISION[c] for c in ('USD', 'HOOL', 'EUR')}, 'mixed-common': R.PRECISION_MIXED_COMMON,
                              'mixed-maximum': R.PRECISION_MIXED_MAXIMUM, 'commas': {c: R.PRECISION[c] for c in ('USD', 'HOOL', 'EUR')}},
        'calls_by_formatter': {k: n['cases_formatter_' + k] for k in FORMATTER_KINDS},
        'samples': acc.samples,
    }
    nrq, vrq = check_run_query()
    cov['run_query_statements'] = nrq
    return Result(cov, collect(acc) + vrq, ASSUMPTIONS)
