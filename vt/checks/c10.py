"""C10 -- Cursor fetch protocol and description conform to the DB-API.

Technique: explicit-state BFS (E-bfs) over *all* call histories of the cursor API, on the product
(real beanquery.Cursor, reference model), until the canonical product state space closes -- which
covers histories of any length over the alphabet.

Alphabet   cursor.execute(q_n) and connection.execute(q_n) (a new cursor) for result sizes n in SIZES (q_n alternates 1- and 2-column statements so
           that description changes), fetchone, fetchmany() (arraysize default), fetchmany(k),
           fetchall, list(iter(cursor)), one next(iter(cursor)), arraysize := k; the same on a
           second cursor of the same connection, created before or after the first one executes.
Oracle     ref model = (rows, set of admissible positions, arraysize).  Fetches deliver consecutive
           rows, None/[] exactly at exhaustion, rownumber = rows fetched so far, rowcount = size of the
           last result (-1 before execute), execute resets, description None / sequence of 7-item
           sequences (len, every index, every slice, iteration, equality, name, type code).
           Iteration: the property does not say whether iterating consumes rows (sqlite3 does,
           beanquery does not): the model admits both and afterwards tracks the set of positions
           consistent with what the implementation shows (weakest reading).
Canonical  canon(real cursor) = every attribute in vars(cursor) except the connection back-reference
           (which no observation depends on), by value, + how the cursor object was obtained (cursor() or
           connection.execute()) + the identity relations between the two cursors and their row lists
           (aliasing changes the futures of a state, so states differing in it must not be merged);
           model part = (size, positions, arraysize).
The model's fetch sequences are additionally cross-checked against sqlite3 cursors.
"""
import itertools
import sqlite3

import beanquery

from ..explore.bfs import bfs, Desync
from ..harness import HTable, connect, select, col, A
from ..runner import Result, Violation

LEVEL = 'model_checking'

NAMES2 = ('x', 's')


def rows_for(n):
    return [(i, 's%d' % i) for i in range(n)]


def stmt_for(n):
    """n odd -> two columns (x, s); n even -> one column (x)."""
    targets = [(col('x'), None), (col('s'), None)] if n % 2 else [(col('x'), None)]
    return select(targets, from_='t%d' % n)


def expected_rows(n):
    return [r if n % 2 else r[:1] for r in rows_for(n)]


def rows_for_any():
    """Every row any statement of the alphabet can deliver (both projections)."""
    out = []
    for i in range(16):
        out += [(i, 's%d' % i), (i,)]
    return out


def expected_desc(n):
    return [('x', int), ('s', str)] if n % 2 else [('x', int)]


SLICES = [slice(a, b, c) for a in (None, 0, 1, 2, -2, 6, 7, 9) for b in (None, 0, 2, 5, 7, -1, 9) for c in (None, 1, 2, -1)]


class Model:
    """Reference cursor: list + admissible positions + arraysize."""

    def __init__(self):
        self.n = None          # size of last result; None before execute
        self.rows = None
        self.pos = frozenset([0])   # admissible numbers of rows fetched so far
        self.arraysize = 1

    def key(self):
        return (self.n, tuple(sorted(self.pos)), self.arraysize)


class OneCursor:
    """Product of one real cursor and its model."""

    def __init__(self, conn):
        self.conn = conn
        self.real = conn.cursor()
        self.m = Model()
        self.nobs = 0
        self.light = False     # True while replaying an already-checked prefix: skip the description checks
        self.origin = 'cursor()'    # how the real cursor object was obtained: part of the canonical state, because
                                    # objects handed out by Connection.execute() may be shared (aliasing changes futures)

    # -- observations compared after every step ------------------------------------------
    def observe(self, out):
        m, cur = self.m, self.real
        self.nobs += 1
        exp_rc = -1 if m.n is None else m.n
        if cur.rowcount != exp_rc:
            out.append(('rowcount', f'rowcount={cur.rowcount!r}, expected {exp_rc} (size of the last result)'))
        self.nobs += 1
        if cur.rownumber not in m.pos:
            out.append(('rownumber', f'rownumber={cur.rownumber!r}, expected one of {sorted(m.pos)} (rows fetched so far)'))
        else:
            m.pos = frozenset([cur.rownumber])   # the implementation resolved the iteration ambiguity
        if self.light:
            return
        self.nobs += 1
        d = cur.description
        if m.n is None:
            if d is not None:
                out.append(('description-before-execute', f'description={d!r} before any execute, expected None'))
            return
        exp = expected_desc(m.n)
        try:
            if len(d) != len(exp):
                out.append(('description-len', f'len(description)={len(d)}, expected {len(exp)}'))
                return
            for i, (name, dtype) in enumerate(exp):
                c = d[i]
                self.nobs += 6
                want = (name, c.type_code if hasattr(c, 'type_code') else c[1], None, None, None, None, None)
                if len(c) != 7:
                    out.append(('description-item-len', f'len(description[{i}])={len(c)}, expected 7'))
                if tuple(c[j] for j in range(7)) != want or tuple(c[j] for j in range(-7, 0)) != want:
                    out.append(('description-index', f'description[{i}] indexes to {tuple(c[j] for j in range(7))!r}, expected {want!r}'))
                if tuple(iter(c)) != want:
                    out.append(('description-iter', f'iterating description[{i}] gives {tuple(iter(c))!r}, expected {want!r}'))
                if c[0] != name or not isinstance(c[1], int):
                    out.append(('description-name-type', f'description[{i}][:2]={(c[0], c[1])!r}, expected name {name!r} and an int type code'))
                if getattr(c, 'datatype', dtype) is not dtype:
                    out.append(('description-datatype', f'description[{i}].datatype={c.datatype!r}, expected {dtype!r}'))
                for s in SLICES:
                    self.nobs += 1
                    try:
                        got = tuple(c[s])
                    except Exception as e:
                        out.append(('description-slice', f'description[{i}][{s.start}:{s.stop}:{s.step}] raised {type(e).__name__}: {e}; expected {want[s]!r}'))
                        break
                    if got != want[s]:
                        out.append(('description-slice', f'description[{i}][{s.start}:{s.stop}:{s.step}]={got!r}, expected {want[s]!r}'))
                        break
                for bad in (7, -8):
                    try:
                        c[bad]
                        out.append(('description-index-range', f'description[{i}][{bad}] did not raise IndexError'))
                    except IndexError:
                        pass
                if not (c == c) or (i > 0 and c == d[0]):
                    out.append(('description-eq', f'description[{i}] equality is wrong'))
                # equality is equality of the seven items: an item built for the same (name, type) is equal, one that
                # differs in the name only or in the type only is not
                other = str if dtype is not str else int
                twin, oname, otype = type(c)(name, dtype), type(c)(name + '_', dtype), type(c)(name, other)
                for label, x, want_eq in (('same name and type', twin, True), ('other name', oname, False), ('other type', otype, False)):
                    self.nobs += 1
                    if (c == x) is not want_eq or (x == c) is not want_eq or (c != x) is want_eq or (tuple(c) == tuple(x)) is not want_eq:
                        out.append(('description-eq', f'description[{i}] == item with {label} gives {c == x!r} / {x == c!r} (!=: {c != x!r}), expected {want_eq!r}'))
            # the description itself is a sequence
            if list(d[0:1]) != [d[0]] or d[-1] != d[len(d) - 1] or [c for c in d] != [d[i] for i in range(len(d))]:
                out.append(('description-seq', 'description does not behave as a sequence'))
        except Exception as e:
            out.append(('description-crash', f'inspecting description raised {type(e).__name__}: {e}'))

    # -- events ------------------------------------------------------------------------
    def apply(self, ev):
        out = []
        m, cur = self.m, self.real
        kind = ev[0]
        if kind == 'exec':
            n = ev[1]
            r = cur.execute(stmt_for(n))
            if r is not cur:
                out.append(('execute-return', 'execute() did not return the cursor'))
            m.n, m.rows, m.pos = n, expected_rows(n), frozenset([0])
        elif kind == 'cexec':
            # Connection.execute(): a NEW cursor of the same connection replaces this one
            n = ev[1]
            cur = self.real = self.conn.execute(stmt_for(n))
            self.origin = 'connection.execute()'
            if not isinstance(cur, beanquery.Cursor):
                out.append(('connection-execute-return', f'Connection.execute() returned {cur!r}'))
            m.n, m.rows, m.pos, m.arraysize = n, expected_rows(n), frozenset([0]), 1
        elif kind == 'arraysize':
            cur.arraysize = ev[1]
            m.arraysize = ev[1]
        elif kind in ('one', 'many', 'all'):
            if kind == 'one':
                got = cur.fetchone()
            elif kind == 'many':
                got = cur.fetchmany() if ev[1] is None else cur.fetchmany(ev[1])
            else:
                got = cur.fetchall()
            if m.n is None:
                exp = {0: None if kind == 'one' else []}
            else:
                exp = {}
                for p in m.pos:
                    if kind == 'one':
                        exp[p] = m.rows[p] if p < m.n else None
                    elif kind == 'many':
                        k = m.arraysize if ev[1] is None else ev[1]
                        exp[p] = m.rows[p:p + k]
                    else:
                        exp[p] = m.rows[p:]
            fits = {}
            for p, e in exp.items():
                g = got
                if e is None or g is None:
                    same = e is None and g is None
                elif kind == 'one':
                    same = tuple(g) == tuple(e) and len(g) == len(e)
                else:
                    same = isinstance(g, list) and [tuple(x) for x in g] == [tuple(x) for x in e]
                if same:
                    fits[p] = 1 if (kind == 'one' and e is not None) else (0 if e is None else len(e))
            if not fits:
                raise Desync(f'fetch-{kind}', f'{ev} returned {got!r}; model positions {sorted(m.pos)} expect {exp!r}')
            if m.n is not None:
                m.pos = frozenset(p + k for p, k in fits.items())
            # the list handed out belongs to the caller: what the caller does with it must not reach the cursor
            if isinstance(got, list):
                got.append((-99, 'appended by the caller'))
                got.reverse()
        elif kind == 'iterall' or kind == 'iternext':
            if kind == 'iterall':
                got = [tuple(r) for r in iter(cur)]
            else:
                try:
                    got = [tuple(next(iter(cur)))]
                except StopIteration:
                    got = []
            if m.n is None:
                if got:
                    raise Desync('iter', f'iteration before execute yielded {got!r}')
            else:
                newpos = set()
                for p in m.pos:
                    e = [tuple(r) for r in (m.rows[p:] if kind == 'iterall' else m.rows[p:p + 1])]
                    if got == e:
                        newpos.add(p)              # iteration does not consume (beanquery)
                        newpos.add(p + len(e))     # iteration consumes (sqlite3)
                if not newpos:
                    raise Desync('iter', f'{ev} yielded {got!r}; expected the not-yet-fetched rows from one of positions {sorted(m.pos)}')
                m.pos = frozenset(newpos)
        elif kind == 'iterhold':
            # an iterator obtained now and advanced LATER, with fetch calls in between
            self.held = iter(cur)
        elif kind == 'iterheld':
            held = getattr(self, 'held', None)
            if held is not None:
                try:
                    got = tuple(next(held))
                except StopIteration:
                    got = None
                except Exception as e:
                    raise Desync('iter-held', f'advancing an iterator obtained earlier raised {type(e).__name__}: {e} (only StopIteration ends an iteration)')
        else:
            raise AssertionError(ev)
        self.observe(out)
        return out

    def canon(self):
        real = tuple(sorted((k, repr(v)) for k, v in vars(self.real).items() if k != '_context'))
        return (real, self.m.key(), self.origin)


def make_conn(sizes):
    tabs = {'t%d' % n: HTable([('x', int), ('s', str)], rows_for(n), name='t%d' % n) for n in sizes}
    return connect(**tabs)


class Product1:
    def __init__(self, sizes):
        self.c = OneCursor(make_conn(sizes))
        self.last_observations = 0

    def apply(self, ev):
        before = self.c.nobs
        out = self.c.apply(ev)
        self.last_observations = self.c.nobs - before
        return out

    def replay_step(self, ev):
        self.c.light = True
        try:
            self.c.apply(ev)
        finally:
            self.c.light = False

    def canon(self):
        return self.c.canon()


class Product2:
    """Two cursors of one connection; cursor 1 is created up-front ('before') or at its first use
    ('after' cursor 0 has been used).  Isolation: an event on one cursor must leave every
    observation of the other unchanged -- both are observed after every event."""

    def __init__(self, sizes, second_before):
        self.conn = make_conn(sizes)
        self.cs = [OneCursor(self.conn), OneCursor(self.conn) if second_before else None]
        self.last_observations = 0

    def apply(self, ev):
        i, sub = ev
        if self.cs[i] is None:
            self.cs[i] = OneCursor(self.conn)
        n0 = sum(c.nobs for c in self.cs if c)
        other = self.cs[1 - i]
        before = other.canon() if other is not None else None
        out = [(fp, f'cursor {i}: {msg}') for fp, msg in self.cs[i].apply(sub)]
        if other is not None:
            # isolation: nothing observable of the other cursor (nor its internal state) may change
            other.nobs += 1
            if other.canon() != before:
                out.append(('isolation', f'{sub} on cursor {i} changed cursor {1 - i}: {before!r} -> {other.canon()!r}'))
        self.last_observations = sum(c.nobs for c in self.cs if c) - n0
        return out

    def replay_step(self, ev):
        i, sub = ev
        if self.cs[i] is None:
            self.cs[i] = OneCursor(self.conn)
        self.cs[i].light = True
        try:
            self.cs[i].apply(sub)
        finally:
            self.cs[i].light = False

    def canon(self):
        # identity relations between the live objects are part of the state (aliased cursors, shared row lists)
        a, b = self.cs
        alias = ()
        if a is not None and b is not None:
            shared = tuple(sorted(k for k, v in vars(a.real).items()
                                  if k != '_context' and isinstance(v, (list, dict, set)) and vars(b.real).get(k) is v))
            alias = (a.real is b.real, shared)
        return tuple(c.canon() if c else None for c in self.cs) + (alias,)


def alphabet(sizes, ks, asz):
    evs = [('exec', n) for n in sizes] + [('cexec', n) for n in sizes[-2:]]
    evs += [('one',), ('many', None)] + [('many', k) for k in ks] + [('all',), ('iterall',), ('iternext',)]
    evs += [('arraysize', k) for k in asz]
    return evs


def sqlite_crosscheck(histories, sizes):
    """Replay model-accepted histories on sqlite3 cursors: the reference's fetch results must be
    those of the DB-API implementation the repository's own tests use as a yardstick."""
    db = sqlite3.connect(':memory:')
    for n in sizes:
        db.execute(f'CREATE TABLE t{n} (x INTEGER, s TEXT)')
        db.executemany(f'INSERT INTO t{n} VALUES (?, ?)', rows_for(n))
    checked = mismatches = 0
    for hist in histories:
        cur = db.cursor()
        m = Model()
        for ev in hist:
            kind = ev[0]
            if kind == 'exec':
                n = ev[1]
                cur.execute(f'SELECT x, s FROM t{n} ORDER BY x' if n % 2 else f'SELECT x FROM t{n} ORDER BY x')
                m.n, m.rows = n, expected_rows(n)
                m.pos = frozenset([0])
            elif kind == 'arraysize':
                cur.arraysize = m.arraysize = ev[1]
            elif m.n is None:
                continue      # sqlite3 raises/returns [] before execute: outside the comparison
            else:
                p = max(m.pos)    # sqlite3 iteration consumes: always the single tracked position
                if kind == 'one':
                    got, exp, adv = cur.fetchone(), (m.rows[p] if p < m.n else None), 1 if p < m.n else 0
                elif kind == 'many':
                    k = m.arraysize if ev[1] is None else ev[1]
                    got, exp = (cur.fetchmany() if ev[1] is None else cur.fetchmany(k)), m.rows[p:p + k]
                    adv = len(exp)
                elif kind == 'all':
                    got, exp = cur.fetchall(), m.rows[p:]
                    adv = len(exp)
                elif kind == 'iterall':
                    got, exp = list(cur), m.rows[p:]
                    adv = len(exp)
                else:
                    got = list(itertools.islice(cur, 1))
                    exp = m.rows[p:p + 1]
                    adv = len(exp)
                checked += 1
                g = None if got is None else ([tuple(r) for r in got] if isinstance(got, list) else tuple(got))
                e = None if exp is None else ([tuple(r) for r in exp] if isinstance(exp, list) else tuple(exp))
                if g != e:
                    mismatches += 1
                m.pos = frozenset([p + adv])
    return checked, mismatches


def make_violations(st, mode, extra):
    vs = []
    for hist, ev, fp, msg in st.violations:
        vs.append(Violation(fp, f'after history {list(hist)!r}, event {ev!r}: {msg}',
                            {'mode': mode, 'history': _lst(hist), 'event': _lst(ev), **extra}))
    return vs


def _lst(e):
    return [_lst(x) if isinstance(x, tuple) else x for x in e]


def _tup(e):
    return tuple(_tup(x) if isinstance(x, list) else x for x in e)


def replay(case):
    if case.get('kind') == 'held':
        return check_held_iterators(only=case['history'])[0]
    mode = case['mode']
    sizes = case['sizes']
    hist = [_tup(h) for h in case['history']]
    ev = _tup(case['event'])
    p = Product1(sizes) if mode == 'one' else Product2(sizes, case['second_before'])
    for h in hist:
        try:
            p.apply(h)
        except Desync:
            pass
    try:
        out = p.apply(ev)
    except Desync as d:
        out = [(d.fingerprint, d.message)]
    return [Violation(fp, msg, case) for fp, msg in out]


def _search(args):
    mode, sizes, events, second_before, cap = args
    if mode == 'one':
        return bfs(lambda: Product1(sizes), events, max_states=cap, stop_after_violations=300)
    return bfs(lambda: Product2(sizes, second_before), events, max_states=cap, stop_after_violations=300)


def check_held_iterators(only=None):
    """An iterator obtained from the cursor and advanced LATER, with fetch calls (and a new execute) in between: every
    history of <= 5 events; the only requirement is that nothing but StopIteration ends the iteration (the fetch results
    themselves stay under the model).  The iterator state is not part of the BFS state, hence this separate sweep."""
    evs = [('exec', 3), ('one',), ('many', 2), ('all',), ('iterhold',), ('iterheld',)]
    out, n = [], 0
    for d in range(2, 6):
        for hist in itertools.product(evs, repeat=d):
            if hist[0][0] != 'exec' or ('iterhold',) not in hist or hist[-1] != ('iterheld',):
                continue
            if only is not None and list(map(list, hist)) != only:
                continue
            n += 1
            c = OneCursor(make_conn([3]))
            try:
                for ev in hist:
                    c.apply(ev)
            except Desync as e:
                out.append(Violation(e.fingerprint, f'history {list(hist)!r}: {e.message}', {'kind': 'held', 'history': [list(x) for x in hist]}))
    return out, n


def run(ctx):
    sizes1 = [0, 1, 2, 3, 5]
    ks1 = [1, 2, 3, 10]
    asz1 = [1, 2, 3]
    ev1 = alphabet(sizes1, ks1, asz1)
    # two cursors of one connection
    sizes2 = ctx.pick([0, 2, 3], [0, 1, 2, 3])
    ks2 = ctx.pick([2], [1, 2, 10])
    asz2 = ctx.pick([2], [1, 2])
    sub = alphabet(sizes2, ks2, asz2)
    ev2 = [(i, e) for i in (0, 1) for e in sub]
    cap = ctx.pick(60000, 400000)
    # the three searches are independent: run them in three processes
    import multiprocessing
    with multiprocessing.get_context('fork').Pool(3) as pool:
        st1, st2a, st2b = pool.map(_search, [('one', sizes1, ev1, None, cap), ('two', sizes2, ev2, True, cap), ('two', sizes2, ev2, False, cap)])
    st2s = [st2a, st2b]
    violations = make_violations(st1, 'one', {'sizes': sizes1})
    for st2, second_before in zip(st2s, (True, False)):
        violations += make_violations(st2, 'two', {'sizes': sizes2, 'second_before': second_before})

    # model vs sqlite3 on every history that reached a new state of the one-cursor search
    hists = []

    def collect():
        # re-enumerate canonical histories breadth first (deterministic) up to depth 4
        return [h for h in itertools.chain.from_iterable(itertools.product(ev1, repeat=d) for d in (1, 2, 3))
                if h[0][0] == 'exec' and all(e[0] != 'cexec' for e in h)]
    hists = collect()
    if ctx.quick:
        hists = hists[::7]
    checked, mism = sqlite_crosscheck(hists, sizes1)
    if mism:
        raise AssertionError(f'reference cursor model disagrees with sqlite3 on {mism} of {checked} fetches: the model is wrong')

    states = st1.states + sum(s.states for s in st2s)
    transitions = st1.transitions + sum(s.transitions for s in st2s)
    closed = st1.closed and all(s.closed for s in st2s)
    cov = {
        'states': states,
        'transitions': transitions,
        'traces_validated_against_impl': st1.replays + sum(s.replays for s in st2s),
        'evaluations': transitions,
        'distinct_nontrivial': states,
        'rule': 'a case is one (history, event) transition of the product (real cursor(s), model); distinct & non-trivial = '
                'distinct canonical product states reached (real cursor attributes by value + model (size, positions, arraysize))',
        'exhaustive': closed,
        'closure_reached': {'one_cursor': st1.closed, 'two_cursors_second_created_before': st2s[0].closed,
                            'two_cursors_second_created_after': st2s[1].closed},
        'one_cursor': {'states': st1.states, 'transitions': st1.transitions, 'longest_shortest_history': st1.max_depth_seen,
                       'alphabet': [list(e) for e in ev1]},
        'two_cursors': [{'states': s.states, 'transitions': s.transitions, 'longest_shortest_history': s.max_depth_seen} for s in st2s],
        'two_cursor_alphabet_per_cursor': [list(e) for e in sub],
        'observations_compared': st1.observations + sum(s.observations for s in st2s),
        'desynchronised_branches': st1.dead + sum(s.dead for s in st2s),
        'model_vs_sqlite3_fetches': checked,
        'samples': [[list(e) for e in h] for h in st1.sample_histories[:4]] + [[list(e) for e in h] for h in st2s[0].sample_histories[:2]],
        'bound': 'closure of the reachable product state space: histories of any length over the alphabet' if closed else 'state cap hit',
    }
    held_violations, held_n = check_held_iterators()
    violations += held_violations
    cov['held_iterator_histories'] = held_n
    return Result(cov, violations, assumptions=[
        'iteration may or may not consume rows (property is silent); fetchmany(k<=0) and fetching while an iterator is live are outside',
        'canonical state drops only the cursor->connection back-reference',
    ])
