"""C14 -- BALANCES / JOURNAL / PRINT equal their SELECT expansions; PRINT is lossless.

Technique: bounded-exhaustive enumeration (E-enum) of statements x ledgers on the real implementation.

Space (everything below is enumerated completely, nothing is sampled)
  ledgers    (BJ, for BALANCES / JOURNAL)  every member of the shared ledger family (vt.ledgers) with <= n body
             snippets drawn from the 12 snippets that produce postings (the ten ``txn_*`` snippets, ``pad_balance``
             and the currency-accounts plugin); quick n <= 2 (79 ledgers), thorough n <= 4 (794)
             (P,  for PRINT)  every member of the family with <= n snippets of the WHOLE 27-snippet alphabet (every
             directive type: open, close, commodity, pad, balance, transaction, note, event, query, price, document,
             custom); quick n <= 2 (379 ledgers), thorough n <= 3 (3 304)
             + five ledgers outside the bound, for all three statements: the full alphabet, the full alphabet
             without pad / plugin (round trip over every directive type at once), LONGTEXT (payees /
             narrations shorter than, equal to and longer than the register's widths 48 / 80), ZEROCOST (lots
             booked at a per-unit cost of exactly zero next to an ordinary lot, one of them reduced) and NESTED
             (accounts whose full name is a prefix / substring of other accounts)
  BALANCES   AT f in {absent, units, cost}  x  FROM menu  x  WHERE in {absent, account ~ 'Assets', number > 0,
             currency = 'USD', account ~ 'Income|Expenses|Equity'}
  JOURNAL    account pattern in {absent, '', 'Assets', 'Assets:Cash|Expenses', 'NoSuchAccount' (matches nothing),
             'aSSets:ca' (case varied), '^Income|Card$' (anchors), two patterns containing a double quote}
             x AT f  x  FROM menu                 (per BJ ledger: quick 348 + 783, thorough 924 + 2 079 statements)
             + every FULL ACCOUNT NAME opened in the preamble / the extra ledgers (the argument is a regular
             expression searched in the name: 'Assets:Bank' also lists Assets:Bank:Savings, Assets:Bank-Old and
             Liabilities:Assets:Bank of the NESTED ledger), 'ASSETS:CASH' and a plugin account  x AT f  x  FROM in
             {absent, flag = '*', OPEN ON .. CLOSE ON .. CLEAR}
  FROM menu  absent; filter expressions year = 2020, date < 2020-01-10, date >= 2020-02-01, flag = '*',
             payee ~ 'bro|caf', narration ~ 'lunch|buy|conv', has_account('Expenses'), NOT has_account('Cash'),
             year = 2020 AND NOT has_account('Inv');  OPEN ON d / CLOSE [ON e] / CLEAR: quick a list of 15 subsets
             with dates before / inside (an entry date, a date between entries) / after the ledger span, thorough
             the full product d in {absent} + 5 dates x e in {absent, no date} + 5 dates x CLEAR in {absent, present}
             with d <= e;  nine combinations of an expression with clauses (five of them year = 2020 with exactly
             one of CLOSE / CLEAR, with and without OPEN)
  PRINT      FROM in: absent; type = T for each of the 12 directive types; type != 'transaction'; NOT type = 'open';
             NOT (type = 'transaction' OR type = 'price'); year = 2019, year = 2020, NOT year = 2019,
             date < 2020-01-10, date >= 2020-02-01, type = 'transaction' AND date < 2020-01-10; flag = '*', flag = '!',
             payee ~, narration ~, has_account('Expenses'), has_account('cash'), NOT has_account('Cash');
             'food' / 'ntag' IN tags, 'trip' / 'dlink' IN links, 'food' NOT IN tags, alone and with type = ...; the
             OPEN/CLOSE/CLEAR list, alone and under three expressions   (per ledger: quick 57, thorough 282)
  parameters (DB-API query parameters) every literal of the FROM expression / WHERE condition replaced by a placeholder,
             in both styles (positional %s, named %(pN)s), the statement executed from TEXT with the values as
             parameters, alternately through Connection.execute and Cursor.execute (PRINT, which the cursor does not
             execute: compiler.compile(context, statement, parameters) + execute_print):
             BALANCES  AT f in {absent, units, cost} x 5 (FROM, WHERE) pairs (a parameter in FROM only, in WHERE only,
             in both, two in FROM + one in WHERE, with OPEN ON / CLEAR) x 2 styles = 30;  JOURNAL  3 FROM clauses (one,
             two parameters, with OPEN ON / CLOSE ON) x pattern in {absent, 'Assets:Cash|Expenses'} x AT f in {absent,
             cost} x 2 styles = 24;  PRINT  3 FROM clauses (two parameters str + date, a function argument, with OPEN ON /
             CLOSE ON) x 2 styles = 6.  Values: int, str (regular expressions included), datetime.date.
             BALANCES / JOURNAL on every BJ ledger, PRINT on every P ledger, all of them on the extra ledgers.
  text       every distinct statement of the menus is unparsed (vt.unparse), parsed by the real parser and must
             give exactly the AST that is executed (so that feeding ASTs is the same as feeding text).

Oracle
  (a) BALANCES [AT f] [FROM ...] [WHERE ...]: rows (by type and value), number of columns (2) and column datatypes
      equal those of ``SELECT account, sum([f(]position[)]) FROM ... WHERE ... GROUP BY account,
      account_sortkey(account) ORDER BY account_sortkey(account)`` (AST built here from the property text);
      directly: the account column is ordered by (index of the account's type in the options' account types
      [beancount.core.account_types], account name); every account listed has a selected posting; the sum of every
      account equals the beancount Inventory fold of [f of] the selected postings (postings selected by a Python
      predicate per FROM expression and WHERE condition over a direct traversal of the entries).
  (b) JOURNAL [pattern] [AT f] [FROM ...]: rows, number of columns (7) and datatypes equal those of ``SELECT date,
      flag, maxwidth(payee, 48), maxwidth(narration, 80), account, [f(]position[)], [f(]balance[)] FROM ...
      WHERE account ~ pattern`` (no WHERE without pattern); directly: one row per selected posting whose account
      matches re.search(pattern, account, IGNORECASE), in ledger order, with the transaction's date / flag / payee /
      narration (a text longer than the width may be shortened to at most the width), [f of] the posting's position
      and [f of] the prefix sum (Inventory) of the positions of the rows so far.
  (c) PRINT [FROM ...]: the emitted TEXT equals beancount.parser.printer.print_entries (display context built as
      execute_print documents it: natural precision + the ledger's commas option) applied to the entries selected,
      in ledger order, by the Python predicate of the FROM expression;  lossless clause: the text re-loaded with
      beancount.loader.load_string yields no errors other than validation errors about unopened accounts and, in
      order, directives with the same hash_entry(exclude_meta=True) and the same user metadata.
  (d) parameters: the statement executed with parameters returns exactly (rows by type and value, datatypes /
      printed text) what the same statement with the values written as literals returns (that statement is a member
      of the menus above or checked the same way: oracles (a)-(c)), and BALANCES / JOURNAL what the SELECT expansion
      of (a) / (b) returns when executed from text with the same placeholders and the same parameters.  Any exception
      (a bare KeyError from the compiler included) is a violation.
  For OPEN / CLOSE / CLEAR the universe the predicates run over is ``entries-table.update(open=, close=,
  clear=).prepare()`` of the real tables with the clause values given by this check (C13 owns the semantics of the
  summarisation itself; C14 checks that the three statements apply exactly those clauses and then the expression).

Scope / weakest readings
  * Column NAMES of BALANCES / JOURNAL are unspecified (they differ from the SELECT's): not compared.
  * An empty selection yields an empty result / empty PRINT output (compared like any other).
  * Direct BALANCES check: an account whose selected postings sum to the empty inventory may be listed or not
    (the differential with the SELECT is exact).
  * Register texts longer than 48 / 80: only "at most that long" is required directly; the differential goes
    through maxwidth as the expansion does.
  * Filter expressions are three-valued: a row is selected iff the expression is TRUE; NOT / AND / OR are only
    applied to operands that cannot be NULL (the value of NOT NULL is C01's business).
  * Round trip only where re-loading is meaningful: ledgers without ``pad_balance`` (the loader would synthesise
    the padding transaction a second time) and without the plugin, FROM absent / type filters / date-prefix filters
    (they keep every lot reduction together with its augmentation); validation errors "unknown / inactive account"
    on re-loading a selection without its ``open`` directives are not counted.
  * PRINT filters on ``tags`` / ``links`` ('x' [NOT] IN tags|links): the property does not say what these columns
    hold for a Note / Document directive, which has tags and links of its own in Beancount v3: NULL ("the set of
    tags of the transaction") or the directive's own set.  Both selections are accepted (C11 reads the entries table
    the same way); transactions are judged strictly.
  * Invalid regular expressions and a CLOSE date before the OPEN date are C05 / C13 material, not explored here.
Harness note: compiler.transform_balances / transform_journal re-parse a template text on every compile (70-120 ms).
  During this check ``beanquery.parser.parse`` is memoised BY TEXT (a pure function; every distinct text still goes
  through the real parser once per process, failures included), as C13 does.
Fingerprints: balances:order | balances:rows | balances:datatypes | balances:columns,
  journal:rows | journal:col:<date|flag|payee|narration|account|position|balance> | journal:datatypes |
  journal:columns | journal:pattern-quote, balances:parameters | journal:parameters | print:parameters (differs from the
  literal statement) | select:parameters (differs from the parameterised SELECT), print:selection | print:rendering | print:roundtrip | print:roundtrip-meta,
  text:<kind> (unparse/parse disagreement), crash fingerprints (vt.harness.crash_fingerprint).
  When something is reported the family is re-walked simplest first (<= 2 snippets) so that the recorded case of
  every fingerprint is the smallest ledger and earliest statement showing it.
Finding on the unchanged tree: ``journal:pattern-quote`` -- transform_journal formats the account pattern into
  ``WHERE account ~ "<pattern>"`` and re-parses the text, so a pattern containing a double quote is a ParseError
  at compile time (JOURNAL 'a"b') or changes the condition (JOURNAL 'Zzz" OR account ~ "Assets' lists the Assets
  postings although no account matches that regular expression).
"""
import collections
import dataclasses
import datetime
import functools
import io
import re

import beanquery
from beanquery import compiler as bq_compiler
from beanquery import parser as bq_parser
from beanquery import query_execute
from beancount import loader
from beancount.core import account_types, convert, data, display_context, getters, inventory, position
from beancount.core.amount import Amount
from beancount.core.compare import hash_entry
from beancount.parser import options as bc_options
from beancount.parser import printer

from .. import ledgers, unparse
from ..harness import select, F, C, col, A, crash_fingerprint
from ..par import Acc, run_shards, mine
from ..runner import Result

LEVEL = 'model_checking'

Inv = inventory.Inventory
DATE = datetime.date

D_BEFORE = DATE(2019, 6, 1)     # before the first open
D_FIRST = DATE(2020, 1, 3)      # date of the first transaction snippets
D_IN1 = DATE(2020, 1, 10)       # an entry date (txn_conv)
D_IN2 = DATE(2020, 2, 2)        # between the two transactions of txn_lots
D_AFTER = DATE(2021, 6, 1)      # after the last directive

FUNCS = [None, 'units', 'cost']
WIDTH_PAYEE, WIDTH_NARRATION = 48, 80

BJ_SNIPPETS = [n for n in ledgers.NAMES if n.startswith('txn_') or n in ('pad_balance', 'plugin_curacc')]
BJ_EXCLUDE = tuple(n for n in ledgers.NAMES if n not in BJ_SNIPPETS)
NO_ROUNDTRIP = ('pad_balance', 'plugin_curacc')

_P60 = 'Payee of sixty characters made of several ordinary words xyz'
_N100 = 'A narration of one hundred characters, made of ordinary words that textwrap can break up nicely, ok.'
_P48 = 'A payee that is exactly forty-eight characters !'
_N80 = 'A narration that is exactly eighty characters long, counting every blank it has.'
LONGTEXT = ledgers.PREAMBLE + f'''\
2020-01-05 * "{_P60}" "{_N100}"
  Expenses:Food  7.00 USD
  Assets:Cash
2020-01-06 ! "{_P48}" "{_N80}"
  Expenses:Fees  2.00 USD
  Liabilities:Card
2020-01-07 * "{_P48}x" "{_N80}x"
  Assets:Bank  3.00 EUR
  Income:Salary
2020-01-08 * "{_N100}" "{_P60}"
  Assets:Inv  2 HOOL {{10.00 USD}}
  Assets:Cash
'''
assert (len(_P60), len(_N100), len(_P48), len(_N80)) == (60, 100, 48, 80)

#: lots booked at a per-unit cost of exactly ZERO (gift, stock grant, airdrop) next to an ordinary lot: the cost of
#: such a position is 0 of the cost currency, not its units
#: accounts whose full name is a proper prefix / substring of other accounts of the same ledger: the JOURNAL argument
#: is a regular expression SEARCHED in the account name, so 'Assets:Bank' also lists Assets:Bank:Savings,
#: Assets:Bank-Old and Liabilities:Assets:Bank
NESTED = ledgers.PREAMBLE + '''\
2019-12-05 open Assets:Bank:Savings
2019-12-05 open Assets:Bank-Old
2019-12-05 open Liabilities:Assets:Bank
2020-01-04 * "Opening balance"
  Assets:Bank  1000.00 USD
  Equity:Opening-Balances
2020-01-05 * "Move to savings"
  Assets:Bank:Savings  300.00 USD
  Assets:Bank  -300.00 USD
2020-01-06 * "Keep a little in the old account"
  Assets:Bank-Old  50.00 USD
  Assets:Bank  -50.00 USD
2020-01-07 * "Lender" "A loan named after the bank"
  Assets:Bank  200.00 USD
  Liabilities:Assets:Bank  -200.00 USD
2020-02-05 * "Interest"
  Assets:Bank:Savings  1.50 USD
  Income:Salary
'''

ZEROCOST = ledgers.PREAMBLE + '''\
2020-01-04 * "Opening balance"
  Assets:Cash  1000.00 USD
  Equity:Opening-Balances
2020-01-05 * "Broker" "Buy an ordinary lot"
  Assets:Inv  4 HOOL {100.00 USD}
  Assets:Cash  -400.00 USD
2020-01-20 * "ACME" "Stock grant booked at zero cost"
  Assets:Inv  10 HOOL {0.00 USD}
  Income:Salary  0.00 USD
2020-02-05 * "Broker" "Sell granted shares"
  Assets:Inv  -5 HOOL {0.00 USD} @ 120.00 USD
  Assets:Cash  600.00 USD
  Income:Gains  -600.00 USD
2020-02-06 * "Airdrop"
  Assets:Inv  3 HOOL {0 USD, "drop"}
  Income:Gains  0 USD
'''


# ---------------------------------------------------------------------------------------------------------
# parser memo (see the module docstring)
_parse_memo = {}
_real_parse = None


def install_parse_memo():
    global _real_parse
    if _real_parse is not None:
        return
    _real_parse = bq_parser.parse

    def parse(text, *a, **kw):
        if a or kw:
            return _real_parse(text, *a, **kw)
        hit = _parse_memo.get(text)
        if hit is None:
            try:
                hit = ('ok', _real_parse(text))
            except Exception as exc:       # deterministic for a given text: remember the failure too
                hit = ('err', exc)
            _parse_memo[text] = hit
        if hit[0] == 'err':
            raise hit[1].with_traceback(None)
        return hit[1]
    bq_parser.parse = parse


# ---------------------------------------------------------------------------------------------------------
# FROM expressions: name -> (AST builder, reference predicate entry -> True / False / None)

def _txn(e):
    return isinstance(e, data.Transaction)


def _tattr(attr):
    """Value of a transaction-only column (NULL for other directives)."""
    return lambda e: getattr(e, attr) if _txn(e) else None


def p_eq(get, value):
    def pred(e):
        v = get(e)
        return None if v is None else v == value
    return pred


def p_match(get, pattern):
    search = re.compile(pattern, re.IGNORECASE).search

    def pred(e):
        v = get(e)
        return None if v is None else search(v) is not None
    return pred


def p_has_account(pattern):
    search = re.compile(pattern, re.IGNORECASE).search
    return lambda e: any(search(a) for a in getters.get_entry_accounts(e))


def p_not(p):
    def pred(e):
        v = p(e)
        assert v is not None, 'NOT is only used over operands that cannot be NULL'
        return not v
    return pred


def p_and(*ps):
    def pred(e):
        vs = [p(e) for p in ps]
        assert None not in vs
        return all(vs)
    return pred


def p_or(*ps):
    def pred(e):
        vs = [p(e) for p in ps]
        assert None not in vs
        return any(vs)
    return pred


def _type(e):
    return type(e).__name__.lower()


def _year(e):
    return e.date.year


def _date(e):
    return e.date


TYPES = ['open', 'close', 'commodity', 'pad', 'balance', 'transaction', 'note', 'event', 'query', 'price',
         'document', 'custom']

NARR_RE = 'lunch|buy|conv'
PAYEE_RE = 'bro|caf'


def _type_eq(t):
    return lambda: A.Equal(col('type'), C(t))


EXPRS = collections.OrderedDict()


def _expr(name, build, pred, roundtrip=False):
    EXPRS[name] = (build, pred, roundtrip)


_expr('none', lambda: None, lambda e: True, True)
_expr('year = 2020', lambda: A.Equal(col('year'), C(2020)), p_eq(_year, 2020), True)
_expr('year = 2019', lambda: A.Equal(col('year'), C(2019)), p_eq(_year, 2019), True)
_expr('NOT year = 2019', lambda: A.Not(A.Equal(col('year'), C(2019))), p_not(p_eq(_year, 2019)))
_expr('date < 2020-01-10', lambda: A.Less(col('date'), C(D_IN1)), lambda e: e.date < D_IN1, True)
_expr('date >= 2020-02-01', lambda: A.GreaterEq(col('date'), C(DATE(2020, 2, 1))), lambda e: e.date >= DATE(2020, 2, 1))
_expr("flag = '*'", lambda: A.Equal(col('flag'), C('*')), p_eq(_tattr('flag'), '*'))
_expr("flag = '!'", lambda: A.Equal(col('flag'), C('!')), p_eq(_tattr('flag'), '!'))
_expr(f"payee ~ '{PAYEE_RE}'", lambda: A.Match(col('payee'), C(PAYEE_RE)), p_match(_tattr('payee'), PAYEE_RE))
_expr(f"narration ~ '{NARR_RE}'", lambda: A.Match(col('narration'), C(NARR_RE)), p_match(_tattr('narration'), NARR_RE))
_expr("has_account('Expenses')", lambda: F('has_account', C('Expenses')), p_has_account('Expenses'))
_expr("has_account('cash')", lambda: F('has_account', C('cash')), p_has_account('cash'))
_expr("NOT has_account('Cash')", lambda: A.Not(F('has_account', C('Cash'))), p_not(p_has_account('Cash')))
_expr("year = 2020 AND NOT has_account('Inv')",
      lambda: A.And([A.Equal(col('year'), C(2020)), A.Not(F('has_account', C('Inv')))]),
      p_and(p_eq(_year, 2020), p_not(p_has_account('Inv'))))
for _t in TYPES:
    _expr(f"type = '{_t}'", _type_eq(_t), p_eq(_type, _t), True)
_expr("type != 'transaction'", lambda: A.NotEqual(col('type'), C('transaction')), p_not(p_eq(_type, 'transaction')), True)
_expr("NOT type = 'open'", lambda: A.Not(A.Equal(col('type'), C('open'))), p_not(p_eq(_type, 'open')), True)
_expr("NOT (type = 'transaction' OR type = 'price')",
      lambda: A.Not(A.Or([A.Equal(col('type'), C('transaction')), A.Equal(col('type'), C('price'))])),
      p_not(p_or(p_eq(_type, 'transaction'), p_eq(_type, 'price'))), True)
_expr("type = 'transaction' AND date < 2020-01-10",
      lambda: A.And([A.Equal(col('type'), C('transaction')), A.Less(col('date'), C(D_IN1))]),
      p_and(p_eq(_type, 'transaction'), lambda e: e.date < D_IN1), True)

BJ_EXPRS = ['none', 'year = 2020', 'date < 2020-01-10', 'date >= 2020-02-01', "flag = '*'", f"payee ~ '{PAYEE_RE}'",
            f"narration ~ '{NARR_RE}'", "has_account('Expenses')", "NOT has_account('Cash')",
            "year = 2020 AND NOT has_account('Inv')"]


def p_in(attr, value, negate=False, own=False):
    """'<value>' [NOT] IN tags|links.  own=False: the column is the TRANSACTION's set (NULL for other directives);
    own=True: Note / Document directives show their own tags / links.  NULL set -> NULL."""
    def pred(e):
        v = getattr(e, attr, None) if (own or _txn(e)) else None
        return None if v is None else ((value in v) != negate)
    return pred


#: name -> predicate of the second accepted reading (see "weakest readings": tags / links of a Note / Document)
ALT_PREDS = {}


def _expr_in(attr, value, negate=False):
    name = f"'{value}' {'NOT IN' if negate else 'IN'} {attr}"
    node = A.NotIn if negate else A.In
    _expr(name, lambda: node(C(value), col(attr)), p_in(attr, value, negate))
    ALT_PREDS[name] = p_in(attr, value, negate, own=True)


_expr_in('tags', 'food')
_expr_in('tags', 'ntag')
_expr_in('links', 'trip')
_expr_in('links', 'dlink')
_expr_in('tags', 'food', negate=True)
_expr("type = 'transaction' AND 'food' NOT IN tags",
      lambda: A.And([A.Equal(col('type'), C('transaction')), A.NotIn(C('food'), col('tags'))]),
      lambda e: _txn(e) and e.tags is not None and 'food' not in e.tags)
_expr("type = 'note' AND 'ntag' IN tags",
      lambda: A.And([A.Equal(col('type'), C('note')), A.In(C('ntag'), col('tags'))]),
      lambda e: False)
ALT_PREDS["type = 'note' AND 'ntag' IN tags"] = lambda e: isinstance(e, data.Note) and e.tags is not None and 'ntag' in e.tags

PRINT_EXPRS = list(EXPRS)

#: (open, close, clear) subsets of the quick tier; close True = CLOSE without a date
OCC_QUICK = [
    (D_IN1, None, None), (D_BEFORE, None, None), (D_AFTER, None, None),
    (None, True, None), (None, D_IN2, None), (None, D_BEFORE, None), (None, D_AFTER, None),
    (None, None, True),
    (D_IN1, D_IN2, None), (D_IN1, D_IN2, True), (D_IN1, None, True), (None, D_IN2, True),
    (D_BEFORE, D_AFTER, True), (D_IN1, True, None), (D_IN1, D_IN1, None),
]
OCC_DATES = [D_BEFORE, D_FIRST, D_IN1, D_IN2, D_AFTER]


def occ_menu(thorough):
    if not thorough:
        return list(OCC_QUICK)
    out = []
    for d in [None] + OCC_DATES:
        for e in [None, True] + OCC_DATES:
            for clear in (None, True):
                if d is None and e is None and clear is None:
                    continue
                if d is not None and isinstance(e, DATE) and d > e:
                    continue
                out.append((d, e, clear))
    return out


#: expressions combined with clauses (the clauses apply first, then the expression)
BJ_COMBOS = [("flag = '*'", D_IN1, D_IN2, None), ("has_account('Expenses')", None, D_IN2, True),
             ('date >= 2020-02-01', D_IN1, True, True), (f"narration ~ '{NARR_RE}'", D_IN1, None, None),
             # an expression with exactly one of CLOSE / CLEAR (and with OPEN): combined with every WHERE condition
             ('year = 2020', None, None, True), ('year = 2020', None, D_IN2, None), ('year = 2020', None, True, None),
             ('year = 2020', D_IN1, None, True), ('year = 2020', D_IN1, D_IN2, None)]
PRINT_COMBO_EXPRS = ["type = 'transaction'", "type != 'transaction'", f"narration ~ '{NARR_RE}'"]


def bj_from_menu(thorough):
    """FROM specifications (expression name, open, close, clear) of BALANCES / JOURNAL."""
    out = [(x, None, None, None) for x in BJ_EXPRS]
    out += [('none',) + occ for occ in occ_menu(thorough)]
    out += BJ_COMBOS
    return out


def print_from_menu(thorough):
    out = [(x, None, None, None) for x in PRINT_EXPRS]
    occs = occ_menu(thorough)
    out += [('none',) + occ for occ in occs]
    for x in PRINT_COMBO_EXPRS:
        out += [(x,) + occ for occ in (occs if thorough else OCC_QUICK[:1] + OCC_QUICK[8:10] + OCC_QUICK[11:12])]
    return out


# WHERE menu of BALANCES: name -> (AST builder, predicate (entry, posting) -> bool)
WHERES = collections.OrderedDict([
    ('none', (lambda: None, None)),
    ("account ~ 'Assets'", (lambda: A.Match(col('account'), C('Assets')),
                            lambda e, p: re.search('Assets', p.account, re.IGNORECASE) is not None)),
    ('number > 0', (lambda: A.Greater(col('number'), C(0)), lambda e, p: p.units.number > 0)),
    ("currency = 'USD'", (lambda: A.Equal(col('currency'), C('USD')), lambda e, p: p.units.currency == 'USD')),
    ("account ~ 'Income|Expenses|Equity'", (lambda: A.Match(col('account'), C('Income|Expenses|Equity')),
                                            lambda e, p: re.search('Income|Expenses|Equity', p.account, re.IGNORECASE) is not None)),
])

QUOTE_CRASH = 'a"b'
QUOTE_INJECT = 'Zzz" OR account ~ "Assets'
PATTERNS = [None, '', 'Assets', 'Assets:Cash|Expenses', 'NoSuchAccount', 'aSSets:ca', '^Income|Card$', QUOTE_CRASH, QUOTE_INJECT]


def _opened(text):
    return re.findall(r'^\d{4}-\d\d-\d\d open (\S+)', text, re.MULTILINE)


#: every full account name opened by the preamble or by an extra ledger, as JOURNAL argument (+ another letter case
#: and an account created by the plugin); ledger independent: a name absent from a ledger simply matches nothing
ACCOUNT_PATTERNS = list(dict.fromkeys(_opened(ledgers.PREAMBLE) + _opened(NESTED) + ['ASSETS:CASH', 'Equity:CurrencyAccounts:USD']))
ACCOUNT_FROMS = [('none', None, None, None), ("flag = '*'", None, None, None), ('none', D_IN1, D_IN2, True)]


def from_ast(spec):
    name, d, e, clear = spec
    expr = EXPRS[name][0]()
    if expr is None and d is None and e is None and clear is None:
        return None
    return A.From(expression=expr, open=d, close=e, clear=clear)


def spec_json(spec):
    name, d, e, clear = spec
    j = lambda x: x.isoformat() if isinstance(x, DATE) else x
    return [name, j(d), j(e), clear]


def spec_unjson(x):
    name, d, e, clear = x
    u = lambda v: DATE.fromisoformat(v) if isinstance(v, str) else v
    return (name, u(d), u(e), clear)


def fx(f, node):
    return F(f, node) if f else node


def balances_stmt(f, spec, wname):
    return A.Balances(f, from_ast(spec), WHERES[wname][0]())


def balances_ref(f, spec, wname):
    key = F('account_sortkey', col('account'))
    return select([(col('account'), 'account'), (F('sum', fx(f, col('position'))), 'total')], from_=from_ast(spec),
                  where=WHERES[wname][0](), group_by=A.GroupBy([col('account'), key], None),
                  order_by=[A.OrderBy(F('account_sortkey', col('account')), A.Ordering.ASC)])


def journal_stmt(pattern, f, spec):
    return A.Journal(pattern, f, from_ast(spec))


def journal_ref(pattern, f, spec):
    targets = [col('date'), col('flag'), F('maxwidth', col('payee'), C(WIDTH_PAYEE)),
               F('maxwidth', col('narration'), C(WIDTH_NARRATION)), col('account'),
               fx(f, col('position')), fx(f, col('balance'))]
    where = A.Match(col('account'), C(pattern)) if pattern is not None else None
    return select([(t, f'c{i}') for i, t in enumerate(targets)], from_=from_ast(spec), where=where)


def print_stmt(spec):
    return A.Print(from_ast(spec))


def show(stmt):
    try:
        return unparse.unparse(stmt)
    except Exception:
        return repr(stmt)


# ---------------------------------------------------------------------------------------------------------
# query parameters: the same statements with every literal of the FROM expression / WHERE condition replaced by a
# DB-API placeholder (positional %s or named %(pN)s), executed from TEXT with the values passed as parameters

STYLES = ['positional', 'named']

#: (FROM specification, WHERE name) of the parameterised BALANCES statements: a parameter in the FROM expression only,
#: in the WHERE condition only, in both, two in the FROM expression (with and without OPEN / CLEAR clauses)
P_BALANCES = [(('year = 2020', None, None, None), 'none'),
              (('none', None, None, None), "account ~ 'Assets'"),
              (('date < 2020-01-10', None, None, None), "account ~ 'Income|Expenses|Equity'"),
              (("year = 2020 AND NOT has_account('Inv')", None, None, None), 'number > 0'),
              (('year = 2020', D_IN1, None, True), "currency = 'USD'")]
P_JOURNAL_FROMS = [('year = 2020', None, None, None), ("year = 2020 AND NOT has_account('Inv')", None, None, None),
                   ("flag = '*'", D_IN1, D_IN2, None)]
P_JOURNAL_PATTERNS = [None, 'Assets:Cash|Expenses']
P_JOURNAL_FUNCS = [None, 'cost']
P_PRINT_FROMS = [("type = 'transaction' AND date < 2020-01-10", None, None, None), ("has_account('Expenses')", None, None, None),
                 (f"narration ~ '{NARR_RE}'", D_IN1, D_IN2, None)]


def _placeholders(node, values, named):
    """Copy of an AST with every Constant replaced by a placeholder; ``values`` collects (name, value)."""
    if isinstance(node, A.Constant):
        name = f'p{len(values)}'
        values.append((name, node.value))
        return A.Placeholder(name if named else '')
    if isinstance(node, A.Node):
        return type(node)(**{fld.name: _placeholders(getattr(node, fld.name), values, named)
                             for fld in dataclasses.fields(node) if fld.name != 'parseinfo'})
    if isinstance(node, list):
        return [_placeholders(x, values, named) for x in node]
    return node


def _parameterise(stmt, where):
    """(AST with placeholders, text, parameters) for both styles: {style: (ast, text, parameters)}.  Only the FROM
    clause and (``where``) the WHERE condition are rewritten: the literals of the SELECT expansion itself
    (maxwidth widths, the JOURNAL pattern) stay literals.  Positional parameters are listed in TEXTUAL order."""
    out = {}
    for named in (True, False):
        values = []
        kw = {'from_clause': _placeholders(stmt.from_clause, values, named)}
        if where:
            kw['where_clause'] = _placeholders(stmt.where_clause, values, named)
        out[named] = (dataclasses.replace(stmt, **kw), values)
    named_text = unparse.unparse(out[True][0])
    pos_text = unparse.unparse(out[False][0])
    order = re.findall(r'%\((p\d+)\)s', named_text)
    values = dict(out[True][1])
    assert sorted(order) == sorted(values) and re.sub(r'%\(p\d+\)s', '%s', named_text) == pos_text, (named_text, pos_text)
    return {'named': (out[True][0], named_text, values),
            'positional': (out[False][0], pos_text, tuple(values[n] for n in order))}


@functools.lru_cache(maxsize=None)
def param_form(kind, params):
    """-> (literal statement, {style: (ast, text, parameters)} of the statement, the same of its SELECT expansion or None)."""
    if kind == 'pbalances':
        return balances_stmt(*params), _parameterise(balances_stmt(*params), True), _parameterise(balances_ref(*params), True)
    if kind == 'pjournal':
        return journal_stmt(*params), _parameterise(journal_stmt(*params), False), _parameterise(journal_ref(*params), False)
    assert kind == 'pprint'
    return print_stmt(*params), _parameterise(print_stmt(*params), False), None


def param_stmt(kind, params, style):
    return param_form(kind, params)[1][style][0]


def param_cases():
    out = []
    for spec, w in P_BALANCES:
        for f in FUNCS:
            for style in STYLES:
                out.append(('pbalances', ((f, spec, w), style)))
    for spec in P_JOURNAL_FROMS:
        for pat in P_JOURNAL_PATTERNS:
            for f in P_JOURNAL_FUNCS:
                for style in STYLES:
                    out.append(('pjournal', ((pat, f, spec), style)))
    return out


def param_print_cases():
    return [('pprint', ((spec,), style)) for spec in P_PRINT_FROMS for style in STYLES]


# ---------------------------------------------------------------------------------------------------------
class Ledger:
    """A loaded ledger + the reference's view of it."""

    def __init__(self, label, text, case, roundtrip):
        self.label, self.text, self.case, self.roundtrip = label, text, case, roundtrip
        self.entries, self.errors, self.options = ledgers.load(text)
        assert not self.errors, (label, self.errors[:2])
        self.conn = beanquery.connect('beancount:', entries=self.entries, errors=self.errors, options=self.options)
        self.atypes = list(bc_options.get_account_types(self.options))
        self._universe = {}

    def universe(self, spec):
        """The entries the FROM expression runs over: the ledger, or the real tables' summarisation of it for the
        clause values of ``spec`` (C13 owns what the summarisation does)."""
        _, d, e, clear = spec
        if d is None and e is None and clear is None:
            return self.entries
        key = (d, e, clear)
        if key not in self._universe:
            table = self.conn.tables['entries'].update(open=d, close=e, clear=clear)
            self._universe[key] = table.prepare()
        return self._universe[key]

    def selected(self, spec):
        pred = EXPRS[spec[0]][1]
        return [e for e in self.universe(spec) if pred(e) is True]

    def sort_key(self, account):
        return (self.atypes.index(account_types.get_account_type(account)), account)


def pos_of(p):
    return position.Position(p.units, p.cost)


def f_position(f, p):
    if f is None:
        return pos_of(p)
    if f == 'units':
        return p.units
    return convert.get_cost(pos_of(p))


def f_inventory(f, inv):
    if f is None:
        return Inv(list(inv))
    return inv.reduce(convert.get_units if f == 'units' else convert.get_cost)


def tn(v):
    return type(v).__name__


def same_rows(a, b):
    return len(a) == len(b) and all(len(x) == len(y) and all(tn(u) == tn(v) and u == v for u, v in zip(x, y))
                                    for x, y in zip(a, b))


def run_query(conn, stmt):
    cur = conn.execute(stmt)
    return cur.fetchall(), [d.datatype for d in cur.description]


class Checker:
    def __init__(self, acc, led):
        self.acc, self.led = acc, led

    def violation(self, fp, what, case):
        self.acc.violation(fp, f'ledger {self.led.label}: {what}', dict(self.led.case, **case, fingerprint=fp))

    # ---- BALANCES ------------------------------------------------------------------------------------
    def balances(self, f, spec, wname, order):
        acc, led = self.acc, self.led
        stmt = balances_stmt(f, spec, wname)
        case = {'kind': 'balances', 'f': f, 'from': spec_json(spec), 'where': wname, 'order': order}
        acc.count('balances_statements')
        acc.count('statements')
        try:
            rows, dtypes = run_query(led.conn, stmt)
        except Exception as exc:
            self.violation(crash_fingerprint(exc), f'{show(stmt)} raised {type(exc).__name__}: {exc}', case)
            return
        ref = balances_ref(f, spec, wname)
        try:
            rrows, rdtypes = run_query(led.conn, ref)
        except Exception as exc:
            self.violation('select:' + crash_fingerprint(exc), f'{show(ref)} raised {type(exc).__name__}: {exc}', case)
            return
        acc.count('rows_compared', len(rows))
        acc.count('cells_compared', 2 * len(rows))
        text = show(stmt)
        if any(len(r) != 2 for r in rows) or len(dtypes) != 2:
            self.violation('balances:columns', f'{text}: {len(dtypes)} columns, expected 2 (account, sum)', case)
            return
        # direct reference
        wpred = WHERES[wname][1]
        groups = collections.OrderedDict()
        nsel = 0
        for e in led.selected(spec):
            if not _txn(e):
                continue
            for p in e.postings:
                if wpred is None or wpred(e, p):
                    nsel += 1
                    inv = groups.setdefault(p.account, Inv())
                    if f is None:
                        inv.add_position(pos_of(p))
                    else:
                        inv.add_amount(f_position(f, p))
        acc.count('postings_folded', nsel)
        got_accounts = [r[0] for r in rows]
        # differential with the SELECT of the property
        if not same_rows(rows, rrows):
            fp = 'balances:order' if sorted(map(repr, rows)) == sorted(map(repr, rrows)) else 'balances:rows'
            self.violation(fp, f'{text} returned {rows!r}; {show(ref)} returned {rrows!r}', case)
            return
        if dtypes != rdtypes or dtypes != [str, Inv]:
            self.violation('balances:datatypes', f'{text}: datatypes {dtypes!r}; the SELECT gives {rdtypes!r}, expected [str, Inventory]', case)
            return
        # direct: order, membership, sums
        expected_order = sorted(groups, key=led.sort_key)
        nonempty = [a for a in expected_order if not groups[a].is_empty()]
        if len(set(got_accounts)) != len(got_accounts) or not set(nonempty) <= set(got_accounts) <= set(groups):
            self.violation('balances:rows', f'{text}: accounts {got_accounts!r}; the selected postings have accounts '
                           f'{expected_order!r} (those with an empty sum optional: {sorted(set(expected_order) - set(nonempty))!r})', case)
            return
        if got_accounts != sorted(got_accounts, key=led.sort_key):
            self.violation('balances:order', f'{text}: accounts in the order {got_accounts!r}; expected by account type '
                           f'{led.atypes} then name: {sorted(got_accounts, key=led.sort_key)!r}', case)
            return
        for a, inv in rows:
            if inv != groups[a]:
                self.violation('balances:rows', f'{text}: {a} = {inv}; the Inventory fold of the selected postings is {groups[a]}', case)
                return
        acc.count('balances_compared')
        if rows:
            acc.count('nontrivial')
        else:
            acc.count('empty_results')
        if len({led.sort_key(a)[0] for a in got_accounts}) > 1 and got_accounts != sorted(got_accounts):
            acc.count('balances_where_type_order_differs_from_name_order')
        acc.add('balances_outcomes', hash(repr(rows)))
        if len(rows) > 2 and order % 97 == 31:
            acc.sample({'ledger': led.label, 'statement': text, 'result': repr(rows)[:400]}, limit=2)
        return rows

    # ---- JOURNAL -------------------------------------------------------------------------------------
    COLS = ['date', 'flag', 'payee', 'narration', 'account', 'position', 'balance']

    def journal(self, pattern, f, spec, order):
        acc, led = self.acc, self.led
        stmt = journal_stmt(pattern, f, spec)
        case = {'kind': 'journal', 'pattern': pattern, 'f': f, 'from': spec_json(spec), 'order': order}
        quote = pattern is not None and '"' in pattern
        acc.count('journal_statements')
        acc.count('statements')
        text = show(stmt)
        try:
            rows, dtypes = run_query(led.conn, stmt)
        except Exception as exc:
            fp = 'journal:pattern-quote' if quote else crash_fingerprint(exc)
            self.violation(fp, f'{text} raised {type(exc).__name__}: {exc}' +
                           (' (the pattern is a valid string literal and regular expression; it matches no account, '
                            'the register should be empty)' if quote else ''), case)
            return
        ref = journal_ref(pattern, f, spec)
        try:
            rrows, rdtypes = run_query(led.conn, ref)
        except Exception as exc:
            self.violation('select:' + crash_fingerprint(exc), f'{show(ref)} raised {type(exc).__name__}: {exc}', case)
            return
        acc.count('rows_compared', len(rows))
        acc.count('cells_compared', 7 * len(rows))
        if any(len(r) != 7 for r in rows) or len(dtypes) != 7:
            self.violation('journal:columns', f'{text}: {len(dtypes)} columns, expected 7', case)
            return
        # direct reference
        search = re.compile(pattern, re.IGNORECASE).search if pattern is not None else None
        exp = []
        running = Inv()
        for e in led.selected(spec):
            if not _txn(e):
                continue
            for p in e.postings:
                if search is None or search(p.account):
                    running.add_position(pos_of(p))
                    exp.append((e.date, e.flag, e.payee, e.narration, p.account, f_position(f, p), f_inventory(f, running)))
        fp = self.journal_diff(rows, rrows, exact=True)
        if fp:
            if quote:
                fp = 'journal:pattern-quote'
            self.violation(fp, f'{text} returned {len(rows)} rows {rows[:4]!r}...; {show(ref)} returned {len(rrows)} rows {rrows[:4]!r}...', case)
            return
        ptype = position.Position if f is None else Amount
        if dtypes != rdtypes or dtypes != [DATE, str, str, str, str, ptype, Inv]:
            self.violation('journal:datatypes', f'{text}: datatypes {dtypes!r}; the SELECT gives {rdtypes!r}', case)
            return
        fp = self.journal_diff(rows, exp, exact=False)
        if fp:
            if quote:
                fp = 'journal:pattern-quote'
            i = next((i for i, (a, b) in enumerate(zip(rows, exp)) if not self.row_ok(a, b)), min(len(rows), len(exp)))
            self.violation(fp, f'{text} returned {len(rows)} rows, the register of the postings matching the pattern has {len(exp)}; '
                           f'first difference at row {i}: got {rows[i] if i < len(rows) else None!r}, expected '
                           f'{exp[i] if i < len(exp) else None!r}', case)
            return
        acc.count('journal_compared')
        if rows:
            acc.count('nontrivial')
            if rows[-1][6].is_empty():
                acc.count('journal_final_balance_empty')
        else:
            acc.count('empty_results')
        acc.count('journal_truncated_cells', sum(1 for r, x in zip(rows, exp) for k in (2, 3) if r[k] != x[k]))
        acc.add('journal_outcomes', hash(repr(rows)))
        if len(rows) > 2 and order % 97 == 5 and len(acc.samples) in (2, 3):
            acc.sample({'ledger': led.label, 'statement': text, 'rows': len(rows), 'last_row': repr(rows[-1])[:300]}, limit=4)
        return rows

    @staticmethod
    def cell_ok(k, got, want):
        if k in (2, 3) and want is not None and got != want:
            width = WIDTH_PAYEE if k == 2 else WIDTH_NARRATION
            norm = ' '.join(want.split())
            return isinstance(got, str) and (got == norm or (len(norm) > width and len(got) <= width))
        return tn(got) == tn(want) and got == want

    def row_ok(self, a, b):
        return all(self.cell_ok(k, x, y) for k, (x, y) in enumerate(zip(a, b)))

    def journal_diff(self, rows, other, exact):
        """None when equal, else the fingerprint: the row count or the first differing column."""
        if len(rows) != len(other):
            return 'journal:rows'
        for a, b in zip(rows, other):
            for k, (x, y) in enumerate(zip(a, b)):
                ok = (tn(x) == tn(y) and x == y) if exact else self.cell_ok(k, x, y)
                if not ok:
                    return f'journal:col:{self.COLS[k]}'
        return None

    # ---- PRINT ---------------------------------------------------------------------------------------
    def print_(self, spec, order):
        acc, led = self.acc, self.led
        stmt = print_stmt(spec)
        case = {'kind': 'print', 'from': spec_json(spec), 'order': order}
        acc.count('print_statements')
        acc.count('statements')
        text = show(stmt)
        try:
            c_print = led.conn.compile(stmt)
            buf = io.StringIO()
            query_execute.execute_print(c_print, buf)
            got = buf.getvalue()
        except Exception as exc:
            self.violation(crash_fingerprint(exc), f'{text} raised {type(exc).__name__}: {exc}', case)
            return
        want_entries = led.selected(spec)
        dcontext = display_context.DisplayContext()
        dcontext.set_commas(led.options['dcontext'].commas)
        buf = io.StringIO()
        printer.print_entries(want_entries, dcontext, file=buf)
        want = buf.getvalue()
        acc.count('directives_compared', len(want_entries))
        acc.count('cells_compared', len(want_entries))
        for e in want_entries:
            acc.add('printed_types', _type(e))
            if _txn(e) and e.flag not in '*!':
                acc.add('printed_synthetic_flags', e.flag)
        if got != want and spec[0] in ALT_PREDS:
            alt = [e for e in led.universe(spec) if ALT_PREDS[spec[0]](e) is True]
            buf = io.StringIO()
            printer.print_entries(alt, dcontext, file=buf)
            if got == buf.getvalue():
                acc.count('print_second_reading_accepted')
                want_entries, want = alt, got
        if got != want:
            heads = [ln for ln in got.splitlines() if re.match(r'\d{4}-\d\d-\d\d ', ln)]
            wheads = [ln for ln in want.splitlines() if re.match(r'\d{4}-\d\d-\d\d ', ln)]
            if heads != wheads:
                self.violation('print:selection', f'{text} printed {len(heads)} directives {heads[:8]!r}; the directives satisfying '
                               f'the FROM clause, in ledger order, are {len(wheads)}: {wheads[:8]!r}', case)
            else:
                diff = next(((a, b) for a, b in zip(got.splitlines(), want.splitlines()) if a != b), (got[-80:], want[-80:]))
                self.violation('print:rendering', f'{text} printed the expected directives but not the text of beancount.parser.printer '
                               f'with the documented display context: first differing line {diff[0]!r}, expected {diff[1]!r}', case)
            return
        acc.count('print_compared')
        if want_entries:
            acc.count('nontrivial')
            if len(want_entries) < len(led.universe(spec)):
                acc.count('print_proper_selections')
        else:
            acc.count('empty_results')
            if got != '':
                self.violation('print:selection', f'{text}: nothing selected but the output is {got!r}', case)
                return
        acc.add('print_outcomes', hash(got))
        if 0 < len(want_entries) < 4 and order % 7 == 3 and len(acc.samples) in (4, 5):
            acc.sample({'ledger': led.label, 'statement': text, 'output': got[:400]}, limit=6)
        # lossless clause
        if led.roundtrip and EXPRS[spec[0]][2] and spec[1:] == (None, None, None):
            acc.count('roundtrips')
            entries2, errors2, _ = loader.load_string(got)
            hard = [x for x in errors2 if not re.search(r'unknown account|inactive account|unopened account', str(getattr(x, 'message', x)), re.IGNORECASE)]
            acc.count('roundtrip_tolerated_validation_errors', len(errors2) - len(hard))
            h1 = [hash_entry(e, exclude_meta=True) for e in want_entries]
            h2 = [hash_entry(e, exclude_meta=True) for e in entries2]
            if hard or h1 != h2:
                missing = [printer.format_entry(e).splitlines()[0] for e, h in zip(want_entries, h1) if h not in h2]
                self.violation('print:roundtrip', f'{text}: the output re-loaded with beancount.loader gives {len(entries2)} directives, '
                               f'{len(want_entries)} were printed; errors {[str(getattr(x, "message", x)) for x in hard][:3]!r}; '
                               f'printed directives without an equal re-loaded one: {missing[:4]!r}', case)
                return
            acc.count('roundtrip_directives', len(entries2))
            for a, b in zip(want_entries, entries2):
                if user_meta(a) != user_meta(b):
                    self.violation('print:roundtrip-meta', f'{text}: metadata of {printer.format_entry(a).splitlines()[0]!r} is '
                                   f'{user_meta(a)!r}, after re-loading {user_meta(b)!r}', case)
                    return
        return got


    # ---- query parameters ----------------------------------------------------------------------------
    def _run_text(self, kind, text, values, cursor):
        """Execute statement TEXT with parameters: rows + datatypes, or the printed text."""
        conn = self.led.conn
        if kind == 'pprint':
            c_print = bq_compiler.compile(conn, conn.parse(text), values)
            buf = io.StringIO()
            query_execute.execute_print(c_print, buf)
            return buf.getvalue()
        cur = conn.cursor().execute(text, values) if cursor else conn.execute(text, values)
        return cur.fetchall(), [d.datatype for d in cur.description]

    def _run_literal(self, kind, stmt):
        if kind == 'pprint':
            buf = io.StringIO()
            query_execute.execute_print(self.led.conn.compile(stmt), buf)
            return buf.getvalue()
        return run_query(self.led.conn, stmt)

    @staticmethod
    def _same_result(kind, a, b):
        if kind == 'pprint':
            return a == b
        return same_rows(a[0], b[0]) and a[1] == b[1]

    def param(self, kind, params, style, order):
        """The statement with its literals passed as query parameters returns what the statement with the literals
        written out returns, and what the SELECT expansion executed with the same parameters returns."""
        acc, led = self.acc, self.led
        literal, forms, ref_forms = param_form(kind, params)
        _, text, values = forms[style]
        name = kind[1:]
        case = {'kind': kind, 'params': jparams(params), 'style': style, 'order': order}
        acc.count('param_statements')
        acc.count(f'param_{name}_statements')
        acc.count('statements')
        shown = f'{text} with parameters {values!r}'
        try:
            got = self._run_text(kind, text, values, cursor=(order % 2 == 1))
        except Exception as exc:
            self.violation(crash_fingerprint(exc), f'{shown} raised {type(exc).__name__}: {exc!r}; the statement with the '
                           f'values written as literals is {show(literal)}', case)
            return
        try:
            lit = self._run_literal(kind, literal)
        except Exception as exc:
            self.violation(crash_fingerprint(exc), f'{show(literal)} raised {type(exc).__name__}: {exc}', case)
            return
        n = len(got[0]) if kind != 'pprint' else len(re.findall(r'^\d{4}-\d\d-\d\d ', got, re.MULTILINE))
        acc.count('rows_compared', n)
        acc.count('cells_compared', n * {'pbalances': 2, 'pjournal': 7, 'pprint': 1}[kind])
        if not self._same_result(kind, got, lit):
            self.violation(f'{name}:parameters', f'{shown} returned {_brief(got)}; {show(literal)} returned {_brief(lit)}', case)
            return
        if ref_forms is not None:
            _, rtext, rvalues = ref_forms[style]
            try:
                sel = self._run_text(kind, rtext, rvalues, cursor=False)
            except Exception as exc:
                self.violation('select:' + crash_fingerprint(exc), f'{rtext} with parameters {rvalues!r} raised {type(exc).__name__}: {exc!r}', case)
                return
            if not self._same_result(kind, got, sel):
                self.violation('select:parameters', f'{shown} returned {_brief(got)}; {rtext} with parameters {rvalues!r} returned {_brief(sel)}', case)
                return
        acc.count('param_compared')
        acc.count('nontrivial' if n else 'empty_results')
        if n:
            acc.count('param_nontrivial')
        acc.add('param_outcomes', hash(repr(got)))
        if n > 1 and order % 5 == 2 and not any('parameters' in x for x in acc.samples if isinstance(x, dict)):
            acc.sample({'ledger': led.label, 'statement': text, 'parameters': repr(values), 'result': _brief(got)}, limit=9)
        return got


def _brief(result):
    if isinstance(result, str):
        return repr(result[:300])
    return f'{len(result[0])} rows {result[0][:4]!r}'


def jparams(params):
    """JSON form of a parameterised case: the FROM specification is the last element of the statement's parameters
    for JOURNAL / PRINT and the second for BALANCES."""
    return [spec_json(x) if isinstance(x, tuple) else x for x in params]


def unjparams(params):
    return tuple(spec_unjson(x) if isinstance(x, list) else x for x in params)

def user_meta(entry):
    out = [{k: v for k, v in (entry.meta or {}).items() if k not in ('filename', 'lineno') and not k.startswith('__')}]
    if _txn(entry):
        for p in entry.postings:
            out.append({k: v for k, v in (p.meta or {}).items() if k not in ('filename', 'lineno') and not k.startswith('__')})
    return out


# ---------------------------------------------------------------------------------------------------------
def bj_cases(thorough):
    """(kind, params) of every BALANCES / JOURNAL statement, in enumeration order."""
    out = []
    froms = bj_from_menu(thorough)
    for spec in froms:
        for f in FUNCS:
            for w in WHERES:
                out.append(('balances', (f, spec, w)))
    for spec in froms:
        for f in FUNCS:
            for pat in PATTERNS:
                out.append(('journal', (pat, f, spec)))
    for pat in ACCOUNT_PATTERNS:
        for f in FUNCS:
            for spec in ACCOUNT_FROMS:
                out.append(('journal', (pat, f, spec)))
    return out + param_cases()


def print_cases(thorough):
    return [('print', (spec,)) for spec in print_from_menu(thorough)] + param_print_cases()


def explore_ledger(acc, led, cases):
    chk = Checker(acc, led)
    acc.count('ledger_runs')
    for order, (kind, params) in enumerate(cases):
        if kind == 'balances':
            chk.balances(*params, order)
        elif kind == 'journal':
            chk.journal(*params, order)
        elif kind == 'print':
            chk.print_(*params, order)
        else:
            chk.param(kind, params[0], params[1], order)


def family_ledger(names, text, seed):
    rt = not any(n in NO_ROUNDTRIP for n in names)
    return Ledger(f'{list(names)}', text, {'ledger': {'family': list(names)}, 'seed': seed}, rt)


def extra_ledger(name, seed):
    if name == 'FULL':
        return Ledger('FULL-ALPHABET', ledgers.text_of(ledgers.NAMES, seed), {'ledger': {'extra': 'FULL'}, 'seed': seed}, False)
    if name == 'FULL-NOPAD':
        names = [n for n in ledgers.NAMES if n not in NO_ROUNDTRIP]
        return Ledger('FULL-ALPHABET-WITHOUT-PAD-AND-PLUGIN', ledgers.text_of(names, seed), {'ledger': {'extra': 'FULL-NOPAD'}, 'seed': seed}, True)
    if name == 'NESTED':
        return Ledger('NESTED', NESTED, {'ledger': {'extra': 'NESTED'}, 'seed': seed}, True)
    if name == 'ZEROCOST':
        return Ledger('ZEROCOST', ZEROCOST, {'ledger': {'extra': 'ZEROCOST'}, 'seed': seed}, True)
    assert name == 'LONGTEXT'
    return Ledger('LONGTEXT', LONGTEXT, {'ledger': {'extra': 'LONGTEXT'}, 'seed': seed}, True)


EXTRAS = ['FULL', 'FULL-NOPAD', 'LONGTEXT', 'ZEROCOST', 'NESTED']


def text_phase(acc, shard, nshards, thorough):
    """Every distinct statement of the menus: unparse -> real parser -> the AST that is executed."""
    conn = beanquery.Connection()
    stmts = []
    for kind, params in bj_cases(thorough) + print_cases(thorough):
        if kind.startswith('p') and kind != 'print':
            stmts.append((kind[1:], param_stmt(kind, *params)))
        else:
            stmts.append((kind, {'balances': balances_stmt, 'journal': journal_stmt, 'print': print_stmt}[kind](*params)))
    seen = set()
    for i, (kind, stmt) in enumerate(stmts):
        if not mine(i, shard, nshards):
            continue
        text = unparse.unparse(stmt)
        if text in seen:
            continue
        seen.add(text)
        acc.count('statements_parsed_from_text')
        try:
            parsed = _real_parse(text) if _real_parse else conn.parse(text)
        except Exception as exc:
            acc.violation(f'text:{kind}', f'{text!r} does not parse: {type(exc).__name__}: {exc}', {'kind': 'text', 'text': text, 'ast': repr(stmt)})
            continue
        if parsed != stmt:
            acc.violation(f'text:{kind}', f'{text!r} parses to {parsed!r}, the statement explored is {stmt!r}',
                          {'kind': 'text', 'text': text, 'ast': repr(stmt)})


def bounds(thorough):
    """(max snippets of a BALANCES/JOURNAL ledger, max snippets of a PRINT ledger)."""
    return (4, 3) if thorough else (2, 2)


def shard_fn(shard, nshards, tier, seed):
    install_parse_memo()
    thorough = tier == 'thorough'
    acc = Acc()
    n_bj, n_p = bounds(thorough)
    bj = bj_cases(thorough)
    pr = print_cases(thorough)
    text_phase(acc, shard, nshards, thorough)
    # BALANCES / JOURNAL over the posting family
    for index, names, text in ledgers.family_sharded(n_bj, shard, nshards, seed=seed, exclude=BJ_EXCLUDE):
        acc.count('bj_ledgers')
        led = family_ledger(names, text, seed)
        explore_ledger(acc, led, bj)
    # PRINT over the whole family (offset the shard so that the heavy first shards are not the same)
    for index, names, text in ledgers.family_sharded(n_p, (shard + nshards // 2) % nshards, nshards, seed=seed):
        acc.count('print_ledgers')
        led = family_ledger(names, text, seed)
        if led.roundtrip:
            acc.count('print_ledgers_with_roundtrip')
        explore_ledger(acc, led, pr)
    for k, name in enumerate(EXTRAS):
        if mine(k * 5 + 3, shard, nshards):
            acc.count('extra_ledgers')
            explore_ledger(acc, extra_ledger(name, seed), bj + pr)
    return acc


def replay(case):
    install_parse_memo()
    acc = Acc()
    acc.MAX_VIOL_PER_FP = 10
    if case.get('kind') == 'text':
        parsed = _real_parse(case['text'])
        if repr(parsed) != case['ast']:
            acc.violation('text:replay', f'{case["text"]!r} parses to {parsed!r}, explored {case["ast"]}', case)
        return acc.violations
    seed = case.get('seed', 0)
    ld = case['ledger']
    if 'family' in ld:
        led = family_ledger(tuple(ld['family']), ledgers.text_of(ld['family'], seed), seed)
    else:
        led = extra_ledger(ld['extra'], seed)
    chk = Checker(acc, led)
    if case['kind'] in ('pbalances', 'pjournal', 'pprint'):
        chk.param(case['kind'], unjparams(case['params']), case['style'], case.get('order', 0))
        want = case.get('fingerprint')
        return [v for v in acc.violations if want is None or v.fingerprint == want]
    spec = spec_unjson(case['from'])
    if case['kind'] == 'balances':
        chk.balances(case['f'], spec, case['where'], case.get('order', 0))
    elif case['kind'] == 'journal':
        chk.journal(case['pattern'], case['f'], spec, case.get('order', 0))
    else:
        chk.print_(spec, case.get('order', 0))
    want = case.get('fingerprint')
    return [v for v in acc.violations if want is None or v.fingerprint == want]


def minimise(violations, seed, thorough):
    """For every reported fingerprint, put the smallest family ledger (<= 2 snippets, simplest first) and the
    earliest statement showing it first: the runner records the first case per fingerprint."""
    install_parse_memo()
    fps = []
    for v in violations:
        if v.fingerprint not in fps and not v.fingerprint.startswith('text:'):
            fps.append(v.fingerprint)
    found = {}

    def walk(exclude, cases, wanted):
        wanted = [fp for fp in wanted if fp not in found]
        if not wanted:
            return
        for _, names, text in ledgers.family_sharded(2, 0, 1, seed=seed, exclude=exclude):
            acc = Acc()
            acc.MAX_VIOL_PER_FP = 1
            explore_ledger(acc, family_ledger(names, text, seed), cases)
            for v in acc.violations:
                if v.fingerprint in wanted and v.fingerprint not in found:
                    found[v.fingerprint] = v
            if all(fp in found for fp in wanted):
                return

    bj = bj_cases(thorough)
    walk(BJ_EXCLUDE, [c for c in bj if c[0] in ('balances', 'pbalances')], [fp for fp in fps if not fp.startswith(('journal:', 'print:'))])
    walk(BJ_EXCLUDE, [c for c in bj if c[0] in ('journal', 'pjournal')], [fp for fp in fps if not fp.startswith(('balances:', 'print:'))])
    walk((), print_cases(thorough), [fp for fp in fps if not fp.startswith(('balances:', 'journal:'))])
    return [found[fp] for fp in fps if fp in found] + sorted(violations, key=_size)


def _size(v):
    ld = v.case.get('ledger', {})
    names = ld.get('family')
    return (0 if names is not None else 1, len(names or ()), v.case.get('order', 0), names or [])


def run(ctx):
    thorough = ctx.thorough
    n_bj, n_p = bounds(thorough)
    acc = run_shards(shard_fn, ctx.jobs, ctx.tier, ctx.seed, nshards=max(ctx.jobs, 1) * 4)
    if acc.violations:
        acc.violations = minimise(acc.violations, ctx.seed, thorough)
    bj_size = ledgers.family_size(n_bj, exclude=BJ_EXCLUDE)
    p_size = ledgers.family_size(n_p)
    assert acc.n['bj_ledgers'] == bj_size and acc.n['print_ledgers'] == p_size, (acc.n['bj_ledgers'], bj_size, acc.n['print_ledgers'], p_size)
    assert acc.n['extra_ledgers'] == len(EXTRAS)
    bj, pr = bj_cases(thorough), print_cases(thorough)
    c = acc.n
    cov = {
        'states': c['statements'],
        'transitions': c['statements'],
        'traces_validated_against_impl': c['statements'],
        'evaluations': c['cells_compared'],
        'distinct_nontrivial': c['nontrivial'],
        'rule': 'a case (state) is one (ledger, statement) pair, distinct by construction (every pair is visited once); a transition is one BALANCES / JOURNAL / '
                'PRINT statement executed on the real implementation and compared with its reference (the SELECT of the property '
                'executed on the same connection AND the direct traversal / Inventory fold / beancount printer); non-trivial = the '
                'statement returned at least one row / printed at least one directive; evaluations = result cells and printed '
                'directives compared',
        'exhaustive': True,
        'bound': f'BALANCES/JOURNAL: all {bj_size} ledgers with <= {n_bj} of the {len(BJ_SNIPPETS)} posting snippets x {len(bj)} statements; '
                 f'PRINT: all {p_size} ledgers with <= {n_p} of the {len(ledgers.NAMES)} alphabet snippets x {len(pr)} statements; '
                 f'{len(EXTRAS)} extra ledgers x all {len(bj) + len(pr)} statements',
        'completed_n': {'balances_journal': n_bj, 'print': n_p},
        'posting_snippets': BJ_SNIPPETS,
        'alphabet': ledgers.NAMES,
        'extra_ledgers': EXTRAS,
        'summary_functions': ['(none)', 'units', 'cost'],
        'from_menu_balances_journal': [show_spec(s) for s in bj_from_menu(thorough)],
        'from_menu_print': len(print_from_menu(thorough)),
        'where_menu': list(WHERES),
        'patterns': [repr(p) for p in PATTERNS],
        'full_account_name_patterns': ACCOUNT_PATTERNS,
        'from_menu_of_the_full_account_name_patterns': [show_spec(s) for s in ACCOUNT_FROMS],
        'parameterised_statements': sorted({param_form(k, p)[1][st][1] for k, (p, st) in param_cases() + param_print_cases()}),
        'parameter_styles': STYLES,
        'parameterised_statements_executed': c['param_statements'],
        'parameterised_balances_executed': c['param_balances_statements'],
        'parameterised_journal_executed': c['param_journal_statements'],
        'parameterised_print_executed': c['param_print_statements'],
        'parameterised_equal_to_literal_statement_and_parameterised_select': c['param_compared'],
        'parameterised_nontrivial': c['param_nontrivial'],
        'distinct_parameterised_results': len(acc.sets['param_outcomes']),
        'bj_ledgers': c['bj_ledgers'], 'print_ledgers': c['print_ledgers'],
        'print_ledgers_with_roundtrip': c['print_ledgers_with_roundtrip'],
        'balances_statements': c['balances_statements'], 'balances_fully_compared': c['balances_compared'],
        'journal_statements': c['journal_statements'], 'journal_fully_compared': c['journal_compared'],
        'print_statements': c['print_statements'], 'print_fully_compared': c['print_compared'],
        'statements_parsed_from_text_and_equal_to_the_ast': c['statements_parsed_from_text'],
        'rows_compared': c['rows_compared'], 'postings_folded_by_the_reference': c['postings_folded'],
        'directives_printed_and_compared': c['directives_compared'],
        'roundtrips': c['roundtrips'], 'roundtrip_directives': c['roundtrip_directives'],
        'roundtrip_tolerated_validation_errors': c['roundtrip_tolerated_validation_errors'],
        'empty_results': c['empty_results'],
        'balances_where_type_order_differs_from_name_order': c['balances_where_type_order_differs_from_name_order'],
        'journal_truncated_cells': c['journal_truncated_cells'],
        'journal_final_balance_empty': c['journal_final_balance_empty'],
        'print_proper_selections': c['print_proper_selections'],
        'print_tags_links_filters_matching_the_second_reading_only': c['print_second_reading_accepted'],
        'printed_directive_types': sorted(acc.sets['printed_types']),
        'printed_synthetic_transaction_flags': sorted(acc.sets['printed_synthetic_flags']),
        'distinct_balances_results': len(acc.sets['balances_outcomes']),
        'distinct_journal_results': len(acc.sets['journal_outcomes']),
        'distinct_print_outputs': len(acc.sets['print_outcomes']),
        'violating_cases': c['violating_cases'],
        'seed_effect': f'seed only rotates the amount of txn_plain ({1000 + ctx.seed % 50}.00 USD); ledgers and statements are the same',
        'samples': acc.samples[:8],
    }
    return Result(cov, acc.violations, assumptions=[
        'column names of BALANCES / JOURNAL are not compared (unspecified); rows by (type, value), datatypes, number of columns are',
        'direct BALANCES check: an account whose selected postings sum to the empty inventory may be listed or omitted',
        'register payee / narration longer than 48 / 80: directly only "not longer than the width"; the differential uses maxwidth',
        'a row is selected iff the FROM / WHERE expression is TRUE; NOT / AND / OR only over operands that cannot be NULL',
        'PRINT filters on tags / links: for Note / Document directives the column may be NULL (the transaction\'s set) or the '
        'directive\'s own tags / links; either selection is accepted (C11 takes the same weakest reading)',
        'OPEN / CLOSE / CLEAR: the universe is entries-table.update(open, close, clear).prepare() of the real tables (C13 owns the summarisation)',
        'PRINT round trip only for ledgers without pad_balance / plugin and for FROM absent, type filters and date-prefix filters; '
        'validation errors about unopened accounts on re-loading are tolerated; hash_entry(exclude_meta=True) plus user metadata',
        'beanquery.parser.parse memoised by text during the check (templates are re-parsed on every compile otherwise)',
        'statements are fed as ASTs; every distinct statement text was parsed by the real parser and equals the AST',
        'query parameters: only complete literals of the FROM expression / WHERE condition are parameterised (the grammar has no '
        'placeholder for the JOURNAL pattern, the AT function or the OPEN / CLOSE dates); the statement is executed from text '
        '(positional binding is defined on the text); wrong parameter counts / mixed styles / missing names are not explored here',
    ])


def show_spec(spec):
    fr = from_ast(spec)
    return 'FROM ' + unparse.unparse(fr) if fr is not None else '(no FROM)'
