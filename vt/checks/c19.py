"""C19 -- the shell prints what the API returns; settings behave as a typed key-value store.

Technique: explicit-state model checking of the REAL ``beanquery.shell.BQLShell`` (batch mode, ledger
attached the way shell_test.py does it) against ``vt.ref.settings`` -- never sampling.

Part 1  E-bfs (``vt.explore.bfs.bfs``) over the settings store.
    A state is an event history; every expansion builds a fresh shell, replays the history
    (``replay_step``: the command is executed on the real shell, output oracles skipped) and applies one
    more event whose stdout / stderr / exception / ``vars(settings)`` are compared with the model.
    Canonical product state = (``vars(shell.settings)`` by value and type -- generic, so attributes added by
    a later change are included --, the scalar attributes of the shell object and the names of its
    named queries, model tuple).  The stock single-process ``bfs`` is run over the 19 GENERATOR events (one
    certainly-valid ``.set NAME VALUE`` per setting and value) until the frontier empties: 2^7 booleans x
    2 formats x 3 nullvalues = 768 product states, each with its shortest history (= one ``.set`` per
    setting that differs from the initial value; longest 9).
Part 2  All remaining events, sharded with ``vt.par.run_shards``; one case = fresh shell + the state's BFS
    history + ONE event, executed on the real shell and compared with the model.
    (a) in ALL 768 states, both tiers -- every other event that may change the store: the remaining
    spellings (``1 0 on off``, an upper-case one, an "either" letter, a junk word, the empty string) for
    each of the 7 booleans, junk / upper-case / empty formats, assignments to unknown names (plain,
    ``todict``, ``__doc__``, ``_parse_bool``, wrong letter case), wrong arity (``.set boxed true false``),
    legacy un-dotted ``set`` / ``SET``; and the observers: ``.set``, ``set``, ``.set NAME`` (9), ``.set`` of
    unknown names / methods / dunders, unknown dot-commands (``.foo``, ``.boxed true``, ``.select ...``,
    ``.print``, ``.balances``), a KNOWN command behind two / three dots with valid arguments
    (``..set boxed true``, ``...tables`` ...: unknown commands -- error, no effect, and not the output of the genuine
    command, compared with a twin shell) and lines of dots only, unknown bare words, ``.tables``, ``.describe [X]``, ``.run``,
    ``.run UNKNOWN``, ``run UNKNOWN``, ``.run A B``.  The successor of every such transition must be a
    member of the BFS state set (for observers: the same state).  BFS-closed under the generators +
    every other transition from every state lands inside the set  ==>  the set is closed under the FULL
    alphabet, i.e. histories of any length are covered (``closure_reached``).  This also is the argument
    why shortest histories suffice: the settings state is a function of the last value set per name.
    (b) costly events (a parse costs 10-90 ms): statements (SELECT with NULLs, sets, positions and
    inventories; aggregate SELECT; empty result; BALANCES; JOURNAL; lower-case SELECT with leading blanks
    and ``;``; PRINT; four SELECTs whose FROM clause has an UNDATED ``CLOSE`` -- alone, with OPEN ON, with CLEAR,
    with a filter -- on a ledger with a currency conversion so that the closing entries show), ``.run NAME``
    for eight named queries (three of them with an undated CLOSE, which -- like a dated one -- must not be
    replaced by the directive's date; seven covering every CLOSE-less FROM shape [expr] [OPEN ON d] [CLEAR],
    whose expectation is the text with CLOSE ON <directive date> inserted before CLEAR), legacy ``run NAME``, ``.run "NAME";``,
    ``.explain``: quick = every state within two ``.set`` changes of the initial one (55),
    thorough = all 768.
    A transition on which the real store leaves everything the model admits (``Desync``) is reported and
    not continued.
Part 4  Statement histories in ONE shell session: the ledger has two query directives ``twin-a`` / ``twin-b`` with
    IDENTICAL text (a SELECT with a FROM filter and no CLOSE) and different dates, postings on both sides of
    both dates; every sequence of length 1..3 over {``.run twin-a``, ``.run twin-b``, the same text typed}
    (39 histories; thorough: also after ``.set format csv`` + ``.set numberify true``) is run on one shell and
    EVERY step is compared: ``.run X`` == the text with ``CLOSE ON <date of X>``, typed == the text as is, all
    computed through the API before the session starts.  Each session runs in a forked child so that it
    neither sees nor leaves process-global state and replays alone.
    Output file sessions: the same, with the shell's output file NOT being the standard output (what ``-o FILE``
    gives the shell; the file object keeps what was written when it is closed, like a file on disk): every
    sequence of length 1..2 (thorough: 1..3) over {SELECT with rows, SELECT with empty result, PRINT, ``.run twin-a``,
    ``.set`` echo, ``.tables``, ``.set boxed true``, an unknown dot-command} -- 8 + 64 (+ 512) sessions, every step
    compared with the full oracle; the result of a statement must be in the file and nothing on stdout.
Part 3  ``beanquery.shell.main`` through ``click.testing.CliRunner`` (in process): the full product
    -f {text,csv} x -m x -o FILE/stdout x -q x {clean ledger, ledger with load errors} x {short, long
    option spelling} x {query with rows, empty result}.

Oracle
    * statement: stdout == render_text / render_csv called directly on ``conn.execute(text)`` of an
      independent API connection with the six rendering options taken from the MODEL, numberify (with the
      ledger's display context; the ledger writes USD numbers with 3, 2 and 0 decimals, so quantisation shows) applied
      when the model says so, ``(empty)`` for an empty text result; stderr empty; PRINT == execute_print.
    * ``.set NAME VALUE``: certainly-valid -> exactly that field takes the parsed value (type bool/str
      checked), everything else in vars() unchanged, no error line; certainly-invalid / unknown name ->
      an error message and vars() unchanged; "either" -> one of the two.
    * ``.set`` / ``.set NAME``: each setting echoed exactly once with a spelling of its value.
    * error message := non-empty stdout or stderr (wording free).  For an unknown NAME queried with
      ``.set NAME`` an output that has the very form of a successful echo (``NAME: ...`` on stdout, nothing
      on stderr) is not an error message.  An escaping ``beanquery.Error`` (ParseError ...) counts as the
      error report for a bare word that is neither command nor statement (that is what batch mode does
      with it; cmdloop prints it); any other escaping exception is a crash.
    * dot-commands are never executed as queries: ``.select ...`` / ``.print`` / ``.balances`` must report
      an error and their stdout must not contain the rendering of that statement; ``.explain`` must not
      print the result.  Statements never change the settings (queries are not commands).
    * ``.run NAME`` == typing the text; for a SELECT with a FROM clause lacking CLOSE the expectation is
      the text with ``CLOSE ON <directive date>`` inserted, executed through the API.

Weakest readings (also in ``assumptions``): default CLOSE is only claimed for SELECT with a FROM clause --
for a named SELECT without FROM clause and for a named BALANCES both outputs are admitted; legacy
commands may print a deprecation warning on stderr (python's once-per-location warning registry makes
it history dependent, so ``warning:`` lines are ignored for legacy events); what ``.tables`` /
``.describe`` / ``.explain`` print is only constrained from below (table names / column names present,
non-empty); ``.describe UNKNOWN`` only must not crash nor change state; successful ``.set`` may print
anything that is not an ``error`` line; initial values are read from the real object.
Out of scope: interactive mode, pager, readline, history and init files (the shell is built with
interactive=False, runinit=False; for main() INIT_FILENAME is blanked and HOME points to the temp dir).
"""
import io
import itertools
import json
import os
import pickle
import re
import shlex
import shutil
import sys
import tempfile

import beanquery
from beancount import loader
from beanquery import shell
from beanquery.numberify import numberify_results
from beanquery.query_execute import execute_print
from beanquery.query_render import render_csv, render_text

from ..explore.bfs import bfs, Desync
from ..harness import crash_fingerprint
from ..par import Acc, run_shards, mine
from ..ref import settings as S
from ..runner import Result, Violation

LEVEL = 'model_checking'

# -- the ledger -----------------------------------------------------------------------------------------

LEDGER = '''
option "title" "C19 ledger"
2020-01-01 open Assets:Bank
2020-01-01 open Assets:Broker
2020-01-01 open Expenses:Food
2020-01-01 open Income:Job

2020-01-02 * "Acme" "Salary"
  Assets:Bank   1000.00 USD
  Income:Job

2020-01-03 * "Lunch"
  Expenses:Food   12.50 USD
  Assets:Bank

2020-01-10 * "Broker" "Buy stock" #trip ^inv-1
  Assets:Broker   2 HOOL {100.00 USD}
  Assets:Bank

2020-02-05 * "Cafe" "Coffee"
  Expenses:Food   3.20 EUR
  Assets:Bank

2020-02-20 * "Exchange"
  Assets:Bank   -110.00 USD
  Assets:Bank    100.00 EUR @ 1.10 USD

2020-03-01 * "Acme" "Salary"
  Assets:Bank   1000.00 USD
  Income:Job

2020-03-05 * "Pump" "Three decimals"
  Expenses:Food   41.237 USD
  Assets:Bank

2020-03-06 * "Market" "No decimals"
  Expenses:Food   7 USD
  Assets:Bank

2020-01-31 query "jan" "SELECT account, sum(position) AS total FROM year = 2020 GROUP BY account ORDER BY account"
2020-03-31 query "closed" "SELECT account, sum(position) AS total FROM year = 2020 CLOSE ON 2020-02-01 GROUP BY account ORDER BY account"
2020-01-31 query "nofrom" "SELECT date, payee, narration, position WHERE account ~ 'Food'"
2020-01-31 query "bal" "BALANCES FROM year = 2020"
2020-02-10 query "cash-flow" "select date, account, position from account ~ 'Bank' where account ~ 'Bank' order by date, account"
2020-01-31 query "undated" "SELECT account, sum(position) AS total FROM CLOSE GROUP BY account ORDER BY account"
2020-02-10 query "undated-open" "SELECT account, sum(position) AS total FROM OPEN ON 2020-01-05 CLOSE CLEAR GROUP BY account ORDER BY account"
2020-01-31 query "undated-filter" "SELECT account, sum(position) AS total FROM year = 2020 CLOSE GROUP BY account ORDER BY account"
2020-02-10 query "shape-open" "SELECT account, sum(position) AS total FROM OPEN ON 2020-01-05 GROUP BY account ORDER BY account"
2020-02-10 query "shape-expr-open" "SELECT account, sum(position) AS total FROM year = 2020 OPEN ON 2020-01-05 GROUP BY account ORDER BY account"
2020-02-10 query "shape-clear" "SELECT account, sum(position) AS total FROM CLEAR GROUP BY account ORDER BY account"
2020-02-10 query "shape-expr-clear" "SELECT account, sum(position) AS total FROM year = 2020 CLEAR GROUP BY account ORDER BY account"
2020-02-10 query "shape-open-clear" "SELECT account, sum(position) AS total FROM OPEN ON 2020-01-05 CLEAR GROUP BY account ORDER BY account"
2020-02-10 query "shape-expr-open-clear" "SELECT account, sum(position) AS total FROM year = 2020 OPEN ON 2020-01-05 CLEAR GROUP BY account ORDER BY account"
2020-03-31 query "closed-clear" "SELECT account, sum(position) AS total FROM year = 2020 CLOSE ON 2020-02-01 CLEAR GROUP BY account ORDER BY account"
2020-01-31 query "two" "SELECT 1 + 1 AS two FROM #"
2020-01-31 query "twin-a" "SELECT date, account, position FROM flag = '*' ORDER BY date, account"
2020-02-29 query "twin-b" "SELECT date, account, position FROM flag = '*' ORDER BY date, account"
'''

LEDGER_ERRORS = LEDGER + '''
2020-04-01 * "Broken" "Does not balance"
  Assets:Bank     10.00 USD
  Expenses:Food   -9.00 USD

2020-04-02 * "Broken" "Unknown account"
  Assets:Nowhere   1.00 USD
  Assets:Bank
'''

_TWO = "SELECT 1 + 1 AS two FROM #"
_TWIN = "SELECT date, account, position FROM flag = '*'%s ORDER BY date, account"
_AGG = "SELECT account, sum(position) AS total FROM %s GROUP BY account ORDER BY account"

# (kind, text): what is typed.  kind: select | balances | journal | print
STATEMENTS = [
    ('select', "SELECT date, payee, narration, tags, position, cost_number, balance WHERE account ~ 'Assets'"),
    ('select', "SELECT account, sum(position) AS total, last(payee) AS who GROUP BY account ORDER BY account"),
    ('select', "SELECT date, account, position WHERE account = 'Nope'"),
    ('balances', "BALANCES FROM year = 2020"),
    ('journal', "JOURNAL 'Assets:Bank'"),
    ('select', "  select account, number, currency where currency = 'EUR';"),
    ('print', "PRINT FROM narration ~ 'Lunch|Coffee'"),
    # an UNDATED CLOSE (parsed as True) is an explicit clause: typed statements keep it (the ledger has a currency
    # conversion, so closing adds the Equity:Conversions:Current rows) -- alone, with OPEN ON, with CLEAR, with a filter
    ('select', _AGG % "CLOSE"),
    ('select', _AGG % "OPEN ON 2020-02-01 CLOSE"),
    ('select', _AGG % "CLOSE CLEAR"),
    ('select', _AGG % "year = 2020 CLOSE"),
    # the unnamed null table of the connection
    ('select', _TWO),
    # the very text of the named queries twin-a / twin-b (session histories, Part 4)
    ('select', _TWIN % ""),
]
# what a typed statement must NOT print: text -> [(fingerprint, other text)] (diagnosis + non-vacuity)
STMT_NOT = {
    _AGG % "CLOSE": [('stmt:undated-close-dropped', "SELECT account, sum(position) AS total GROUP BY account ORDER BY account")],
    _AGG % "OPEN ON 2020-02-01 CLOSE": [('stmt:undated-close-dropped', _AGG % "OPEN ON 2020-02-01")],
    _AGG % "CLOSE CLEAR": [('stmt:undated-close-dropped', _AGG % "CLEAR")],
    _AGG % "year = 2020 CLOSE": [('stmt:undated-close-dropped', _AGG % "year = 2020")],
    # a typed statement is never closed on the date of a named query that happens to have the same text
    _TWIN % "": [('stmt:close-date-leaked-from-named-query', _TWIN % " CLOSE ON 2020-01-31"),
                 ('stmt:close-date-leaked-from-named-query', _TWIN % " CLOSE ON 2020-02-29")],
}

# name -> (reading, admissible explicit texts; the first one is what the property prescribes where it does)
NAMED = {
    # FROM without CLOSE: CLOSE ON defaults to the directive's date
    'jan': ('default-close', [
        "SELECT account, sum(position) AS total FROM year = 2020 CLOSE ON 2020-01-31 GROUP BY account ORDER BY account"]),
    # FROM with its own CLOSE: typed as is
    'closed': ('explicit', [
        "SELECT account, sum(position) AS total FROM year = 2020 CLOSE ON 2020-02-01 GROUP BY account ORDER BY account"]),
    # lower case, FROM + WHERE, name that is no identifier
    'cash-flow': ('default-close', [
        "select date, account, position from account ~ 'Bank' close on 2020-02-10 where account ~ 'Bank' order by date, account"]),
    # an UNDATED CLOSE is explicit too: it must not be replaced by the directive's date
    'undated': ('explicit', [_AGG % "CLOSE"]),
    'undated-open': ('explicit', [_AGG % "OPEN ON 2020-01-05 CLOSE CLEAR"]),
    'undated-filter': ('explicit', [_AGG % "year = 2020 CLOSE"]),
    # every CLOSE-less shape of the FROM clause: [expr] [OPEN ON d] [CLEAR]; CLOSE ON <directive date> goes between
    'shape-open': ('default-close', [_AGG % "OPEN ON 2020-01-05 CLOSE ON 2020-02-10"]),
    'shape-expr-open': ('default-close', [_AGG % "year = 2020 OPEN ON 2020-01-05 CLOSE ON 2020-02-10"]),
    'shape-clear': ('default-close', [_AGG % "CLOSE ON 2020-02-10 CLEAR"]),
    'shape-expr-clear': ('default-close', [_AGG % "year = 2020 CLOSE ON 2020-02-10 CLEAR"]),
    'shape-open-clear': ('default-close', [_AGG % "OPEN ON 2020-01-05 CLOSE ON 2020-02-10 CLEAR"]),
    'shape-expr-open-clear': ('default-close', [_AGG % "year = 2020 OPEN ON 2020-01-05 CLOSE ON 2020-02-10 CLEAR"]),
    'closed-clear': ('explicit', [_AGG % "year = 2020 CLOSE ON 2020-02-01 CLEAR"]),
    # FROM names a table (the null table), not a FROM clause of the ledger kind: typed as is
    'two': ('explicit', [_TWO]),
    # two directives with IDENTICAL text and different dates: each is closed on its OWN date
    'twin-a': ('default-close', [_TWIN % " CLOSE ON 2020-01-31"]),
    'twin-b': ('default-close', [_TWIN % " CLOSE ON 2020-02-29"]),
    # no FROM clause at all: the property's "FROM clause names none" can be read both ways -> either
    'nofrom': ('either', [
        "SELECT date, payee, narration, position WHERE account ~ 'Food'",
        "SELECT date, payee, narration, position FROM CLOSE ON 2020-01-31 WHERE account ~ 'Food'"]),
    # not a SELECT: default close only claimed for SELECT -> either
    'bal': ('either', [
        "BALANCES FROM year = 2020",
        "BALANCES FROM year = 2020 CLOSE ON 2020-01-31"]),
}
# texts used to recognise what a wrong .run printed (diagnosis only)
NAMED_PLAIN = {
    'jan': "SELECT account, sum(position) AS total FROM year = 2020 GROUP BY account ORDER BY account",
    'cash-flow': "select date, account, position from account ~ 'Bank' where account ~ 'Bank' order by date, account",
    'twin-a': _TWIN % "",
    'twin-b': _TWIN % "",
}
# what .run NAME must NOT print: name -> [(fingerprint, text)]  (diagnosis + non-vacuity)
_ND, _NC, _NO = 'run:default-close-not-applied', 'run:clear-dropped', 'run:open-dropped'
NAMED_WRONG = {
    'shape-open': [(_ND, _AGG % "OPEN ON 2020-01-05"), (_NO, _AGG % "CLOSE ON 2020-02-10")],
    'shape-expr-open': [(_ND, _AGG % "year = 2020 OPEN ON 2020-01-05"), (_NO, _AGG % "year = 2020 CLOSE ON 2020-02-10")],
    'shape-clear': [(_ND, _AGG % "CLEAR"), (_NC, _AGG % "CLOSE ON 2020-02-10")],
    'shape-expr-clear': [(_ND, _AGG % "year = 2020 CLEAR"), (_NC, _AGG % "year = 2020 CLOSE ON 2020-02-10")],
    'shape-open-clear': [(_ND, _AGG % "OPEN ON 2020-01-05 CLEAR"), (_NC, _AGG % "OPEN ON 2020-01-05 CLOSE ON 2020-02-10"),
                         (_NO, _AGG % "CLOSE ON 2020-02-10 CLEAR")],
    'shape-expr-open-clear': [(_ND, _AGG % "year = 2020 OPEN ON 2020-01-05 CLEAR"),
                              (_NC, _AGG % "year = 2020 OPEN ON 2020-01-05 CLOSE ON 2020-02-10"),
                              (_NO, _AGG % "year = 2020 CLOSE ON 2020-02-10 CLEAR")],
    'closed-clear': [('run:explicit-close-overridden', _AGG % "year = 2020 CLOSE ON 2020-03-31 CLEAR"),
                     (_NC, _AGG % "year = 2020 CLOSE ON 2020-02-01")],
}
# the result closed on the date of ANOTHER directive with the same text
NAMED_OTHER_DATE = {
    'twin-a': _TWIN % " CLOSE ON 2020-02-29",
    'twin-b': _TWIN % " CLOSE ON 2020-01-31",
}
NAMED_OVERRIDDEN = {
    'closed': "SELECT account, sum(position) AS total FROM year = 2020 CLOSE ON 2020-03-31 GROUP BY account ORDER BY account",
    'undated': _AGG % "CLOSE ON 2020-01-31",
    'undated-open': _AGG % "OPEN ON 2020-01-05 CLOSE ON 2020-02-10 CLEAR",
    'undated-filter': _AGG % "year = 2020 CLOSE ON 2020-01-31",
}

CLI_QUERIES = [STATEMENTS[1][1], STATEMENTS[2][1]]


# -- reference world (independent API connection + caches); built lazily, inherited by forked workers ----

class World:
    def __init__(self):
        entries, errors, options = loader.load_string(LEDGER)
        if errors:
            raise AssertionError(f'the check ledger has load errors: {errors}')
        self.loaded = (entries, errors, options)
        self.conn = beanquery.connect('beancount:', entries=entries, errors=errors, options=options)
        self.dcontext = self.conn.options['dcontext']
        self.results = {}
        self.rendered = {}
        self.prints = {}
        self.null_cells = 0
        self.inventory_columns = 0

    def result(self, text):
        """(description, rows) of the API for a statement text, and its numberified form."""
        if text not in self.results:
            try:
                cursor = self.conn.execute(text)
                desc, rows = cursor.description, cursor.fetchall()
                plain = (desc, rows)
            except Exception as exc:     # the API itself fails: the shell must fail the same way
                plain = exc
            num = plain
            if not isinstance(plain, Exception):
                try:
                    num = numberify_results(desc, rows, self.dcontext.build())
                except Exception as exc:
                    num = exc
            self.results[text] = (plain, num)
        return self.results[text]

    def unquantized(self, text):
        """Diagnosis only: the numberified API result WITHOUT the ledger's display context."""
        plain, _ = self.result(text)
        if isinstance(plain, Exception):
            return plain
        try:
            return numberify_results(plain[0], plain[1])
        except Exception as exc:        # noqa: BLE001
            return exc

    def render(self, text, model, unquantized=False):
        """What the selected renderer prints for the API result under the model's settings."""
        key = (text, S.plan_key(model), unquantized)
        if key not in self.rendered:
            plan = S.render_plan(model)
            plain, num = self.result(text)
            res = num if plan['numberify'] else plain
            if unquantized and plan['numberify']:
                res = self.unquantized(text)
            if isinstance(res, Exception):
                out = res
            else:
                desc, rows = res
                if not rows and plan['empty_marker'] is not None:
                    out = plan['empty_marker']
                else:
                    f = io.StringIO()
                    render = render_text if plan['format'] == 'text' else render_csv
                    try:
                        render(desc, rows, self.dcontext, f, **plan['options'])
                        out = f.getvalue()
                    except Exception as exc:
                        out = exc
            self.rendered[key] = out
        return self.rendered[key]

    def printed(self, text):
        if text not in self.prints:
            f = io.StringIO()
            try:
                execute_print(self.conn.compile(self.conn.parse(text)), f)
                self.prints[text] = f.getvalue()
            except Exception as exc:
                self.prints[text] = exc
        return self.prints[text]

    def is_empty(self, text):
        plain, _ = self.result(text)
        return not isinstance(plain, Exception) and not plain[1]


_WORLD = None


def world():
    global _WORLD
    if _WORLD is None:
        _WORLD = World()
    return _WORLD


# -- events ---------------------------------------------------------------------------------------------
# An event is a tuple (kind, line, *params); `line` is exactly what is typed.

def _rot(seq, seed):
    return seq[seed % len(seq)]


def menus(seed):
    """Value menus.  The boundary members are fixed; VERIF_SEED rotates the ordinary ones."""
    return {
        'garbage': _rot(['garbage', 'maybe', 'tru', 'nope'], seed),
        'case': _rot(['TRUE', 'False', 'On', 'OFF'], seed),
        'either': _rot(['t', 'n', 'y', 'f'], seed),
        'null3': _rot(['-', 'N/A', '?', '~'], seed),
        'unknown': _rot(['nosuch', 'colour', 'width', 'verbose'], seed),
        'unkcmd': _rot(['foo', 'frobnicate', 'settings', 'sets'], seed),
    }


def q(text):
    return shlex.quote(text) if text != '' else "''"


def ev_assign(name, text, legacy=False, word=None):
    word = word or ('set' if legacy else '.set')
    return ('assign', f'{word} {name} {q(text)}', name, text, legacy)


def generator_alphabet(seed):
    """One certainly-valid assignment per (setting, value): generates the whole state space."""
    m = menus(seed)
    evs = []
    for name, kind in S.FIELDS.items():
        values = {S.BOOL: ['true', 'false'], S.FORMAT: ['text', 'csv'], S.STR: ['', 'NULL', m['null3']]}[kind]
        evs += [ev_assign(name, text) for text in values]
    return evs


def assign_alphabet(seed):
    """Every other event that may change the store (other spellings, invalid, unknown, arity, legacy)."""
    m = menus(seed)
    evs = []
    for name, kind in S.FIELDS.items():
        if kind == S.BOOL:
            for text in ['1', '0', 'on', 'off', m['case'], m['either'], m['garbage'], '']:
                evs.append(ev_assign(name, text))
        elif kind == S.FORMAT:
            for text in [m['garbage'], 'TEXT', '']:
                evs.append(ev_assign(name, text))
    # unknown names: plain, a method, a dunder (settable attribute), a private helper, wrong case
    for name, text in [(m['unknown'], '1'), ('todict', '1'), ('__doc__', 'x'), ('_parse_bool', '1'), ('Boxed', 'true')]:
        evs.append(ev_assign(name, text))
    # wrong arity (a valid assignment followed by a surplus word must not be partially applied)
    evs.append(('error', '.set boxed true false', 'arity', None, False))
    evs.append(('error', '.set format csv text', 'arity', None, False))
    # legacy spelling
    evs.append(ev_assign('boxed', 'true', legacy=True))
    evs.append(ev_assign('spaced', 'on', legacy=True, word='SET'))
    evs.append(ev_assign('format', m['garbage'], legacy=True))
    evs.append(ev_assign(m['unknown'], '1', legacy=True))
    return evs


_MULTIDOT_WHY = ('multi-dot-command', 'dots-only')
_MULTIDOT_FP = 'dispatch:multi-dot-not-rejected'     # one defect, three faces: executed / silent / state changed
MULTIDOT_COMMANDS = ['set boxed true', 'set format csv', 'set nullvalue NULL', 'set', 'set boxed', 'tables',
                     'describe postings', 'run', 'errors', 'help', 'reload', 'exit', 'quit']


def cheap_events(seed):
    m = menus(seed)
    evs = [('echo_all', '.set', False), ('echo_all', 'set', True)]
    evs += [('echo', f'.set {name}', name, False) for name in S.FIELDS]
    evs += [('echo', 'set boxed', 'boxed', True)]
    evs += [('bad_echo', f'.set {name}', name) for name in (m['unknown'], 'todict', '__class__', 'getstr')]
    evs += [
        ('error', '.' + m['unkcmd'], 'unknown-command', None, False),
        ('error', '.boxed true', 'unknown-command', None, False),
        ('error', '.select account, number, currency where currency = \'EUR\'', 'dot-statement',
         ('select', "select account, number, currency where currency = 'EUR'"), False),
        ('error', '.print', 'dot-statement', ('print', 'PRINT'), False),
        ('error', '.balances', 'dot-statement', ('balances', 'BALANCES'), False),
        ('error', m['unkcmd'] + ' bar', 'unknown-word', None, False),
        ('error', 'boxed true', 'unknown-word', None, False),
        ('error', '.run ' + m['unknown'], 'run-unknown', None, False),
        ('error', 'run ' + m['unknown'], 'run-unknown', None, True),
        ('error', '.run jan closed', 'run-arity', None, False),
    ]
    # a KNOWN command name behind two or three dots is an unknown command (as is a line of dots only): error message,
    # no effect, and above all NOT what the known command prints ('same-as': compared with a twin shell in the
    # same state running the genuine command -- a negative differential, only consulted when stdout is non-empty)
    for dots in ('..', '...'):
        for rest in MULTIDOT_COMMANDS:
            evs.append(('error', dots + rest, 'multi-dot-command', ('same-as', '.' + rest), False))
    evs += [('error', '..', 'dots-only', None, False), ('error', '...', 'dots-only', None, False)]
    evs += [
        ('tables', '.tables'),
        ('describe', '.describe postings', 'postings'),
        ('describe', '.describe', None),
        ('describe', '.describe ' + m['unknown'], None),
        ('runlist', '.run'),
    ]
    return evs


def costly_events(seed):
    evs = []
    for i, (kind, text) in enumerate(STATEMENTS):
        evs.append(('print' if kind == 'print' else 'stmt', text, i))
    for name in NAMED:
        evs.append(('run', f'.run {q(name)}', name, False))
    evs.append(('run', 'run jan', 'jan', True))
    evs.append(('run', '.run "closed";', 'closed', False))
    evs.append(('explain', '.explain ' + STATEMENTS[1][1], 1))
    # multi-dot spellings of the commands that parse / execute a statement
    for rest in ('run jan', 'parse SELECT 1', 'explain SELECT account'):
        evs.append(('error', '..' + rest, 'multi-dot-command', ('same-as', '.' + rest), False))
    return evs


# -- the product (real shell, model) ----------------------------------------------------------------------

_MISSING = object()
_ADDRESS = re.compile(r'0x[0-9a-fA-F]+')


def _typed_eq(a, b):
    return type(a) is type(b) and a == b


class OutFile(io.StringIO):
    """The shell's output file when it is NOT the standard output (what -o FILE hands to the shell).  Like a file
    on disk, what was written survives close(): it stays readable for the check."""

    def __init__(self):
        super().__init__()
        self.flushed = ''

    def close(self):
        if not self.closed:
            self.flushed += self.getvalue()
        super().close()

    def take(self):
        if self.closed:
            text, self.flushed = self.flushed, ''
            return text
        text = self.getvalue()
        self.seek(0)
        self.truncate()
        return text


class ShellProduct:
    def __init__(self, separate=False):
        """separate=False: the shell's output file IS sys.stdout (bean-query without -o); separate=True: it is a
        file of its own (bean-query -o FILE), sys.stdout is captured next to it."""
        w = world()
        entries, errors, options = w.loaded
        self.separate = separate
        self.out = io.StringIO()
        self.err = io.StringIO()
        self.file = OutFile() if separate else None
        self.parts = ('', '')
        self._swap_in()
        try:
            # batch mode exactly as shell_test.py builds it: no file, not interactive, no init file
            sh = shell.BQLShell(None, self.file if separate else self.out, interactive=False, runinit=False)
            sh.context.attach('beancount:', entries=entries, errors=errors, options=options)
            sh._extract_queries(entries)
        finally:
            self._swap_out()
        self._drain()
        self.shell = sh
        self.model = S.SettingsModel.from_observed(vars(sh.settings))
        self.history = []
        self.last_observations = 0
        self.info = {}

    # -- plumbing --
    def _swap_in(self):
        self._saved = (sys.stdout, sys.stderr)
        sys.stdout, sys.stderr = self.out, self.err

    def _swap_out(self):
        sys.stdout, sys.stderr = self._saved

    def _drain(self):
        """-> (everything printed: output file first, then stdout; stderr).  self.parts keeps the two apart."""
        o, e = self.out.getvalue(), self.err.getvalue()
        for f in (self.out, self.err):
            f.seek(0)
            f.truncate()
        filed = self.file.take() if self.separate else ''
        self.parts = (filed, o)
        return filed + o, e

    def run_line(self, line):
        exc = None
        self._swap_in()
        try:
            try:
                self.shell.onecmd(line)
            except Exception as e:      # noqa: BLE001 - everything the shell lets escape is an observation
                exc = e
        finally:
            self._swap_out()
        out, err = self._drain()
        return out, err, exc

    def snapshot(self):
        return dict(vars(self.shell.settings))

    def real_canon(self):
        sh = self.shell
        scalars = tuple(sorted((k, repr(v)) for k, v in vars(sh).items()
                               if v is None or isinstance(v, (str, int, bool, float))))
        sett = tuple(sorted((k, type(v).__name__, repr(v)) for k, v in vars(sh.settings).items()))
        return (sett, scalars, tuple(sorted(sh.queries)), tuple(sorted(sh.context.tables)))

    def canon(self):
        return (self.real_canon(), self.model.key())

    # -- helpers for the oracles --
    @staticmethod
    def strip_warnings(err):
        return ''.join(l for l in err.splitlines(True) if not l.startswith('warning:'))

    @staticmethod
    def error_lines(out, err):
        return [l for l in (out + err).splitlines() if l.strip().lower().startswith('error')]

    def state_problem(self, before, after, expected_model):
        """None if the real store equals the expected model and nothing else in vars() moved."""
        diffs = []
        for k in sorted(set(before) | set(after)):
            if k in S.FIELDS:
                continue
            b, a = before.get(k, _MISSING), after.get(k, _MISSING)
            if a is _MISSING or b is _MISSING or not _typed_eq(a, b):
                diffs.append(f'vars()[{k!r}]: {"absent" if b is _MISSING else repr(b)} -> {"absent" if a is _MISSING else repr(a)}')
        exp = expected_model.asdict()
        for k in S.FIELDS:
            a = after.get(k, _MISSING)
            if a is _MISSING or not _typed_eq(a, exp[k]):
                diffs.append(f'{k}: expected {exp[k]!r}, real {"absent" if a is _MISSING else repr(a)}')
        return '; '.join(diffs) or None

    # -- events --
    def replay_step(self, ev):
        """Re-execute an already checked event: real command, model follows, no output oracles."""
        if ev[0] != 'assign':
            self.run_line(ev[1])
        else:
            outcomes = S.assign(self.model, ev[2], ev[3])
            if len(outcomes) == 1:
                self.run_line(ev[1])
                self.model = outcomes[0].model
            else:
                before = self.snapshot()
                self.run_line(ev[1])
                after = self.snapshot()
                for o in outcomes:
                    if self.state_problem(before, after, o.model) is None:
                        self.model = o.model
                        break
        self.history.append(ev)

    def apply(self, ev):
        before = self.snapshot()
        canon_before = self.real_canon()
        out, err, exc = self.run_line(ev[1])
        after = self.snapshot()
        problems = []
        if self.separate and ev[0] in ('stmt', 'print', 'run'):
            # the RESULT of a statement goes to the output file and nowhere else
            out, beside = self.parts
            if beside.strip():
                problems.append(('outfile:result-beside-the-output-file',
                                 f'{ev[1]!r}: the shell writes to a file of its own, but {beside[:200]!r} went to stdout'))
        self.info = {'out': out, 'err': err, 'exc': exc}
        self.last_observations = 3
        judge = getattr(self, 'judge_' + ev[0])
        new_model = judge(ev, out, err, exc, before, after, problems)
        self.history.append(ev)
        if new_model is None:
            # the event must not change anything: neither the store nor any other canonical component
            new_model = self.model
            sp = self.state_problem(before, after, self.model)
            if sp is None and self.real_canon() != canon_before:
                names = ('settings', 'scalar attributes of the shell', 'named queries', 'names of the connection\'s tables')
                sp = '; '.join(f'{n} changed: removed {sorted(set(b) - set(a))!r}, added {sorted(set(a) - set(b))!r}'
                               for n, b, a in zip(names, canon_before, self.real_canon()) if a != b)
            if sp is not None:
                raise Desync(_MULTIDOT_FP if ev[0] == 'error' and ev[2] in _MULTIDOT_WHY else
                             f'state-changed:{ev[0]}' + (f':{ev[2]}' if ev[0] == 'error' else ''),
                             f'{ev[1]!r} must not change the settings nor any other state of the shell, but {sp}' + self._also(problems))
        self.model = new_model
        if self.separate and self.file.closed and problems:
            # one defect, many faces (every later command fails at its own write): one fingerprint
            problems[:] = [('outfile:closed-during-session',
                            'the shell closed its output file before the end of the session; ' + problems[0][1])]
        return problems

    @staticmethod
    def _also(problems):
        return ''.join(f' [also: {m}]' for _, m in problems)

    def judge_assign(self, ev, out, err, exc, before, after, problems):
        _, line, name, text, legacy = ev
        if legacy:
            err = self.strip_warnings(err)
        verdict = S.verdict(name, text)
        self.info['verdict'] = verdict
        unknown = verdict == 'unknown-name'
        base = 'set-assign:unknown-name-not-rejected' if unknown else f'set-assign:{S.FIELDS[S.resolve_name(name)[1]]}'
        outcomes = S.assign(self.model, name, text)
        if exc is not None:
            if unknown:
                problems.append((base, f'{line!r} raised {type(exc).__name__}: {exc}; {name!r} is not a setting: '
                                       f'expected an error message and no change'))
            else:
                problems.append((crash_fingerprint(exc), f'{line!r} raised {type(exc).__name__}: {exc}'))
        matching = [o for o in outcomes if self.state_problem(before, after, o.model) is None]
        has_output = bool(out.strip() or err.strip())
        if not matching:
            unchanged = self.state_problem(before, after, self.model) is None
            why = '; '.join(filter(None, (self.state_problem(before, after, o.model) for o in outcomes[:1])))
            if unknown:
                fp, exp = base, 'an error message and no change (no such setting)'
            elif verdict == S.INVALID:
                fp, exp = base + ':invalid-value-changed-state', 'an error message and no change (invalid value)'
            else:
                fp = base + ':valid-value-misapplied'
                exp = (f'exactly {name} changed to {outcomes[0].model.asdict()[S.resolve_name(name)[1]]!r}'
                       + (' (nothing changed)' if unchanged else ''))
            raise Desync(fp, f'{line!r} in state {self.model.asdict()}: expected {exp}; {why}; stdout={out!r} stderr={err!r}'
                         + self._also(problems))
        # several admissible outcomes may fit the state (value equal to the current one): prefer the one
        # that also fits the presence of a message
        matching.sort(key=lambda o: o.error != has_output)
        o = matching[0]
        self.info['accepted'] = not o.error
        if exc is None:
            if o.error and not has_output:
                problems.append((('set-assign:unknown-name' if unknown else base) + ':rejected-without-message',
                                 f'{line!r} ({verdict}) changed nothing but printed no error message'))
            if not o.error and self.error_lines(out, err):
                problems.append((base + ':accepted-with-error-message',
                                 f'{line!r} was applied but printed {self.error_lines(out, err)!r}'))
        return o.model

    def judge_echo_all(self, ev, out, err, exc, before, after, problems):
        if ev[2]:
            err = self.strip_warnings(err)
        if exc is not None:
            problems.append((crash_fingerprint(exc), f'{ev[1]!r} raised {type(exc).__name__}: {exc}'))
            return None
        for p in S.check_echo_all(self.model, out):
            problems.append(('set-echo:all', f'{ev[1]!r} in state {self.model.asdict()}: {p}'))
        if err.strip():
            problems.append(('set-echo:stderr', f'{ev[1]!r} wrote {err!r} to stderr'))
        return None

    def judge_echo(self, ev, out, err, exc, before, after, problems):
        _, line, name, legacy = ev
        if legacy:
            err = self.strip_warnings(err)
        if exc is not None:
            problems.append((crash_fingerprint(exc), f'{line!r} raised {type(exc).__name__}: {exc}'))
            return None
        for p in S.check_echo_one(self.model, name, out):
            problems.append(('set-echo:one', f'{line!r} in state {self.model.asdict()}: {p}'))
        if err.strip():
            problems.append(('set-echo:stderr', f'{line!r} wrote {err!r} to stderr'))
        return None

    def judge_bad_echo(self, ev, out, err, exc, before, after, problems):
        _, line, name = ev
        fp = 'set-echo:unknown-name-not-rejected'
        if exc is not None:
            problems.append((fp, f'{line!r} raised {type(exc).__name__}: {exc}; expected an error message'))
        elif not (out.strip() or err.strip()):
            problems.append(('set-echo:unknown-name:no-message', f'{line!r}: {name!r} is not a setting but nothing was printed'))
        elif not err.strip() and S.looks_like_echo(name, out):
            problems.append((fp, f'{line!r}: {name!r} is not a setting, expected an error message, got the echo {out!r}'))
        return None

    def judge_error(self, ev, out, err, exc, before, after, problems):
        _, line, why, forbidden, legacy = ev
        if legacy:
            err = self.strip_warnings(err)
        if exc is not None and not isinstance(exc, beanquery.Error):
            problems.append((crash_fingerprint(exc), f'{line!r} raised {type(exc).__name__}: {exc}; expected an error message'))
        elif exc is None and not (out.strip() or err.strip()):
            problems.append((_MULTIDOT_FP if why in _MULTIDOT_WHY else f'error:no-message:{why}',
                             f'{line!r} ({why}) printed no error message'))
        self.info['reported_by'] = 'exception' if exc is not None else 'message'
        if forbidden is not None and forbidden[0] == 'same-as':
            if exc is None and out.strip():
                twin = ShellProduct(self.separate)
                for h in self.history:
                    twin.replay_step(h)
                tout, terr, texc = twin.run_line(forbidden[1])
                if texc is None and _ADDRESS.sub('0x?', tout) == _ADDRESS.sub('0x?', out):
                    problems.append((_MULTIDOT_FP, f'{line!r} is an unknown command but printed exactly what '
                                                                 f'{forbidden[1]!r} prints: {out[:200]!r}'))
        elif forbidden is not None:
            kind, text = forbidden
            exp = world().printed(text) if kind == 'print' else world().render(text, self.model)
            if isinstance(exp, str) and exp in out:
                problems.append((f'dispatch:executed:{why}', f'{line!r} printed the result of the statement {text!r}'))
        return None

    def judge_info(self, ev, out, err, exc, before, after, problems):
        """An informational command: must not crash, must not change anything (what it prints is free)."""
        if exc is not None:
            problems.append((crash_fingerprint(exc), f'{ev[1]!r} raised {type(exc).__name__}: {exc}'))
        return None

    def judge_tables(self, ev, out, err, exc, before, after, problems):
        if exc is not None:
            problems.append((crash_fingerprint(exc), f'{ev[1]!r} raised {type(exc).__name__}: {exc}'))
            return None
        lines = set(l.strip() for l in out.splitlines())
        missing = sorted(n for n in world().conn.tables if n and n not in lines)
        if missing:
            problems.append(('tables', f'.tables does not list {missing}: {out!r}'))
        if err.strip():
            problems.append(('tables:stderr', f'.tables wrote {err!r} to stderr'))
        return None

    def judge_describe(self, ev, out, err, exc, before, after, problems):
        _, line, table = ev
        if exc is not None:
            problems.append((crash_fingerprint(exc), f'{line!r} raised {type(exc).__name__}: {exc}'))
            return None
        if table is not None:
            missing = [c for c in world().conn.tables[table].columns if c not in out]
            if missing:
                problems.append(('describe', f'{line!r} does not mention columns {missing}'))
        return None

    def judge_runlist(self, ev, out, err, exc, before, after, problems):
        if exc is not None:
            problems.append((crash_fingerprint(exc), f'{ev[1]!r} raised {type(exc).__name__}: {exc}'))
            return None
        lines = set(l.strip() for l in out.splitlines())
        missing = sorted(n for n in NAMED if n not in lines)
        if missing:
            problems.append(('run:list', f'.run does not list the named queries {missing}: {out!r}'))
        return None

    def judge_explain(self, ev, out, err, exc, before, after, problems):
        _, line, idx = ev
        if exc is not None:
            problems.append((crash_fingerprint(exc), f'{line!r} raised {type(exc).__name__}: {exc}'))
            return None
        if not out.strip():
            problems.append(('explain:empty', f'{line!r} printed nothing'))
        exp = world().render(STATEMENTS[idx][1], self.model)
        if isinstance(exp, str) and exp in out:
            problems.append(('dispatch:executed:explain', f'{line!r} printed the result of the statement'))
        if err.strip():
            problems.append(('explain:stderr', f'{line!r} wrote {err!r} to stderr'))
        return None

    # -- statements --
    def _compare(self, line, kind, texts, out, err, exc, problems, fpbase, diagnose):
        """Observed output of a statement-like event against the admissible reference texts."""
        w = world()
        expected = [w.printed(t) if kind == 'print' else w.render(t, self.model) for t in texts]
        if exc is not None:
            if any(isinstance(e, Exception) and type(e) is type(exc) for e in expected):
                self.info['both_raise'] = True      # the API / renderer fails the same way: not a shell matter
                return
            problems.append((crash_fingerprint(exc), f'{line!r} in state {self.model.asdict()} raised '
                                                      f'{type(exc).__name__}: {exc}'))
            return
        for i, e in enumerate(expected):
            if isinstance(e, str) and e == out:
                self.info['matched'] = i
                break
        else:
            fp, note = None, ''
            if kind != 'print' and self.model.numberify:
                for t in texts:
                    try:
                        same = w.render(t, self.model, unquantized=True) == out
                    except Exception:       # noqa: BLE001 - diagnosis only
                        same = False
                    if same:
                        fp = 'numberify:display-precision-not-applied'
                        note = (' (it is the numberified result WITHOUT the quantisation to the display precision of '
                                'the ledger\'s currencies)')
                        break
            if fp is None:
                fp, note = diagnose(out)
            e0 = expected[0]
            problems.append((fp, f'{line!r} in state {self.model.asdict()}: stdout differs from the renderer applied to '
                                 f'the API result{note}\n    expected {e0!r}\n    actual   {out!r}'))
        if err.strip():
            problems.append((fpbase + ':stderr', f'{line!r} wrote {err!r} to stderr'))

    def _as_if(self, text, observed):
        """Which settings, if they had another value, would explain the observed output?"""
        w = world()
        best = None
        for m in S.state_space(self.model, NULLVALUES):
            if m.pager != self.model.pager:
                continue
            r = w.render(text, m)
            if isinstance(r, str) and r == observed:
                d = self.model.distance(m)
                if best is None or d < best[0]:
                    best = (d, m)
        if best is None:
            return None
        return [n for n in S.FIELDS if getattr(best[1], n) != getattr(self.model, n)]

    def judge_stmt(self, ev, out, err, exc, before, after, problems):
        _, line, idx = ev
        kind, text = STATEMENTS[idx]
        shape = 'empty' if world().is_empty(text) else 'rows'
        fpbase = f'stmt:{kind}:{self.model.format}:{shape}'

        def diagnose(observed):
            for fp, other in STMT_NOT.get(text, ()):
                if world().render(other, self.model) == observed:
                    return fp, f' (it is the result of {other!r}: the undated CLOSE clause was dropped)'
            fields = self._as_if(text, observed)
            if fields:
                return (f'render:{self.model.format}:as-if:' + ','.join(fields),
                        f' (it is what settings {fields} with other values would give)')
            return fpbase + ':mismatch', ''
        self._compare(line, kind, [text], out, err, exc, problems, fpbase, diagnose)
        return None

    def judge_print(self, ev, out, err, exc, before, after, problems):
        _, line, idx = ev
        kind, text = STATEMENTS[idx]
        self._compare(line, 'print', [text], out, err, exc, problems, 'stmt:print', lambda o: ('stmt:print:mismatch', ''))
        return None

    def judge_run(self, ev, out, err, exc, before, after, problems):
        _, line, name, legacy = ev
        if legacy:
            err = self.strip_warnings(err)
        reading, texts = NAMED[name]
        w = world()

        def diagnose(observed):
            plain = NAMED_PLAIN.get(name)
            if plain and w.render(plain, self.model) == observed:
                return 'run:default-close-not-applied', ' (it is the result WITHOUT the default CLOSE ON <directive date>)'
            for fp, wrong in NAMED_WRONG.get(name, ()):
                if w.render(wrong, self.model) == observed:
                    return fp, f' (it is the result of {wrong!r})'
            other = NAMED_OTHER_DATE.get(name)
            if other and w.render(other, self.model) == observed:
                return 'run:close-date-of-another-query', ' (it is closed on the date of ANOTHER query directive with the same text)'
            over = NAMED_OVERRIDDEN.get(name)
            if over and w.render(over, self.model) == observed:
                return 'run:explicit-close-overridden', ' (the explicit CLOSE ON was replaced by the directive date)'
            for t in texts:
                fields = self._as_if(t, observed)
                if fields:
                    return (f'render:{self.model.format}:as-if:' + ','.join(fields),
                            f' (it is what settings {fields} with other values would give)')
            return f'run:{reading}:mismatch', ''
        kind = 'balances' if texts[0].startswith('BALANCES') else 'select'
        self._compare(line, kind, texts, out, err, exc, problems, 'run', diagnose)
        return None


NULLVALUES = ('', 'NULL', '-')     # replaced per seed in run()/replay()


def _set_nullvalues(seed):
    global NULLVALUES
    NULLVALUES = ('', 'NULL', menus(seed)['null3'])


# -- BFS product wrapper: remembers the shortest history of every canonical state ---------------------------

class Registry:
    def __init__(self):
        self.histories = {}     # canon -> history (first = shortest, BFS order)
        self.acc = Acc()


def make_factory(reg):
    class Tracked(ShellProduct):
        def canon(self):
            k = super().canon()
            reg.histories.setdefault(k, tuple(self.history))
            return k

        def apply(self, ev):
            try:
                problems = super().apply(ev)
            except Desync:
                reg.acc.count('desync')
                raise
            observe(reg.acc, self, ev, problems)
            return problems
    return Tracked


def observe(acc, p, ev, problems):
    """Non-vacuity bookkeeping shared by the BFS and the sharded observers."""
    info = p.info
    out, err, exc = info.get('out', ''), info.get('err', ''), info.get('exc')
    acc.count('events:' + ev[0])
    # normalised for counting only: the once-per-process deprecation warning and object addresses in the
    # .explain dump would make the number of distinct outcomes depend on the shard-to-process assignment
    err = ShellProduct.strip_warnings(err)
    if ev[0] == 'explain':
        out = _ADDRESS.sub('0x?', out)
    if out or err or exc is not None:
        acc.add('outcomes', (ev[1], out, err, type(exc).__name__ if exc is not None else None))
    if ev[0] == 'assign':
        acc.count('assign:' + info.get('verdict', '?') + (':desynchronised' if 'accepted' not in info else
                                                          ':accepted' if info['accepted'] else ':rejected'))
    if ev[0] == 'error':
        acc.count('error-reported-by:' + info.get('reported_by', '?'))
    if ev[0] in ('stmt', 'print', 'run'):
        acc.add('stmt-outputs:' + ev[1], out)
        if 'matched' in info:
            acc.count('output-identical-to-renderer')
            if ev[0] == 'run':
                acc.count(f'run:{ev[2]}:matched-reading-{info["matched"]}')
        if info.get('both_raise'):
            acc.count('api-and-shell-raise-alike')
        if out == '(empty)\n':
            acc.count('empty-marker-printed')


# -- sharded observers ----------------------------------------------------------------------------------------

def _lst(e):
    return [_lst(x) if isinstance(x, tuple) else x for x in e]


def _tup(e):
    return tuple(_tup(x) if isinstance(x, list) else x for x in e)


def run_case(hist, ev):
    """Fresh shell, replay `hist`, apply `ev` -> (product, problems)."""
    p = ShellProduct()
    for h in hist:
        p.replay_step(h)
    try:
        problems = p.apply(ev)
        p.desynced = False
    except Desync as d:
        problems = [(d.fingerprint, d.message)]
        p.desynced = True
    return p, problems


def report(acc, fp, rank, what, case):
    """Keep, per shard and fingerprint, the violation with the smallest rank (shortest history first): Acc
    caps by arrival order, which would drop the minimal witness."""
    acc.count('violating_cases')
    acc.count('violations:' + fp)
    best = acc.__dict__.setdefault('best', {})
    if fp not in best or rank < best[fp][0]:
        best[fp] = (rank, what, case)


def flush_reports(acc):
    for fp, (rank, what, case) in getattr(acc, 'best', {}).items():
        acc.add('violation-witnesses', (fp, rank, what, json.dumps(case, sort_keys=True)))
    acc.best = {}


def session_events():
    twin = next(i for i, (_, t) in enumerate(STATEMENTS) if t == _TWIN % "")
    return [('run', '.run twin-a', 'twin-a', False), ('run', '.run twin-b', 'twin-b', False), ('stmt', _TWIN % "", twin)]


def _stmt_event(text):
    i = next(i for i, (_, t) in enumerate(STATEMENTS) if t == text)
    return ('print' if STATEMENTS[i][0] == 'print' else 'stmt', text, i)


def file_session_events(seed):
    """Alphabet of the sessions whose output file is not the standard output: one member per way of writing --
    a SELECT with rows, a SELECT without (the ``(empty)`` marker), PRINT, .run NAME, the .set echo, .tables, an
    assignment (changes what the next statement prints, writes nothing) and an unknown command (stderr only)."""
    return [_stmt_event(_TWIN % ""), _stmt_event(STATEMENTS[2][1]), _stmt_event(STATEMENTS[6][1]),
            ('run', '.run twin-a', 'twin-a', False), ('echo_all', '.set', False), ('tables', '.tables'),
            ev_assign('boxed', 'true'), ('error', '.' + menus(seed)['unkcmd'], 'unknown-command', None, False)]


def file_session_length(thorough):
    return 3 if thorough else 2


def sessions(thorough, seed=0):
    """Part 4: every sequence of length 1..3 over {.run twin-a, .run twin-b, the same text typed} in ONE shell
    session (after a settings prefix): 3 + 9 + 27 = 39 histories per prefix.  -> [(prefix, steps, separate)]"""
    return ([(pre, steps, False) for pre, steps in _stdout_sessions(thorough)]
            + [((), steps, True) for n in range(1, file_session_length(thorough) + 1)
               for steps in itertools.product(file_session_events(seed), repeat=n)])


def _stdout_sessions(thorough):
    evs = session_events()
    prefixes = [()]
    if thorough:
        prefixes.append((ev_assign('format', 'csv'), ev_assign('numberify', 'true')))
    out = []
    for prefix in prefixes:
        for n in (1, 2, 3):
            for steps in itertools.product(evs, repeat=n):
                out.append((prefix, steps))
    # informational commands must not change what later statements print: the statement over the connection's
    # null table, typed and as a named query, right after each of them in the same session
    two = next(i for i, (_, t) in enumerate(STATEMENTS) if t == _TWO)
    followers = [('stmt', _TWO, two), ('run', '.run two', 'two', False)]
    for info in info_events():
        for f in followers:
            out.append(((), (info, f)))
    # string values that need escaping, OUTSIDE the closed 768-state space (a separate sweep, so it does not grow):
    # set, echo, list, render NULL cells as that value (text, then csv)
    for value in AWKWARD_NULLVALUES:
        out.append(((), (ev_assign('nullvalue', value), ('echo', '.set nullvalue', 'nullvalue', False),
                         ('echo_all', '.set', False), ('stmt', STATEMENTS[0][1], 0),
                         ev_assign('format', 'csv'), ('echo_all', '.set', False), ('stmt', STATEMENTS[0][1], 0))))
    return out


AWKWARD_NULLVALUES = ["it's", 'a"b', 'back\\slash', 'both\'"', 'tab\there']


def info_events():
    return [('tables', '.tables'), ('describe', '.describe postings', 'postings'), ('describe', '.describe', None),
            ('info', '.help'), ('info', '.help set'), ('info', '.errors'), ('info', '.parse SELECT 1'),
            ('explain', '.explain ' + STATEMENTS[1][1], 1), ('runlist', '.run'), ('echo_all', '.set', False),
            ('info', '.reload'), ('stmt', _TWO, next(i for i, (_, t) in enumerate(STATEMENTS) if t == _TWO))]


def prime(evs):
    """Compute the reference results of statement events BEFORE the shell under test runs anything (the reference
    must not be exposed to whatever process-global state the shell may leave behind, e.g. in the parser)."""
    w = world()
    for ev in evs:
        if ev[0] == 'stmt':
            texts = [STATEMENTS[ev[2]][1]] + [o for _, o in STMT_NOT.get(STATEMENTS[ev[2]][1], ())]
        elif ev[0] == 'run':
            texts = (list(NAMED[ev[2]][1]) + [d[ev[2]] for d in (NAMED_PLAIN, NAMED_OVERRIDDEN, NAMED_OTHER_DATE) if ev[2] in d]
                     + [t for _, t in NAMED_WRONG.get(ev[2], ())])
        elif ev[0] == 'print':
            w.printed(STATEMENTS[ev[2]][1])
            continue
        else:
            continue
        for t in texts:
            w.result(t)


def run_session(prefix, steps, separate=False):
    """One shell, the prefix replayed, then every step applied WITH the full oracle.
    -> (number of steps executed, [(step index, fingerprint, message)], outputs)."""
    prime(steps)
    p = ShellProduct(separate)
    for h in prefix:
        p.replay_step(h)
    found, outs = [], []
    for k, ev in enumerate(steps):
        try:
            problems = p.apply(ev)
        except Desync as d:
            problems = [(d.fingerprint, d.message)]
        outs.append(p.info.get('out', ''))
        for fp, msg in problems:
            found.append((k, fp, msg))
        if problems:
            break
    return len(outs), found, outs


def isolated(fn, *args):
    """Run fn(*args) in a forked child and return its (picklable) result: a session must neither see nor leave
    process-global state (parser caches, warning registries ...) of other cases, so that it replays alone."""
    r, wfd = os.pipe()
    pid = os.fork()
    if pid == 0:
        code = 0
        try:
            os.close(r)
            try:
                payload = pickle.dumps(('ok', fn(*args)))
            except BaseException:       # noqa: BLE001
                import traceback
                payload = pickle.dumps(('error', traceback.format_exc()))
            with os.fdopen(wfd, 'wb') as f:
                f.write(payload)
        except BaseException:           # noqa: BLE001
            code = 1
        finally:
            os._exit(code)
    os.close(wfd)
    with os.fdopen(r, 'rb') as f:
        data = f.read()
    os.waitpid(pid, 0)
    if not data:
        raise RuntimeError('isolated session died without a result')
    status, value = pickle.loads(data)
    if status != 'ok':
        raise RuntimeError('isolated session crashed:\n' + value)
    return value


def shard_sessions(shard, nshards, seed, session_list):
    """Runs BEFORE the other observers, in workers forked from a parent that has executed no statement on any
    shell; every session additionally runs in its own forked child (see `isolated`)."""
    _set_nullvalues(seed)
    acc = Acc()
    for i, (prefix, steps, separate) in enumerate(session_list):
        if not mine(i, shard, nshards):
            continue
        nsteps, found, outs = isolated(run_session, prefix, steps, separate)
        acc.count('sessions')
        if separate:
            acc.count('sessions_with_output_file')
            acc.count('output_file_session_steps', nsteps)
            acc.count('output_file_steps_with_output', sum(1 for o in outs if o))
        acc.count('session_steps', nsteps)
        acc.count('transitions', nsteps)
        acc.add('session-outcomes', (tuple(e[1] for e in steps), tuple(outs)))
        for ev, o in zip(steps, outs):
            acc.add('outcomes', (ev[1], o, '', None))
        for k, fp, msg in found:
            lines = [h[1] for h in prefix] + [e[1] for e in steps[:k]]
            where = 'in one session writing to a file of its own' if separate else 'in one session'
            report(acc, fp, (-1, len(prefix) + k, i), f'{where}, after {lines!r}: {msg}',
                   {'part': 'session', 'seed': seed, 'prefix': _lst(prefix), 'steps': _lst(steps[:k + 1]),
                    'separate': separate})
    flush_reports(acc)
    return acc


def shard_observers(shard, nshards, seed, states, canons, cheap, costly, costly_states, cli_cases, tmpdir):
    """cheap: events run in every state; costly: events run in `costly_states`; then the CLI cases.
    Every successor must lie in `canons` (the state set found by the BFS): closure over the full alphabet."""
    _set_nullvalues(seed)
    acc = Acc()
    canon_set = set(canons)
    items = []
    # costly first so that the modulo spreads them evenly
    for si in costly_states:
        for ev in costly:
            items.append((si, ev))
    for si in range(len(states)):
        for ev in cheap:
            items.append((si, ev))
    for i, (si, ev) in enumerate(items):
        if not mine(i, shard, nshards):
            continue
        hist = states[si]
        p, problems = run_case(hist, ev)
        acc.count('transitions')
        acc.count('costly' if ev[0] in ('stmt', 'print', 'run', 'explain') else 'cheap')
        observe(acc, p, ev, problems)
        acc.add('states-observed', si)
        if p.desynced:
            acc.count('desynchronised')
        elif p.canon() not in canon_set:
            acc.count('successor-outside-closed-set')
            report(acc, 'closure:new-state', (len(hist), i), f'after {[h[1] for h in hist]!r}: {ev[1]!r} leads to a state '
                   f'outside the closed set: {p.canon()!r}',
                   {'part': 'shell', 'seed': seed, 'history': _lst(hist), 'event': _lst(ev)})
        elif p.canon() != canons[si]:
            acc.count('state-changing-transitions')
        if ev[0] in ('stmt', 'print', 'run'):
            acc.add('states-with-statements', si)
        if len(acc.samples) < 2 and len(hist) >= 2 and ev[0] in ('stmt', 'run'):
            acc.sample({'history': [h[1] for h in hist], 'event': ev[1], 'stdout': p.info['out'][:400]})
        for fp, msg in problems:
            report(acc, fp, (len(hist), i), f'after {[h[1] for h in hist]!r}: {msg}',
                   {'part': 'shell', 'seed': seed, 'history': _lst(hist), 'event': _lst(ev)})
    for i, case in enumerate(cli_cases):
        if not mine(i, shard, nshards):
            continue
        problems, info = cli_case(case, tmpdir)
        acc.count('cli_cases')
        for k in info:
            if k != 'result_text':
                acc.count('cli:' + k)
        acc.add('cli-outcomes', (info.get('result_text', ''), case['to_file']))
        for fp, msg in problems:
            report(acc, fp, (0, i), msg, {'part': 'cli', 'case': case})
    flush_reports(acc)
    return acc


# -- the command line entry point -------------------------------------------------------------------------------

def cli_cases():
    cases = []
    for ledger in ('clean', 'errors'):
        for qi in range(len(CLI_QUERIES)):
            for fmt in ('text', 'csv'):
                for num in (False, True):
                    for to_file in (False, True):
                        for quiet in (False, True):
                            for long_opts in (False, True):
                                cases.append({'ledger': ledger, 'query': qi, 'format': fmt, 'numberify': num,
                                              'to_file': to_file, 'quiet': quiet, 'long': long_opts, 'n': len(cases)})
    return cases


def write_ledgers(tmpdir):
    for name, text in (('clean', LEDGER), ('errors', LEDGER_ERRORS)):
        with open(os.path.join(tmpdir, name + '.beancount'), 'w') as f:
            f.write(text)


_CLI_REF = {}


def cli_reference(path):
    if path not in _CLI_REF:
        conn = beanquery.connect('beancount:' + path)
        _CLI_REF[path] = conn
    return _CLI_REF[path]


def cli_case(case, tmpdir):
    import click.testing
    problems, info = [], {}
    path = os.path.join(tmpdir, case['ledger'] + '.beancount')
    query = CLI_QUERIES[case['query']]
    outpath = os.path.join(tmpdir, f'out-{case["n"]}.txt')
    args = [path]
    if case['long']:
        args += ['--format=' + case['format']]
        args += ['--numberify'] if case['numberify'] else []
        args += ['--output', outpath] if case['to_file'] else []
        args += ['--no-errors'] if case['quiet'] else []
    else:
        args += ['-f', case['format']]
        args += ['-m'] if case['numberify'] else []
        args += ['-o', outpath] if case['to_file'] else []
        args += ['-q'] if case['quiet'] else []
    args.append(query)
    label = 'bean-query ' + ' '.join(q(a) for a in [case['ledger'] + '.beancount'] + args[1:])

    # reference: API on the same file + renderer under default settings with format / numberify selected
    conn = cli_reference(path)
    cursor = conn.execute(query)
    desc0, rows0 = cursor.description, cursor.fetchall()
    dcontext = conn.options['dcontext']
    defaults = S.SettingsModel.from_observed(vars(shell.Settings()))

    def reference(fmt, num):
        plan = S.render_plan(defaults.replace('format', fmt).replace('numberify', num))
        desc, rows = numberify_results(desc0, rows0, dcontext.build()) if plan['numberify'] else (desc0, rows0)
        if not rows and plan['empty_marker'] is not None:
            return plan['empty_marker']
        f = io.StringIO()
        (render_text if plan['format'] == 'text' else render_csv)(desc, rows, dcontext, f, **plan['options'])
        return f.getvalue()
    expected = reference(case['format'], case['numberify'])

    def unquantized():
        plan = S.render_plan(defaults.replace('format', case['format']).replace('numberify', True))
        desc, rows = numberify_results(desc0, rows0)
        f = io.StringIO()
        (render_text if plan['format'] == 'text' else render_csv)(desc, rows, dcontext, f, **plan['options'])
        return f.getvalue()

    def locus(observed):
        """Name the option that was not applied, if the observed text is the reference of another choice."""
        other_fmt = 'csv' if case['format'] == 'text' else 'text'
        if case['numberify'] and rows0:
            try:
                if observed == unquantized() != expected:
                    return 'numberify:display-precision-not-applied'
            except Exception:       # noqa: BLE001 - diagnosis only
                pass
        if observed == reference(case['format'], not case['numberify']) != expected:
            return 'cli:-m-not-applied'
        if observed == reference(other_fmt, case['numberify']) != expected:
            return 'cli:-f-not-applied'
        return f'cli:result:{case["format"]}:{"rows" if rows0 else "empty"}'
    messages = [e.message for e in conn.errors]
    if (case['ledger'] == 'errors') != bool(messages):
        raise AssertionError(f'ledger {case["ledger"]} has errors {messages}')

    saved = (shell.INIT_FILENAME, shell.HISTORY_FILENAME)
    shell.INIT_FILENAME = shell.HISTORY_FILENAME = ''      # as shell_test.py: never read the user's files
    try:
        runner = click.testing.CliRunner(env={'HOME': tmpdir})
        result = runner.invoke(shell.main, args, catch_exceptions=True)
    finally:
        shell.INIT_FILENAME, shell.HISTORY_FILENAME = saved
    # the raw bytes: Result.stdout would fold the CSV writer's '\r\n'
    stdout = result.stdout_bytes.decode('utf-8', 'replace')
    stderr = (result.stderr_bytes or b'').decode('utf-8', 'replace')
    if result.exception is not None and not isinstance(result.exception, SystemExit):
        problems.append((crash_fingerprint(result.exception), f'{label} raised {type(result.exception).__name__}: {result.exception}'))
        return problems, info
    if result.exit_code != 0:
        problems.append(('cli:exit', f'{label} exited with status {result.exit_code}; stderr={stderr!r}'))
        return problems, info
    info['result_text'] = expected
    if case['to_file']:
        try:
            with open(outpath, newline='') as f:
                content = f.read()
        except FileNotFoundError:
            content = None
        if content != expected:
            problems.append(('cli:-o:file-content' if content is None or stdout == expected else locus(content),
                             f'{label}: the output file holds {content!r}, expected {expected!r}'))
        else:
            info['result_in_file'] = 1
        if expected.strip() and expected in stdout:
            problems.append(('cli:-o:result-on-stdout', f'{label}: the result was (also) written to stdout: {stdout!r}'))
    else:
        if stdout != expected:
            problems.append((locus(stdout), f'{label}: stdout {stdout!r}, expected {expected!r}'))
        else:
            info['result_on_stdout'] = 1
    everything = stdout + stderr
    if messages:
        seen = [m for m in messages if m in everything]
        if case['quiet']:
            if seen:
                problems.append(('cli:-q-ignored', f'{label}: -q / --no-errors given but the ledger error report is printed: '
                                                   f'{stderr[:300]!r}'))
            else:
                info['error_report_suppressed'] = 1
        else:
            if len(seen) != len(messages):
                problems.append(('cli:error-report-missing', f'{label}: ledger errors {messages} are not reported; stderr={stderr!r}'))
            else:
                info['error_report_seen'] = 1
    else:
        if stderr.strip():
            problems.append(('cli:stderr', f'{label}: clean ledger but stderr={stderr!r}'))
        info['clean_silent'] = 1
    if os.path.exists(outpath):
        os.remove(outpath)
    return problems, info


# -- entry points --------------------------------------------------------------------------------------------------

def replay(case):
    if case.get('part') == 'cli':
        tmpdir = tempfile.mkdtemp(prefix='c19-')
        try:
            write_ledgers(tmpdir)
            problems, _ = cli_case(case['case'], tmpdir)
        finally:
            shutil.rmtree(tmpdir, ignore_errors=True)
        return [Violation(fp, msg, case) for fp, msg in problems]
    _set_nullvalues(case.get('seed', 0))
    if case.get('part') == 'session':
        prefix = [_tup(h) for h in case['prefix']]
        steps = [_tup(h) for h in case['steps']]
        _, found, _ = run_session(prefix, steps, bool(case.get('separate')))
        return [Violation(fp, f'in one session, after {[h[1] for h in prefix] + [e[1] for e in steps[:k]]!r}: {msg}', case)
                for k, fp, msg in found]
    hist = [_tup(h) for h in case['history']]
    ev = _tup(case['event'])
    prime([ev])
    _, problems = run_case(hist, ev)
    return [Violation(fp, f'after {[h[1] for h in hist]!r}: {msg}', case) for fp, msg in problems]


def run(ctx):
    seed = ctx.seed
    _set_nullvalues(seed)
    w = world()
    # reference results once, before forking
    for kind, text in STATEMENTS:
        if kind == 'print':
            w.printed(text)
        else:
            w.result(text)
    for _, texts in NAMED.values():
        for t in texts:
            w.result(t)
    for t in (list(NAMED_PLAIN.values()) + list(NAMED_OVERRIDDEN.values()) + list(NAMED_OTHER_DATE.values())
              + [t for v in NAMED_WRONG.values() for _, t in v]) + [o for v in STMT_NOT.values() for _, o in v]:
        w.result(t)
    for ev in cheap_events(seed):
        if ev[0] == 'error' and ev[3] is not None and ev[3][0] != 'same-as':
            w.printed(ev[3][1]) if ev[3][0] == 'print' else w.result(ev[3][1])
    null_cells = sum(1 for k, t in STATEMENTS if k != 'print' for r in w.result(t)[0][1] for v in r if v is None)
    inv_cols = sum(1 for k, t in STATEMENTS if k != 'print' for c in w.result(t)[0][0]
                   if c.datatype.__name__ in ('Inventory', 'Position', 'Amount'))
    # non-vacuity of numberify: the ledger has numbers written with more and with fewer digits than the display
    # precision of their currency, so that quantising to the ledger's display context is visible in the output
    off_precision = {}
    for kind, text in STATEMENTS:
        plain, num = w.result(text) if kind != 'print' else (None, None)
        if isinstance(plain, tuple) and isinstance(num, tuple):
            try:
                raw = numberify_results(plain[0], plain[1])
                off_precision[text] = sum(1 for a, b in zip(raw[1], num[1]) for x, y in zip(a, b)
                                          if x is not None and y is not None and str(x) != str(y))
            except Exception:       # noqa: BLE001 - counting only
                off_precision[text] = -1
    if not any(v > 0 for v in off_precision.values()):
        raise AssertionError('no statement of the check ledger shows a number that numberify has to quantise')
    # non-vacuity of the default-close cases: the three readings must print different things
    initial = ShellProduct().model
    close_matters = {
        'jan': w.render(NAMED['jan'][1][0], initial) != w.render(NAMED_PLAIN['jan'], initial),
        'cash-flow': w.render(NAMED['cash-flow'][1][0], initial) != w.render(NAMED_PLAIN['cash-flow'], initial),
        'closed': w.render(NAMED['closed'][1][0], initial) != w.render(NAMED_OVERRIDDEN['closed'], initial),
        'bal': w.render(NAMED['bal'][1][0], initial) != w.render(NAMED['bal'][1][1], initial),
    }
    for name in ('undated', 'undated-open', 'undated-filter'):
        close_matters[name] = w.render(NAMED[name][1][0], initial) != w.render(NAMED_OVERRIDDEN[name], initial)
    for text, others in STMT_NOT.items():
        close_matters['typed: ' + text] = all(isinstance(w.render(text, initial), str)
                                              and w.render(text, initial) != w.render(o, initial) for _, o in others)
    for name, wrongs in NAMED_WRONG.items():
        good = w.render(NAMED[name][1][0], initial)
        close_matters[name] = isinstance(good, str) and all(w.render(t, initial) != good for _, t in wrongs)
    twins = [w.render(_TWIN % c, initial) for c in ("", " CLOSE ON 2020-01-31", " CLOSE ON 2020-02-29")]
    close_matters['twin-a / twin-b / typed all differ'] = len(set(twins)) == 3 and all(isinstance(t, str) for t in twins)
    if not all(v for k, v in close_matters.items() if k != 'bal'):
        raise AssertionError(f'the ledger does not distinguish the CLOSE readings: {close_matters}')

    # Part 1: closure of the settings store
    reg = Registry()
    alphabet = generator_alphabet(seed)
    st = bfs(make_factory(reg), alphabet, max_states=5000)
    violations = []
    for hist, ev, fp, msg in st.violations:
        violations.append(Violation(fp, f'after {[h[1] for h in hist]!r}: {msg}',
                                    {'part': 'shell', 'seed': seed, 'history': _lst(hist), 'event': _lst(ev)}))
    canons = list(reg.histories)
    states = [reg.histories[k] for k in canons]
    model_space = S.state_space(initial, NULLVALUES)
    expected_states = len(model_space)
    reached_models = {k[1] for k in reg.histories}
    all_reached = reached_models == {m.key() for m in model_space}

    # Part 2 + 3
    others = assign_alphabet(seed)
    cheap, costly = others + cheap_events(seed), costly_events(seed)
    near = [i for i, h in enumerate(states) if len(h) <= 2]
    costly_states = near if ctx.quick else list(range(len(states)))
    cases = cli_cases()
    session_list = sessions(ctx.thorough, seed)
    # Part 4 first: its workers fork from this process, which has run no statement on any shell yet
    acc4 = run_shards(shard_sessions, ctx.jobs, seed, session_list, nshards=max(ctx.jobs, 1))
    tmpdir = tempfile.mkdtemp(prefix='c19-')
    try:
        write_ledgers(tmpdir)
        acc = run_shards(shard_observers, ctx.jobs, seed, states, canons, cheap, costly, costly_states, cases, tmpdir,
                         nshards=max(ctx.jobs, 1) * 4)
    finally:
        shutil.rmtree(tmpdir, ignore_errors=True)
    acc.merge(acc4)
    witnesses = {}
    # session witnesses (rank -1) come first: they are self-contained whatever process-global state leaks
    for fp, rank, what, case in sorted(acc.sets.pop('violation-witnesses', ())):
        witnesses.setdefault(fp, []).append(Violation(fp, what, json.loads(case)))
    for fp, vs in witnesses.items():
        violations += vs[:3]
    acc.merge(reg.acc)
    # smallest witness first (the runner keeps the first case per fingerprint)
    violations.sort(key=lambda v: (len(v.case.get('history', ())), ))

    per_stmt = {k[len('stmt-outputs:'):]: len(v) for k, v in acc.sets.items() if k.startswith('stmt-outputs:')}
    transitions = st.transitions + acc.n['transitions'] + acc.n['cli_cases']
    # closure over the FULL alphabet: the BFS closed under the generators and every other transition, from
    # every state, was executed and landed inside the set (or was reported as a violation and not continued)
    closed = bool(st.closed and all_reached and st.states == expected_states
                  and acc.n['successor-outside-closed-set'] == 0
                  and len(acc.sets['states-observed']) == len(states))
    exhaustive = bool(closed and len(acc.sets['states-observed']) == len(states)
                      and len(acc.sets['states-with-statements']) == len(costly_states)
                      and acc.n['cli_cases'] == len(cases) and acc.n['sessions'] == len(session_list))
    samples = [{'history': [h[1] for h in hist], 'note': 'BFS history (shortest) of one canonical state'}
               for hist in st.sample_histories[:3]]
    samples += acc.samples[:4]
    samples.append({'cli': 'bean-query clean.beancount -f csv -m -o FILE -q ' + q(CLI_QUERIES[0])})
    cov = {
        'states': st.states,
        'transitions': transitions,
        'traces_validated_against_impl': st.replays + acc.n['transitions'] + acc.n['cli_cases'],
        'evaluations': transitions,
        'distinct_nontrivial': len(acc.sets['outcomes']) + len(acc.sets['cli-outcomes']),
        'rule': 'a case is one (history, event) transition of the product (real BQLShell, settings model), or one '
                'bean-query invocation; distinct & non-trivial = distinct (typed line, stdout, stderr, exception class) '
                'observations with non-empty output, plus distinct (result text, destination) of the CLI runs',
        'exhaustive': exhaustive,
        'closure_reached': closed,
        'bound': ('closure of the canonical settings state space (histories of any length over the alphabet); '
                  + ('statements / .run / .explain in every state within two .set changes of the default'
                     if ctx.quick else 'statements / .run / .explain in every state')
                  + f'; sessions of length 1..{file_session_length(ctx.thorough)} over 8 commands with the shell writing to a '
                    'file of its own'),
        'settings_states_expected': expected_states,
        'settings_states_reached': len(reached_models),
        'longest_shortest_history': st.max_depth_seen,
        'bfs': {'states': st.states, 'transitions': st.transitions, 'replays': st.replays,
                'desynchronised_branches': st.dead, 'alphabet_size': len(alphabet)},
        'desynchronised_branches': st.dead + acc.n['desynchronised'],
        'successors_outside_closed_set': acc.n['successor-outside-closed-set'],
        'bfs_generator_alphabet': [e[1] for e in alphabet],
        'other_assignment_events_all_states': [e[1] for e in others],
        'observer_events_all_states': [e[1] for e in cheap[len(others):]],
        'statement_events': [e[1] for e in costly],
        'statement_states': len(costly_states),
        'observer_transitions': {'cheap': acc.n['cheap'], 'costly': acc.n['costly']},
        'states_observed': len(acc.sets['states-observed']),
        'cli_cases': acc.n['cli_cases'],
        'output_file_sessions': {'sessions': acc.n['sessions_with_output_file'],
                                 'steps_compared': acc.n['output_file_session_steps'],
                                 'steps_that_printed': acc.n['output_file_steps_with_output'],
                                 'alphabet': [e[1] for e in file_session_events(seed)],
                                 'max_length': file_session_length(ctx.thorough)},
        'numberified_cells_changed_by_display_precision': off_precision,
        'session_histories': {'sessions': acc.n['sessions'], 'steps_compared': acc.n['session_steps'],
                              'alphabet': [e[1] for e in session_events()], 'max_length': 3,
                              'settings_prefixes': sorted({' ; '.join(h[1] for h in pre) for pre, _, _ in session_list}),
                              'distinct_output_sequences': len(acc.sets['session-outcomes'])},
        'distinct_outputs_seen': len(acc.sets['outcomes']),
        'distinct_outputs_per_statement': per_stmt,
        'null_cells_in_reference_results': null_cells,
        'amount_position_inventory_columns': inv_cols,
        'default_close_changes_output': close_matters,
        'counters': {k: v for k, v in sorted(acc.n.items())},
        'value_menus': {**menus(seed), 'nullvalues': list(NULLVALUES)},
        'samples': samples,
    }
    return Result(cov, violations, assumptions=[
        'batch mode only (interactive=False, runinit=False; main(): INIT_FILENAME blanked, HOME in a temp dir); pager, readline, history outside',
        'canonical state = vars(settings) by type and value + scalar attributes of the shell + named query names; the python '
        'warning registry (deprecation warning printed once per process) is outside, warning: lines of legacy commands are ignored',
        'which words are booleans/formats: true/false/1/0/on/off/yes/no and text/csv certainly valid, junk words certainly invalid, '
        't/f/y/n, upper-case format names and wrong-case setting names may be taken or rejected',
        'error message = non-empty stdout or stderr, wording free; an escaping beanquery.Error counts as the report for a bare unknown word',
        'default CLOSE ON only claimed for a named SELECT with a FROM clause; a named SELECT without FROM clause and a named BALANCES may print either reading',
        'echo format free: NAME, separator, any spelling of the value the model parses back; initial values read from the real object',
        '.tables/.describe/.explain: only lower bounds (names present, non-empty, not the query result, state unchanged)',
        'the renderers, numberify_results, execute_print and Connection.execute are the yardstick the property names, not under test here',
        'numberify = numberify_results with the DisplayFormatter built from the ledger display context (the documented, recommended use); '
        'the check ledger has USD numbers with 3, 2 and 0 fractional digits so that the quantisation shows',
        'shell writing to a file of its own (-o): the result of SELECT / PRINT / .run must be in that file and nothing of it on stdout; '
        'for every other command file + stdout together are taken as "what is printed" (some commands use print() to stdout)',
    ])
